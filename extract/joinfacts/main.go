// joinfacts: reads lib/query/join.go and lib/query/header.go of csvq and prints Csvq/Gen/JoinFacts.lean — the NATURAL branch
// of ParseJoinCondition as a small step program (property C05, Model/JoinTree.lean `naturalUsing`):
//
//	if !join.Natural.IsEmpty() {
//	    <pre>                                   statements before the loop  (none in the reviewed code)
//	    for _, field := range <range> {          the expression ranged over  (view.Header: EVERY field of the left view)
//	        <body>                              per field: skip conditions, the search in the right header, the append
//	    }
//	    <post>
//	}
//
// Body statements are translated one by one: `if field.Column == C { continue }` → skipIfColumnIs C (C a string constant of
// package query, resolved to its value), the FieldReference binding → bindRef, the SearchIndex test with its ambiguous /
// not-found branches → searchRight, `using = append(using, Identifier{Literal: field.Column})` → appendKey.  Anything else is
// printed as `other "<source>"` — never dropped — and makes the interpreter of the model (Model/JoinTree `interpNatural`)
// fail, so that gen_natural_skips_every_internal_id no longer holds.  Stdlib only.
package main

import (
	"fmt"
	"go/ast"
	"go/parser"
	"go/printer"
	"go/token"
	"os"
	"path/filepath"
	"strconv"
	"strings"
)

var fset = token.NewFileSet()

func die(format string, a ...interface{}) {
	fmt.Fprintf(os.Stderr, "joinfacts: "+format+"\n", a...)
	os.Exit(1)
}

func src(n ast.Node) string {
	var sb strings.Builder
	_ = printer.Fprint(&sb, fset, n)
	return strings.Join(strings.Fields(sb.String()), " ")
}

func repo() string {
	if r := os.Getenv("VERIF_REPO"); r != "" {
		return r
	}
	return "/repo"
}

func parse(rel string) *ast.File {
	f, err := parser.ParseFile(fset, filepath.Join(repo(), rel), nil, 0)
	if err != nil {
		die("%v", err)
	}
	return f
}

// string constants of package query (header.go)
func stringConsts(f *ast.File) map[string]string {
	out := map[string]string{}
	for _, d := range f.Decls {
		gd, ok := d.(*ast.GenDecl)
		if !ok || gd.Tok != token.CONST {
			continue
		}
		for _, s := range gd.Specs {
			vs := s.(*ast.ValueSpec)
			for i, n := range vs.Names {
				if i < len(vs.Values) {
					if bl, ok := vs.Values[i].(*ast.BasicLit); ok && bl.Kind == token.STRING {
						if v, err := strconv.Unquote(bl.Value); err == nil {
							out[n.Name] = v
						}
					}
				}
			}
		}
	}
	return out
}

func isContinue(b *ast.BlockStmt) bool {
	if len(b.List) != 1 {
		return false
	}
	br, ok := b.List[0].(*ast.BranchStmt)
	return ok && br.Tok == token.CONTINUE
}

func step(s ast.Stmt, field string, consts map[string]string) string {
	txt := src(s)
	switch x := s.(type) {
	case *ast.IfStmt:
		// if field.Column == C { continue }
		if x.Init == nil && x.Else == nil && isContinue(x.Body) {
			if be, ok := x.Cond.(*ast.BinaryExpr); ok && be.Op == token.EQL && src(be.X) == field+".Column" {
				if id, ok := be.Y.(*ast.Ident); ok {
					if v, ok := consts[id.Name]; ok {
						return fmt.Sprintf(".skipIfColumnIs %q", v)
					}
				}
				if bl, ok := be.Y.(*ast.BasicLit); ok && bl.Kind == token.STRING {
					v, _ := strconv.Unquote(bl.Value)
					return fmt.Sprintf(".skipIfColumnIs %q", v)
				}
			}
		}
		// if _, err := joinView.Header.SearchIndex(ref); err != nil { if err == errFieldAmbiguous { return … } continue }
		want := "if _, err := joinView.Header.SearchIndex(ref); err != nil { if err == errFieldAmbiguous { return nil, nil, nil, NewFieldAmbiguousError(ref) } continue }"
		if txt == want {
			return ".searchRight"
		}
	case *ast.AssignStmt:
		if txt == "ref := parser.FieldReference{BaseExpr: parser.NewBaseExpr(join.Natural), Column: parser.Identifier{Literal: "+field+".Column}}" {
			return ".bindRef"
		}
		if txt == "using = append(using, parser.Identifier{BaseExpr: parser.NewBaseExpr(join.Natural), Literal: "+field+".Column})" {
			return ".appendKey"
		}
	}
	return fmt.Sprintf(".other %q", txt)
}

func leanStrs(xs []string) string {
	q := make([]string, len(xs))
	for i, x := range xs {
		q[i] = strconv.Quote(x)
	}
	return "[" + strings.Join(q, ", ") + "]"
}

func main() {
	j := parse("lib/query/join.go")
	consts := stringConsts(parse("lib/query/header.go"))
	idc, ok := consts["InternalIdColumn"]
	if !ok {
		die("constant InternalIdColumn not found in header.go")
	}
	var fd *ast.FuncDecl
	for _, d := range j.Decls {
		if f, ok := d.(*ast.FuncDecl); ok && f.Name.Name == "ParseJoinCondition" && f.Recv == nil {
			fd = f
		}
	}
	if fd == nil {
		die("ParseJoinCondition not found")
	}
	params := []string{}
	for _, p := range fd.Type.Params.List {
		for _, n := range p.Names {
			params = append(params, n.Name)
		}
	}
	if strings.Join(params, ",") != "join,view,joinView" {
		die("ParseJoinCondition has other parameters: %v", params)
	}
	var branch *ast.IfStmt
	for _, s := range fd.Body.List {
		if is, ok := s.(*ast.IfStmt); ok && src(is.Cond) == "!join.Natural.IsEmpty()" {
			branch = is
		}
	}
	if branch == nil {
		die("the NATURAL branch `if !join.Natural.IsEmpty()` not found")
	}
	var pre, post, body []string
	rangeExpr := ""
	seenLoop := false
	for _, s := range branch.Body.List {
		if rs, ok := s.(*ast.RangeStmt); ok && !seenLoop {
			seenLoop = true
			if rs.Value == nil || src(rs.Key) != "_" {
				die("the NATURAL loop does not range over the fields by value: %s", src(rs))
			}
			rangeExpr = src(rs.X)
			for _, b := range rs.Body.List {
				body = append(body, step(b, src(rs.Value), consts))
			}
			continue
		}
		if seenLoop {
			post = append(post, src(s))
		} else {
			pre = append(pre, src(s))
		}
	}
	if !seenLoop {
		die("no loop in the NATURAL branch")
	}
	var o strings.Builder
	o.WriteString("-- GENERATED by /verif/extract/joinfacts from lib/query/join.go (ParseJoinCondition), header.go — do not edit.\n\nnamespace Csvq.Gen.JoinFacts\n\n")
	o.WriteString("/-- one statement of the body of the NATURAL loop -/\ninductive NStep\n  /-- `if field.Column == c { continue }` -/\n  | skipIfColumnIs (c : String)\n  /-- the FieldReference to the field's column is built -/\n  | bindRef\n  /-- the column is searched in the right header: ambiguous → error, not found → continue -/\n  | searchRight\n  /-- the column is appended to the USING list -/\n  | appendKey\n  /-- a statement outside the reviewed forms -/\n  | other (src : String)\n  deriving DecidableEq, Repr\n\n")
	o.WriteString("structure NaturalLoop where\n  pre : List String\n  range : String\n  body : List NStep\n  post : List String\n  deriving Repr\n\n")
	o.WriteString(fmt.Sprintf("/-- the constant InternalIdColumn (lib/query/header.go) -/\ndef internalIdColumn : String := %q\n\n", idc))
	o.WriteString("/-- the NATURAL branch of ParseJoinCondition (lib/query/join.go) -/\ndef naturalLoop : NaturalLoop :=\n")
	o.WriteString(fmt.Sprintf("  { pre := %s,\n    range := %q,\n    body := [%s],\n    post := %s }\n\n", leanStrs(pre), rangeExpr, strings.Join(body, ", "), leanStrs(post)))
	o.WriteString("end Csvq.Gen.JoinFacts\n")
	fmt.Print(o.String())
}
