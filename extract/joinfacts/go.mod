module joinfacts

go 1.18
