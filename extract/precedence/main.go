// precedence: reads lib/parser/parser.y of csvq and prints Csvq/Gen/Precedence.lean —
//   * the precedence / associativity declarations (%left / %right / %nonassoc lines, in order, with their tokens),
//   * the productions of the operator-expression sub-language (arithmetic, string_operation, comparison, logic, the
//     parenthesised value, negation, comparison_operator) with their %prec and the syntax-tree node they build,
//   * the operator tables the Lean model's precedence-climbing parser is driven by.
// go/ast does not apply to a .y file: the text is parsed here. Stdlib only. Fails closed (exit 1) on every
// declaration, production shape or action it does not recognise.
package main

import (
	"fmt"
	"os"
	"regexp"
	"sort"
	"strings"
)

func die(format string, a ...interface{}) {
	fmt.Fprintf(os.Stderr, "precedence: "+format+"\n", a...)
	os.Exit(1)
}

type level struct {
	assoc  string
	tokens []string
}

type prod struct {
	lhs  string
	rhs  []string
	prec string
	node string
}

var charNames = map[string]string{"'='": "c_eq", "'-'": "c_minus", "'+'": "c_plus", "'*'": "c_star", "'/'": "c_slash", "'%'": "c_percent", "'!'": "c_bang",
	"'('": "c_lpar", "')'": "c_rpar", "';'": "c_semi", "','": "c_comma", "'.'": "c_dot"}

var reIdent = regexp.MustCompile(`^[A-Z][A-Z0-9_]*$`)

func termName(tok string) string {
	if n, ok := charNames[tok]; ok {
		return n
	}
	if reIdent.MatchString(tok) {
		return tok
	}
	die("unrecognised terminal %q", tok)
	return ""
}

// ---------- declarations ----------

func parseDeclarations(decl string) (levels []level, tokens map[string]bool) {
	tokens = map[string]bool{}
	lines := strings.Split(decl, "\n")
	inCode, inUnion := false, false
	for i, l := range lines {
		t := strings.TrimSpace(l)
		switch {
		case t == "%{":
			inCode = true
			continue
		case t == "%}":
			inCode = false
			continue
		case inCode:
			continue
		case strings.HasPrefix(t, "%union"):
			inUnion = !strings.Contains(t, "}")
			continue
		case inUnion:
			if strings.Contains(t, "}") {
				inUnion = false
			}
			continue
		case t == "" || strings.HasPrefix(t, "//"):
			continue
		case !strings.HasPrefix(t, "%"):
			die("line %d of the declarations: %q is not a declaration", i+1, t)
		}
		f := strings.Fields(t)
		switch {
		case strings.HasPrefix(f[0], "%type"):
		case strings.HasPrefix(f[0], "%token"):
			for _, tok := range f[1:] {
				tokens[tok] = true
				termName(tok)
			}
		case f[0] == "%left" || f[0] == "%right" || f[0] == "%nonassoc":
			if len(f) < 2 {
				die("line %d: %s without tokens", i+1, f[0])
			}
			for _, tok := range f[1:] {
				termName(tok)
			}
			levels = append(levels, level{strings.TrimPrefix(f[0], "%"), f[1:]})
		default:
			die("line %d of the declarations: unknown directive %q", i+1, f[0])
		}
	}
	return
}

// ---------- rules ----------

// splitRules: nonterminal -> alternatives (symbols, %prec, action text)
type alt struct {
	syms   []string
	prec   string
	action string
}

func parseRules(rules string) map[string][]alt {
	out := map[string][]alt{}
	rs := []rune(rules)
	i := 0
	skipSpace := func() {
		for i < len(rs) {
			switch {
			case rs[i] == ' ' || rs[i] == '\t' || rs[i] == '\n' || rs[i] == '\r':
				i++
			case rs[i] == '/' && i+1 < len(rs) && rs[i+1] == '/':
				for i < len(rs) && rs[i] != '\n' {
					i++
				}
			case rs[i] == '/' && i+1 < len(rs) && rs[i+1] == '*':
				i += 2
				for i+1 < len(rs) && !(rs[i] == '*' && rs[i+1] == '/') {
					i++
				}
				i += 2
			default:
				return
			}
		}
	}
	word := func() string {
		j := i
		if i < len(rs) && rs[i] == '\'' {
			i++
			for i < len(rs) && rs[i] != '\'' {
				if rs[i] == '\\' {
					i++
				}
				i++
			}
			i++
			return string(rs[j:i])
		}
		for i < len(rs) && (rs[i] == '_' || rs[i] == '%' || rs[i] >= 'a' && rs[i] <= 'z' || rs[i] >= 'A' && rs[i] <= 'Z' || rs[i] >= '0' && rs[i] <= '9') {
			i++
		}
		return string(rs[j:i])
	}
	action := func() string {
		// rs[i] == '{' : Go code up to the matching brace; string, rune and comment contents are skipped
		j, depth := i, 0
		for i < len(rs) {
			switch rs[i] {
			case '{':
				depth++
			case '}':
				depth--
				if depth == 0 {
					i++
					return string(rs[j:i])
				}
			case '"', '`':
				q := rs[i]
				i++
				for i < len(rs) && rs[i] != q {
					if rs[i] == '\\' && q == '"' {
						i++
					}
					i++
				}
			case '\'':
				i++
				for i < len(rs) && rs[i] != '\'' {
					if rs[i] == '\\' {
						i++
					}
					i++
				}
			case '/':
				if i+1 < len(rs) && rs[i+1] == '/' {
					for i < len(rs) && rs[i] != '\n' {
						i++
					}
				}
			}
			i++
		}
		die("unterminated action")
		return ""
	}
	for {
		skipSpace()
		if i >= len(rs) {
			break
		}
		name := word()
		if name == "" {
			die("rules section: expected a nonterminal at %q", string(rs[i:min(i+30, len(rs))]))
		}
		skipSpace()
		if i >= len(rs) || rs[i] != ':' {
			die("rules section: expected ':' after %q", name)
		}
		i++
		cur := alt{}
		for {
			skipSpace()
			if i >= len(rs) {
				out[name] = append(out[name], cur)
				break
			}
			switch {
			case rs[i] == '{':
				cur.action += action()
			case rs[i] == '|':
				i++
				out[name] = append(out[name], cur)
				cur = alt{}
			case rs[i] == ';':
				i++
				out[name] = append(out[name], cur)
				cur = alt{syms: []string{"<end>"}}
			default:
				w := word()
				if w == "" {
					die("rules section: unexpected %q in %s", string(rs[i]), name)
				}
				if w == "%prec" {
					skipSpace()
					cur.prec = word()
					continue
				}
				// a new rule starts when a word is followed by ':' (yacc rules here are not ';'-terminated)
				k := i
				skipSpace()
				if i < len(rs) && rs[i] == ':' && cur.action != "" {
					i = k - len([]rune(w))
					out[name] = append(out[name], cur)
					cur = alt{syms: []string{"<next>"}}
				} else {
					i = k
					if cur.action != "" {
						die("symbol %q after the action in a production of %s (mid-rule actions are not supported)", w, name)
					}
					cur.syms = append(cur.syms, w)
				}
			}
			if len(cur.syms) == 1 && (cur.syms[0] == "<next>" || cur.syms[0] == "<end>") {
				break
			}
		}
	}
	return out
}

func min(a, b int) int {
	if a < b {
		return a
	}
	return b
}

var reNode = regexp.MustCompile(`\$\$\s*=\s*([A-Z][A-Za-z]*)\{`)

func nodeOf(a alt, nt string) string {
	ms := reNode.FindAllStringSubmatch(a.action, -1)
	if len(ms) == 0 {
		if strings.Contains(a.action, "$$ = $1") || strings.Contains(a.action, "$$ = Token{}") {
			return "pass"
		}
		die("%s: %v: cannot tell which node the action builds: %s", nt, a.syms, a.action)
	}
	n := ms[0][1]
	for _, m := range ms[1:] {
		if m[1] != n {
			die("%s: %v: the action builds more than one kind of node", nt, a.syms)
		}
	}
	return n
}

// the shapes this translator knows (anything else in the four operator nonterminals is a failure)
var known = map[string]string{
	"arithmetic: value '+' value": "Arithmetic", "arithmetic: value '-' value": "Arithmetic", "arithmetic: value '*' value": "Arithmetic",
	"arithmetic: value '/' value": "Arithmetic", "arithmetic: value '%' value": "Arithmetic",
	"arithmetic: '-' value %prec UMINUS": "UnaryArithmetic", "arithmetic: '+' value %prec UPLUS": "UnaryArithmetic",
	"string_operation: value STRING_OP value": "Concat",
	"logic: value OR value":                   "Logic", "logic: value AND value": "Logic", "logic: NOT value": "UnaryLogic", "logic: '!' value": "UnaryLogic",
	"comparison: value COMPARISON_OP value": "Comparison", "comparison: row_value COMPARISON_OP row_value": "Comparison",
	"comparison: value '=' value": "Comparison", "comparison: row_value '=' row_value": "Comparison",
	"comparison: value IS negation ternary": "Is", "comparison: value IS negation null": "Is",
	"comparison: value BETWEEN value AND value": "Between", "comparison: value NOT BETWEEN value AND value": "Between",
	"comparison: row_value negation BETWEEN row_value AND row_value": "Between",
	"comparison: value IN row_value": "In", "comparison: value NOT IN row_value": "In", "comparison: row_value negation IN matrix_value": "In",
	"comparison: value LIKE value": "Like", "comparison: value NOT LIKE value": "Like",
	"comparison: value comparison_operator ANY row_value": "Any", "comparison: row_value comparison_operator ANY matrix_value": "Any",
	"comparison: value comparison_operator ALL row_value": "All", "comparison: row_value comparison_operator ALL matrix_value": "All",
	"comparison: EXISTS subquery": "Exists",
}

func main() {
	if len(os.Args) != 2 {
		die("usage: precedence <path to parser.y>")
	}
	b, err := os.ReadFile(os.Args[1])
	if err != nil {
		die("%v", err)
	}
	parts := strings.Split(string(b), "\n%%")
	if len(parts) < 2 {
		die("no %%%% separator")
	}
	levels, _ := parseDeclarations(parts[0])
	if len(levels) == 0 {
		die("no precedence declarations")
	}
	rules := parseRules(parts[1])

	var prods []prod
	for _, nt := range []string{"arithmetic", "string_operation", "comparison", "logic"} {
		alts, ok := rules[nt]
		if !ok {
			die("nonterminal %s not found", nt)
		}
		for _, a := range alts {
			key := nt + ": " + strings.Join(a.syms, " ")
			if a.prec != "" {
				key += " %prec " + a.prec
			}
			want, ok := known[key]
			if !ok {
				die("production not in the supported subset: %s", key)
			}
			if got := nodeOf(a, nt); got != want {
				die("%s builds %s, expected %s", key, got, want)
			}
			prods = append(prods, prod{nt, a.syms, a.prec, want})
		}
	}
	// the operator nonterminals must be alternatives of value / substantial_value, and written parentheses a node
	reach := map[string]bool{}
	paren := 0
	for _, nt := range []string{"value", "substantial_value"} {
		for _, a := range rules[nt] {
			if len(a.syms) == 1 {
				reach[a.syms[0]] = true
			}
			if len(a.syms) == 3 && a.syms[0] == "'('" && a.syms[2] == "')'" && (a.syms[1] == "value" || a.syms[1] == "substantial_value") {
				if nodeOf(a, nt) != "Parentheses" {
					die("%s: '(' %s ')' does not build a Parentheses node", nt, a.syms[1])
				}
				paren++
				prods = append(prods, prod{nt, a.syms, "", "Parentheses"})
			}
		}
	}
	for _, nt := range []string{"arithmetic", "string_operation", "comparison", "logic", "substantial_value"} {
		if !reach[nt] {
			die("%s is no longer an alternative of value", nt)
		}
	}
	if paren == 0 {
		die("no parenthesised value production")
	}
	neg := rules["negation"]
	if len(neg) != 2 || len(neg[0].syms) != 0 || len(neg[1].syms) != 1 || neg[1].syms[0] != "NOT" {
		die("negation is no longer `| NOT`")
	}
	co := rules["comparison_operator"]
	if len(co) != 2 || strings.Join(co[0].syms, " ") != "COMPARISON_OP" || strings.Join(co[1].syms, " ") != "'='" {
		die("comparison_operator is no longer `COMPARISON_OP | '='`")
	}

	// every terminal that occurs in a level, in order of first occurrence
	var terms []string
	seen := map[string]bool{}
	for _, l := range levels {
		for _, t := range l.tokens {
			if seen[t] {
				die("token %s occurs in two precedence declarations", t)
			}
			seen[t] = true
			terms = append(terms, t)
		}
	}
	levelOf := func(tok string) int {
		for i, l := range levels {
			for _, t := range l.tokens {
				if t == tok {
					return i + 1
				}
			}
		}
		return 0
	}

	var o strings.Builder
	w := func(format string, a ...interface{}) { fmt.Fprintf(&o, format, a...) }
	w("-- GENERATED by /verif/extract/precedence from lib/parser/parser.y — do not edit.\n")
	w("import Csvq.Model.OpBase\nnamespace Csvq.Gen.Precedence\nopen Csvq.OpExpr\n\n")
	w("/-- the terminals that have a precedence declaration -/\ninductive Term\n")
	for _, t := range terms {
		w("  | %s\n", termName(t))
	}
	w("  deriving DecidableEq, Repr\n\n")
	w("/-- the %%left / %%right / %%nonassoc lines of parser.y, lowest precedence first (level = position, from 1) -/\n")
	w("def levels : List (Assoc × List Term) := [\n")
	for i, l := range levels {
		names := make([]string, len(l.tokens))
		for k, t := range l.tokens {
			names[k] = "." + termName(t)
		}
		sep := ","
		if i == len(levels)-1 {
			sep = ""
		}
		w("  (.%s, [%s])%s\n", l.assoc, strings.Join(names, ", "), sep)
	}
	w("]\n\n")
	w("/-- the productions of the operator-expression sub-language: (nonterminal, right-hand side, %%prec, node built) -/\n")
	w("def productions : List (String × List String × String × String) := [\n")
	for i, p := range prods {
		q := make([]string, len(p.rhs))
		for k, s := range p.rhs {
			q[k] = fmt.Sprintf("%q", s)
		}
		sep := ","
		if i == len(prods)-1 {
			sep = ""
		}
		w("  (%q, [%s], %q, %q)%s\n", p.lhs, strings.Join(q, ", "), p.prec, p.node, sep)
	}
	w("]\n\n")
	// operator tables of the proved fragment
	type binop struct {
		tok, node string
		lvl       int
	}
	var bins []binop
	type preop struct {
		tok, prec, node string
		lvl             int
	}
	var pres []preop
	isLvl := 0
	for _, p := range prods {
		switch {
		case len(p.rhs) == 3 && p.rhs[0] == "value" && p.rhs[2] == "value":
			l := levelOf(p.rhs[1])
			if p.prec != "" {
				die("binary production with %%prec: %v", p.rhs)
			}
			if l == 0 {
				die("binary operator %s has no precedence declaration", p.rhs[1])
			}
			bins = append(bins, binop{p.rhs[1], p.node, l})
		case len(p.rhs) == 2 && p.rhs[1] == "value" && p.lhs != "comparison":
			pt := p.prec
			if pt == "" {
				pt = p.rhs[0]
			}
			l := levelOf(pt)
			if l == 0 {
				die("prefix operator %s has no precedence declaration", pt)
			}
			pres = append(pres, preop{p.rhs[0], pt, p.node, l})
		case p.node == "Is":
			l := levelOf("IS")
			if l == 0 {
				die("IS has no precedence declaration")
			}
			isLvl = l
		}
	}
	sort.SliceStable(bins, func(i, j int) bool { return bins[i].lvl < bins[j].lvl })
	w("/-- binary operators `value T value` of the fragment: (T, node) -/\ndef binaryOps : List (Term × String) := [")
	for i, b := range bins {
		if i > 0 {
			w(", ")
		}
		w("(.%s, %q)", termName(b.tok), b.node)
	}
	w("]\n\n/-- prefix operators `T value [%%prec P]`: (T, P, node) -/\ndef prefixOps : List (Term × Term × String) := [")
	for i, p := range pres {
		if i > 0 {
			w(", ")
		}
		w("(.%s, .%s, %q)", termName(p.tok), termName(p.prec), p.node)
	}
	w("]\n\n/-- the postfix test `value IS negation (ternary | null)` and the token of `negation` -/\n")
	if isLvl == 0 {
		die("the IS productions are gone")
	}
	w("def postfixOps : List Term := [.IS]\ndef negationToken : Term := .NOT\n\n")
	// the NOT forms and the operators with more than two operands: `value NOT T value`, `value [NOT] T value U value`,
	// `value [NOT] T row_value`
	var negs, btws, ins []string
	for _, p := range prods {
		for _, s := range p.rhs {
			if levelOf(s) == 0 && strings.ToUpper(s) == s && s != "ANY" && s != "ALL" && s != "EXISTS" && !strings.HasPrefix(s, "'") {
				die("terminal %s of production %v has no precedence declaration", s, p.rhs)
			}
		}
		if p.prec != "" {
			continue
		}
		r := p.rhs
		switch {
		case len(r) == 4 && r[0] == "value" && r[1] == "NOT" && r[3] == "value":
			negs = append(negs, "."+termName(r[2]))
		case len(r) == 5 && r[0] == "value" && r[2] == "value" && r[4] == "value":
			btws = append(btws, fmt.Sprintf("(.%s, .%s, false)", termName(r[1]), termName(r[3])))
		case len(r) == 6 && r[0] == "value" && r[1] == "NOT" && r[3] == "value" && r[5] == "value":
			btws = append(btws, fmt.Sprintf("(.%s, .%s, true)", termName(r[2]), termName(r[4])))
		case len(r) == 3 && r[0] == "value" && r[2] == "row_value":
			ins = append(ins, fmt.Sprintf("(.%s, false)", termName(r[1])))
		case len(r) == 4 && r[0] == "value" && r[1] == "NOT" && r[3] == "row_value":
			ins = append(ins, fmt.Sprintf("(.%s, true)", termName(r[2])))
		}
	}
	w("/-- binary operators with a production `value NOT T value` -/\ndef negatedOps : List Term := [%s]\n\n", strings.Join(negs, ", "))
	w("/-- productions `value [NOT] T value U value` (no %%prec: the rule has the level of U): (T, U, with NOT) -/\ndef betweenOps : List (Term × Term × Bool) := [%s]\n\n", strings.Join(btws, ", "))
	w("/-- productions `value [NOT] T row_value`: (T, with NOT) -/\ndef inOps : List (Term × Bool) := [%s]\n\nend Csvq.Gen.Precedence\n", strings.Join(ins, ", "))
	fmt.Print(o.String())
}
