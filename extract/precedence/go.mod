module precedence

go 1.18
