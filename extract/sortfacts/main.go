// sortfacts: translates the comparison functions of lib/query/sort_value.go into Lean definitions
// (Csvq/Gen/SortFacts.lean, property C07):
//
//	SortValue.Less          → Csvq.Gen.sortLess   : SV → SV → Tern
//	SortValue.EquivalentTo  → Csvq.Gen.sortEquiv  : SV → SV → Bool
//	SortValues.Less         → Csvq.Gen.rowsLessStep (the body of its loop: decide / continue)
//
// over the flat record `Csvq.SV` (Type, Integer, Float, Datetime, String) of Model/SortGen.lean.
// The leading `if v.SerializedKey != nil { … }` block (--strict-equal) is TRANSLATED as well:
//
//	SortValue.Less          → Csvq.Gen.sortLessStrict  : SV → SV → Bytes → Bytes → Tern   (the block, falling out into sortLess)
//	SortValue.EquivalentTo  → Csvq.Gen.sortEquivStrict : SV → SV → Bytes → Bytes → Bool
//	                          Csvq.Gen.sortLessK / sortEquivK over `SVK` (SV + SerializedKey, nil = none)
//
// (vk / ck = v.SerializedKey.Bytes() / compareValue.SerializedKey.Bytes(); bytes.Equal, bytes.Compare(…) < 0,
// Bytes()[i] == n).  The source text of EquivalentTo's block is still emitted as `strictPrefixEquiv` (C17 pins it).
// Subset: switch over v.Type / compareValue.Type with constant cases, if / return, comparisons of
// the record fields, math.IsNaN, && || !, ternary constants and ternary.ConvertFromBool.
// Anything else: exit 1.
package main

import (
	"fmt"
	"go/ast"
	"go/parser"
	"go/printer"
	"go/token"
	"os"
	"path/filepath"
	"strings"
)

var fset = token.NewFileSet()

func die(format string, a ...interface{}) {
	fmt.Fprintf(os.Stderr, "sortfacts: "+format+"\n", a...)
	os.Exit(1)
}

func src(n ast.Node) string {
	var sb strings.Builder
	_ = printer.Fprint(&sb, fset, n)
	return sb.String()
}

func repo() string {
	if r := os.Getenv("VERIF_REPO"); r != "" {
		return r
	}
	return "/repo"
}

func findMethod(f *ast.File, recv, name string) *ast.FuncDecl {
	for _, d := range f.Decls {
		fd, ok := d.(*ast.FuncDecl)
		if !ok || fd.Name.Name != name || fd.Recv == nil {
			continue
		}
		if strings.TrimPrefix(src(fd.Recv.List[0].Type), "*") == recv {
			return fd
		}
	}
	die("method %s.%s not found", recv, name)
	return nil
}

type tr struct {
	v, c   string // receiver and argument names
	isBool bool   // result type bool (EquivalentTo) or ternary (Less)
}

var typeConst = map[string]string{"NullType": ".null", "IntegerType": ".integer", "FloatType": ".float",
	"DatetimeType": ".datetime", "BooleanType": ".boolean", "StringType": ".string"}

// field access → (lean text, kind)
func (t *tr) field(e ast.Expr) (string, string) {
	s, ok := e.(*ast.SelectorExpr)
	if !ok {
		die("%s: `%s` is not a field of the two sort values", fset.Position(e.Pos()), src(e))
	}
	id, ok := s.X.(*ast.Ident)
	if !ok || (id.Name != t.v && id.Name != t.c) {
		die("%s: `%s` is not a field of the two sort values", fset.Position(e.Pos()), src(e))
	}
	who := "v"
	if id.Name == t.c {
		who = "c"
	}
	switch s.Sel.Name {
	case "Integer":
		return who + ".integer", "int"
	case "Datetime":
		return who + ".datetime", "int"
	case "Float":
		return who + ".float", "float"
	case "String":
		return who + ".string", "string"
	case "Type":
		return who + ".typ", "type"
	}
	die("%s: field %s", fset.Position(e.Pos()), s.Sel.Name)
	return "", ""
}

func (t *tr) boolExpr(e ast.Expr) string {
	switch x := e.(type) {
	case *ast.ParenExpr:
		return "(" + t.boolExpr(x.X) + ")"
	case *ast.UnaryExpr:
		if x.Op == token.NOT {
			return "(!" + t.boolExpr(x.X) + ")"
		}
	case *ast.CallExpr:
		if src(x.Fun) == "bytes.Equal" && len(x.Args) == 2 {
			a, oka := t.keyExpr(x.Args[0])
			b, okb := t.keyExpr(x.Args[1])
			if oka && okb {
				return "(" + a + " == " + b + ")"
			}
		}
		if src(x.Fun) == "math.IsNaN" && len(x.Args) == 1 {
			a, k := t.field(x.Args[0])
			if k != "float" {
				die("%s: IsNaN of a non-float", fset.Position(e.Pos()))
			}
			return a + ".isNaN"
		}
	case *ast.BinaryExpr:
		switch x.Op {
		case token.LAND:
			return "(" + t.boolExpr(x.X) + " && " + t.boolExpr(x.Y) + ")"
		case token.LOR:
			return "(" + t.boolExpr(x.X) + " || " + t.boolExpr(x.Y) + ")"
		case token.EQL, token.LSS, token.NEQ:
			// a byte of a serialized key compared with a constant: v.SerializedKey.Bytes()[i] == n
			if ix, ok := x.X.(*ast.IndexExpr); ok && x.Op == token.EQL {
				k, okk := t.keyExpr(ix.X)
				i, oki := ix.Index.(*ast.BasicLit)
				n, okn := x.Y.(*ast.BasicLit)
				if okk && oki && okn && i.Kind == token.INT && n.Kind == token.INT {
					return "(" + k + ".getD " + i.Value + " 0 == " + n.Value + ")"
				}
			}
			// bytes.Compare(key, key) < 0
			if c, ok := x.X.(*ast.CallExpr); ok && x.Op == token.LSS && src(c.Fun) == "bytes.Compare" && len(c.Args) == 2 && src(x.Y) == "0" {
				a, oka := t.keyExpr(c.Args[0])
				b, okb := t.keyExpr(c.Args[1])
				if oka && okb {
					return "bytesLt " + a + " " + b
				}
			}
			// comparison with a type constant
			if id, ok := x.Y.(*ast.Ident); ok {
				if tc, ok := typeConst[id.Name]; ok {
					a, k := t.field(x.X)
					if k != "type" {
						die("%s: type constant compared with a non-type", fset.Position(e.Pos()))
					}
					switch x.Op {
					case token.EQL:
						return "(" + a + " == SType" + tc + ")"
					case token.NEQ:
						return "(" + a + " != SType" + tc + ")"
					}
				}
			}
			a, ka := t.field(x.X)
			b, kb := t.field(x.Y)
			if ka != kb {
				die("%s: comparison of different kinds", fset.Position(e.Pos()))
			}
			switch ka + x.Op.String() {
			case "int==":
				return "(" + a + " == " + b + ")"
			case "int<":
				return "intLt " + a + " " + b
			case "float==":
				return "FVal.feq " + a + " " + b
			case "float<":
				return "FVal.flt " + a + " " + b
			case "string==":
				return "(" + a + " == " + b + ")"
			case "string!=":
				return "(" + a + " != " + b + ")"
			case "string<":
				return "bytesLt " + a + " " + b
			}
		}
	}
	die("%s: boolean expression `%s` outside the translated subset", fset.Position(e.Pos()), src(e))
	return ""
}

func (t *tr) retExpr(e ast.Expr) string {
	if t.isBool {
		if id, ok := e.(*ast.Ident); ok && (id.Name == "true" || id.Name == "false") {
			return id.Name
		}
		return t.boolExpr(e)
	}
	switch src(e) {
	case "ternary.UNKNOWN":
		return "Tern.U"
	case "ternary.TRUE":
		return "Tern.T"
	case "ternary.FALSE":
		return "Tern.F"
	}
	if c, ok := e.(*ast.CallExpr); ok && src(c.Fun) == "ternary.ConvertFromBool" && len(c.Args) == 1 {
		return "ofB (" + t.boolExpr(c.Args[0]) + ")"
	}
	die("%s: result `%s` outside the translated subset", fset.Position(e.Pos()), src(e))
	return ""
}

// a statement list that either returns on every path or falls out; `fall` is what falling out means
func (t *tr) stmts(list []ast.Stmt, fall string, ind string) string {
	if len(list) == 0 {
		return fall
	}
	s, rest := list[0], list[1:]
	switch x := s.(type) {
	case *ast.ReturnStmt:
		if len(x.Results) != 1 {
			die("%s: return", fset.Position(s.Pos()))
		}
		return t.retExpr(x.Results[0])
	case *ast.IfStmt:
		if x.Init != nil {
			die("%s: if with init", fset.Position(s.Pos()))
		}
		after := t.stmts(rest, fall, ind)
		var els string
		switch e := x.Else.(type) {
		case nil:
			els = after
		case *ast.BlockStmt:
			els = t.stmts(e.List, after, ind+"  ")
		case *ast.IfStmt:
			els = t.stmts([]ast.Stmt{e}, after, ind+"  ")
		}
		return "(if " + t.boolExpr(x.Cond) + " then\n" + ind + "  " + t.stmts(x.Body.List, after, ind+"  ") + "\n" + ind + "else\n" + ind + "  " + els + ")"
	case *ast.SwitchStmt:
		if x.Init != nil || x.Tag == nil {
			die("%s: switch form", fset.Position(s.Pos()))
		}
		tag, k := t.field(x.Tag)
		if k != "type" {
			die("%s: switch over a non-type", fset.Position(s.Pos()))
		}
		after := t.stmts(rest, fall, ind)
		out := "(match " + tag + " with"
		hasDefault := false
		covered := map[string]bool{}
		for _, cl := range x.Body.List {
			cc := cl.(*ast.CaseClause)
			var pats []string
			for _, e := range cc.List {
				id, ok := e.(*ast.Ident)
				if !ok || typeConst[id.Name] == "" {
					die("%s: case `%s`", fset.Position(e.Pos()), src(e))
				}
				pats = append(pats, typeConst[id.Name])
				covered[id.Name] = true
			}
			if len(pats) == 0 {
				hasDefault = true
				pats = []string{"_"}
			}
			for _, st := range cc.Body {
				if _, ok := st.(*ast.BranchStmt); ok {
					die("%s: break / fallthrough", fset.Position(st.Pos()))
				}
			}
			out += "\n" + ind + "| " + strings.Join(pats, " | ") + " =>\n" + ind + "  " + t.stmts(cc.Body, after, ind+"  ")
		}
		if !hasDefault && len(covered) < len(typeConst) {
			out += "\n" + ind + "| _ =>\n" + ind + "  " + after
		}
		return out + ")"
	}
	die("%s: statement `%s` outside the translated subset", fset.Position(s.Pos()), src(s))
	return ""
}

// the bytes of a serialized key: v.SerializedKey.Bytes() → vk, compareValue.SerializedKey.Bytes() → ck
func (t *tr) keyExpr(e ast.Expr) (string, bool) {
	switch src(e) {
	case t.v + ".SerializedKey.Bytes()":
		return "vk", true
	case t.c + ".SerializedKey.Bytes()":
		return "ck", true
	}
	return "", false
}

// split off a leading `if v.SerializedKey != nil { … }`: its source text, its statements, the rest
func (t *tr) splitStrict(list []ast.Stmt) (string, []ast.Stmt, []ast.Stmt) {
	if len(list) > 0 {
		if is, ok := list[0].(*ast.IfStmt); ok && src(is.Cond) == t.v+".SerializedKey != nil" && is.Else == nil && is.Init == nil {
			var q []string
			for _, w := range strings.Fields(src(is.Body)) {
				q = append(q, fmt.Sprintf("%q", w))
			}
			return "[" + strings.Join(q, ", ") + "]", is.Body.List, list[1:]
		}
	}
	die("the --strict-equal block `if %s.SerializedKey != nil { … }` no longer opens the function", t.v)
	return "", nil, nil
}

func main() {
	f, err := parser.ParseFile(fset, filepath.Join(repo(), "lib", "query", "sort_value.go"), nil, 0)
	if err != nil {
		die("%v", err)
	}
	// the constants must still be in this order (iota)
	var consts []string
	for _, d := range f.Decls {
		gd, ok := d.(*ast.GenDecl)
		if !ok || gd.Tok != token.CONST {
			continue
		}
		for _, sp := range gd.Specs {
			for _, n := range sp.(*ast.ValueSpec).Names {
				if _, ok := typeConst[n.Name]; ok {
					consts = append(consts, n.Name)
				}
			}
		}
	}
	if strings.Join(consts, ",") != "NullType,IntegerType,FloatType,DatetimeType,BooleanType,StringType" {
		die("SortValueType constants changed: %v", consts)
	}

	var o strings.Builder
	o.WriteString("-- GENERATED by /verif/extract/sortfacts from lib/query/sort_value.go — do not edit.\nimport Csvq.Model.SortGen\n\nset_option linter.unusedVariables false\n\nnamespace Csvq.Gen\nopen Csvq\n\n")

	{
		fd := findMethod(f, "SortValue", "Less")
		t := &tr{v: fd.Recv.List[0].Names[0].Name, c: fd.Type.Params.List[0].Names[0].Name}
		_, strict, body := t.splitStrict(fd.Body.List)
		o.WriteString("/-- `SortValue.Less` without the --strict-equal prefix -/\ndef sortLess (v c : SV) : Tern :=\n  " + t.stmts(body, "Tern.U", "  ") + "\n\n")
		o.WriteString("/-- the --strict-equal block of `SortValue.Less` (vk, ck = the bytes of the two serialized keys); falling out of the\n    block is the typed comparison -/\ndef sortLessStrict (v c : SV) (vk ck : Bytes) : Tern :=\n  " + t.stmts(strict, "sortLess v c", "  ") + "\n\n")
		o.WriteString("/-- `SortValue.Less`: `if v.SerializedKey != nil { … }` first -/\ndef sortLessK (v c : SVK) : Tern :=\n  match v.key with\n  | some vk => sortLessStrict v.sv c.sv vk (c.key.getD [])\n  | none => sortLess v.sv c.sv\n\n")
	}
	{
		fd := findMethod(f, "SortValue", "EquivalentTo")
		t := &tr{v: fd.Recv.List[0].Names[0].Name, c: fd.Type.Params.List[0].Names[0].Name, isBool: true}
		text, strict, body := t.splitStrict(fd.Body.List)
		o.WriteString(fmt.Sprintf("/-- the source text of the --strict-equal block of SortValue.EquivalentTo -/\ndef strictPrefixEquiv : List String :=\n  %s\n\n", text))
		o.WriteString("/-- `SortValue.EquivalentTo` without the --strict-equal prefix -/\ndef sortEquiv (v c : SV) : Bool :=\n  " + t.stmts(body, "false", "  ") + "\n\n")
		o.WriteString("/-- the --strict-equal block of `SortValue.EquivalentTo` -/\ndef sortEquivStrict (v c : SV) (vk ck : Bytes) : Bool :=\n  " + t.stmts(strict, "sortEquiv v c", "  ") + "\n\n")
		o.WriteString("/-- `SortValue.EquivalentTo`: `if v.SerializedKey != nil { … }` first -/\ndef sortEquivK (v c : SVK) : Bool :=\n  match v.key with\n  | some vk => sortEquivStrict v.sv c.sv vk (c.key.getD [])\n  | none => sortEquiv v.sv c.sv\n\n")
	}
	{
		// SortValues.Less: for i, val := range values { t := val.Less(compareValues[i]); … } return false
		fd := findMethod(f, "SortValues", "Less")
		if len(fd.Body.List) != 2 {
			die("SortValues.Less: body is no longer `for … { … }; return false`")
		}
		rs, ok := fd.Body.List[0].(*ast.RangeStmt)
		if !ok || src(fd.Body.List[1]) != "return false" {
			die("SortValues.Less: body is no longer `for … { … }; return false`")
		}
		val := src(rs.Value)
		idx := src(rs.Key)
		cmp := fd.Type.Params.List[0].Names[0].Name + "[" + idx + "]"
		body := rs.Body.List
		as, ok := body[0].(*ast.AssignStmt)
		if !ok || src(as.Rhs[0]) != val+".Less("+cmp+")" {
			die("SortValues.Less: the loop no longer starts with `t := val.Less(compareValues[i])`")
		}
		tv := src(as.Lhs[0])
		var step func(list []ast.Stmt, ind string) string
		cond := func(e ast.Expr) string {
			s := src(e)
			repl := map[string]string{
				tv + " != ternary.UNKNOWN": "(t != Tern.U)", tv + " == ternary.TRUE": "(t == Tern.T)", tv + " == ternary.FALSE": "(t == Tern.F)",
				"directions[" + idx + "] == parser.ASC": "asc", "nullPositions[" + idx + "] == parser.FIRST": "nullsFirst",
				val + ".Type == NullType && " + cmp + ".Type != NullType": "(vNull && !cNull)",
				val + ".Type != NullType && " + cmp + ".Type == NullType": "(!vNull && cNull)",
			}
			if r, ok := repl[s]; ok {
				return r
			}
			die("SortValues.Less: condition `%s` outside the translated subset", s)
			return ""
		}
		step = func(list []ast.Stmt, ind string) string {
			if len(list) == 0 {
				return "none"
			}
			switch x := list[0].(type) {
			case *ast.ReturnStmt:
				r := src(x.Results[0])
				switch r {
				case "true", "false":
					return "some " + r
				}
				return "some " + cond(x.Results[0])
			case *ast.IfStmt:
				after := step(list[1:], ind)
				els := after
				if x.Else != nil {
					els = step(x.Else.(*ast.BlockStmt).List, ind+"  ")
				}
				return "(if " + cond(x.Cond) + " then " + step(append(append([]ast.Stmt{}, x.Body.List...), list[1:]...), ind+"  ") + "\n" + ind + "else " + els + ")"
			}
			die("SortValues.Less: statement `%s` outside the translated subset", src(list[0]))
			return ""
		}
		o.WriteString("/-- one round of the loop of `SortValues.Less`: `some b` = the function returns b, `none` = next column\n    (t = val.Less(compareValues[i]), asc = directions[i] == ASC, nullsFirst = nullPositions[i] == FIRST) -/\n")
		o.WriteString("def rowsLessStep (t : Tern) (vNull cNull asc nullsFirst : Bool) : Option Bool :=\n  " + step(body[1:], "  ") + "\n\n")
	}
	o.WriteString("end Csvq.Gen\n")
	fmt.Print(o.String())
}
