module sortfacts

go 1.18
