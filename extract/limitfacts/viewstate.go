package main

import (
	"fmt"
	"go/ast"
	"go/parser"
	"go/token"
	"path/filepath"
	"strings"
)

// viewstate: the state a View carries between the clauses of one query.
//
//	viewStateEvents : List (String × String × String × List String)
//	    (file:function, field, kind, guards) in source order, for lib/query/{view,analytic_function,query}.go
//	    field RecordSet:  set.replace | set.reslice | set.empty | set.grow (append of a record: indices unchanged)
//	                      elem.<source class> (RecordSet[i] = …) | elem.append (a cell appended to record i) | swap
//	    sort-state fields (sortValuesInEachCell, sortValuesInEachRecord, sortDirections, sortNullPositions, offset):
//	                      :=nil | :=0 | :=value | elem (indexed write) | swap | read
//	    guards = the conditions of the enclosing if statements, outermost first (`!(c)` for an else branch)
//	recordSources : List (String × String × String)
//	    (file:function, class, source text) for every expression assigned to an element of a record set or to a
//	    variable named record…: alloc | alloc-cap | append-self | slice3 | reslice-own | carve2 | move | call:<fn>
//	clauseCallOrder : List String   the clause methods called on a view in query.go's selectEntity / selectQuery, in order

var stateFields = map[string]bool{"sortValuesInEachRecord": true, "sortDirections": true, "sortNullPositions": true, "sortValuesInEachCell": true, "offset": true}

func isViewExpr(e ast.Expr) bool {
	x := src(e)
	return x == "view" || strings.HasSuffix(x, ".view") || strings.HasSuffix(x, "View") || x == "v" || x == "ret"
}

// e is `<view>.RecordSet`
func isRecordSetSel(e ast.Expr) bool {
	sel, ok := e.(*ast.SelectorExpr)
	return ok && sel.Sel.Name == "RecordSet" && isViewExpr(sel.X)
}

// e is an element of a record set: `<view>.RecordSet[i]` or `records[i]` / `newSet[i]` …
func isRecordSetElem(e ast.Expr) bool {
	ix, ok := e.(*ast.IndexExpr)
	if !ok {
		return false
	}
	if isRecordSetSel(ix.X) {
		return true
	}
	if id, ok := ix.X.(*ast.Ident); ok {
		n := strings.ToLower(id.Name)
		if strings.Contains(n, "sortvalue") {
			return false
		}
		return n == "records" || strings.HasSuffix(n, "recordset") || strings.HasSuffix(n, "records")
	}
	return false
}

func isRecordVar(e ast.Expr) bool {
	id, ok := e.(*ast.Ident)
	if !ok {
		return false
	}
	n := strings.ToLower(id.Name)
	if strings.Contains(n, "sortvalue") || strings.Contains(n, "replaced") {
		return false
	}
	return n == "record" || n == "rec" || strings.HasSuffix(n, "record")
}

// how the storage of a record is obtained
func sourceClass(lhs, rhs ast.Expr) string {
	if c, ok := rhs.(*ast.CallExpr); ok && src(c.Fun) == "Record" && len(c.Args) == 1 {
		rhs = c.Args[0] // conversion Record(x)
	}
	switch x := rhs.(type) {
	case *ast.CallExpr:
		fn := src(x.Fun)
		switch {
		case fn == "make" && len(x.Args) == 2 && src(x.Args[0]) == "Record":
			return "alloc"
		case fn == "make" && len(x.Args) == 3 && src(x.Args[0]) == "Record":
			return "alloc-cap"
		case fn == "make":
			return "alloc-other:" + src(x.Args[0])
		case fn == "append" && len(x.Args) >= 1 && src(x.Args[0]) == src(lhs):
			return "append-self"
		case fn == "append":
			return "append-other"
		}
		return "call:" + fn
	case *ast.SliceExpr:
		if x.Slice3 {
			return "slice3"
		}
		if src(x.X) == src(lhs) {
			return "reslice-own"
		}
		return "carve2"
	}
	return "move"
}

type stateWalker struct {
	file, fn string
	guards   []string
	events   *[]string
	sources  *[]string
}

func (w *stateWalker) emit(field, kind string) {
	*w.events = append(*w.events, fmt.Sprintf("(%q, %q, %q, %s)", w.file+":"+w.fn, field, kind, q(w.guards)))
}

func (w *stateWalker) with(g string, f func()) {
	w.guards = append(w.guards, g)
	f()
	w.guards = w.guards[:len(w.guards)-1]
}

// reads of the state fields inside an expression; function literals are walked as statements
func (w *stateWalker) expr(e ast.Node) {
	if e == nil {
		return
	}
	ast.Inspect(e, func(n ast.Node) bool {
		switch x := n.(type) {
		case *ast.FuncLit:
			w.stmts(x.Body.List)
			return false
		case *ast.SelectorExpr:
			if stateFields[x.Sel.Name] && isViewExpr(x.X) {
				w.emit(x.Sel.Name, "read")
			}
		}
		return true
	})
}

func (w *stateWalker) assign(as *ast.AssignStmt) {
	// swap: a, b = b, a over elements of the same slice
	if len(as.Lhs) == 2 && len(as.Rhs) == 2 && src(as.Lhs[0]) == src(as.Rhs[1]) && src(as.Lhs[1]) == src(as.Rhs[0]) {
		if ix, ok := as.Lhs[0].(*ast.IndexExpr); ok {
			if isRecordSetSel(ix.X) {
				w.emit("RecordSet", "swap")
				return
			}
			if sel, ok := ix.X.(*ast.SelectorExpr); ok && stateFields[sel.Sel.Name] && isViewExpr(sel.X) {
				w.emit(sel.Sel.Name, "swap")
				return
			}
		}
	}
	for i, l := range as.Lhs {
		var rhs ast.Expr
		if i < len(as.Rhs) {
			rhs = as.Rhs[i]
		}
		if rhs != nil {
			w.expr(rhs)
		}
		switch {
		case isRecordSetSel(l) && rhs != nil:
			kind := "set.replace"
			switch r := rhs.(type) {
			case *ast.SliceExpr:
				if isRecordSetSel(r.X) {
					kind = "set.reslice"
				}
			case *ast.CompositeLit:
				if len(r.Elts) == 0 {
					kind = "set.empty"
				}
			case *ast.CallExpr:
				if src(r.Fun) == "append" && len(r.Args) >= 1 && isRecordSetSel(r.Args[0]) {
					kind = "set.grow"
					for _, a := range r.Args[1:] {
						*w.sources = append(*w.sources, fmt.Sprintf("(%q, %q, %q)", w.file+":"+w.fn, sourceClass(l, a), src(a)))
					}
				}
			}
			w.emit("RecordSet", kind)
		case isRecordSetElem(l) && rhs != nil:
			cl := sourceClass(l, rhs)
			*w.sources = append(*w.sources, fmt.Sprintf("(%q, %q, %q)", w.file+":"+w.fn, cl, src(rhs)))
			if ix := l.(*ast.IndexExpr); isRecordSetSel(ix.X) {
				if cl == "append-self" {
					w.emit("RecordSet", "elem.append")
				} else {
					w.emit("RecordSet", "elem."+cl)
				}
			}
		case isRecordVar(l) && rhs != nil && as.Tok == token.DEFINE:
			*w.sources = append(*w.sources, fmt.Sprintf("(%q, %q, %q)", w.file+":"+w.fn, sourceClass(l, rhs), src(rhs)))
		default:
			if sel, ok := l.(*ast.SelectorExpr); ok && stateFields[sel.Sel.Name] && isViewExpr(sel.X) && rhs != nil {
				kind := ":=value"
				if r := src(rhs); r == "nil" || r == "0" {
					kind = ":=" + r
				}
				w.emit(sel.Sel.Name, kind)
			} else if ix, ok := l.(*ast.IndexExpr); ok {
				// indexed write into a state field (possibly nested: f[i][j] = …)
				base := ix.X
				for {
					if in, ok := base.(*ast.IndexExpr); ok {
						base = in.X
					} else {
						break
					}
				}
				if sel, ok := base.(*ast.SelectorExpr); ok && stateFields[sel.Sel.Name] && isViewExpr(sel.X) {
					w.emit(sel.Sel.Name, "elem")
					w.expr(ix.Index)
				} else {
					w.expr(l)
				}
			} else {
				w.expr(l)
			}
		}
	}
}

func (w *stateWalker) stmts(list []ast.Stmt) {
	for _, s := range list {
		w.stmt(s)
	}
}

func (w *stateWalker) stmt(s ast.Stmt) {
	switch x := s.(type) {
	case nil:
	case *ast.AssignStmt:
		w.assign(x)
	case *ast.IfStmt:
		if x.Init != nil {
			w.stmt(x.Init)
		}
		w.expr(x.Cond)
		c := src(x.Cond)
		w.with(c, func() { w.stmts(x.Body.List) })
		switch e := x.Else.(type) {
		case *ast.BlockStmt:
			w.with("!("+c+")", func() { w.stmts(e.List) })
		case *ast.IfStmt:
			w.with("!("+c+")", func() { w.stmt(e) })
		}
	case *ast.ForStmt:
		w.stmt(x.Init)
		w.expr(x.Cond)
		w.stmt(x.Post)
		w.stmts(x.Body.List)
	case *ast.RangeStmt:
		w.expr(x.X)
		w.stmts(x.Body.List)
	case *ast.BlockStmt:
		w.stmts(x.List)
	case *ast.SwitchStmt:
		w.stmt(x.Init)
		w.expr(x.Tag)
		for _, c := range x.Body.List {
			cc := c.(*ast.CaseClause)
			w.with("case "+src(x.Tag)+":"+strings.Join(mapSrc(cc.List), ","), func() { w.stmts(cc.Body) })
		}
	case *ast.TypeSwitchStmt:
		for _, c := range x.Body.List {
			cc := c.(*ast.CaseClause)
			w.with("case type:"+strings.Join(mapSrc(cc.List), ","), func() { w.stmts(cc.Body) })
		}
	case *ast.SelectStmt:
		for _, c := range x.Body.List {
			w.stmts(c.(*ast.CommClause).Body)
		}
	case *ast.LabeledStmt:
		w.stmt(x.Stmt)
	case *ast.ExprStmt:
		w.expr(x.X)
	case *ast.ReturnStmt:
		for _, r := range x.Results {
			w.expr(r)
		}
	case *ast.DeclStmt, *ast.IncDecStmt, *ast.BranchStmt, *ast.GoStmt, *ast.DeferStmt, *ast.SendStmt, *ast.EmptyStmt:
		w.expr(s)
	default:
		die("%s: statement kind %T is outside the translated subset", fset.Position(s.Pos()), s)
	}
}

func mapSrc(l []ast.Expr) []string {
	var o []string
	for _, e := range l {
		o = append(o, src(e))
	}
	return o
}

func emitViewState(o *strings.Builder, files []string) {
	var events, sources, order []string
	for _, fn := range files {
		base := filepath.Base(fn)
		if base != "view.go" && base != "analytic_function.go" && base != "query.go" {
			continue
		}
		f, err := parser.ParseFile(fset, fn, nil, 0)
		if err != nil {
			die("%v", err)
		}
		for _, d := range f.Decls {
			fd, ok := d.(*ast.FuncDecl)
			if !ok || fd.Body == nil {
				continue
			}
			w := &stateWalker{file: base, fn: funcLabel(fd), events: &events, sources: &sources}
			w.stmts(fd.Body.List)
			if base == "query.go" && (fd.Name.Name == "selectEntity" || fd.Name.Name == "selectQuery") {
				ast.Inspect(fd.Body, func(n ast.Node) bool {
					c, ok := n.(*ast.CallExpr)
					if !ok {
						return true
					}
					if sel, ok := c.Fun.(*ast.SelectorExpr); ok && src(sel.X) == "view" {
						switch sel.Sel.Name {
						case "Where", "GroupBy", "Having", "Select", "OrderBy", "Offset", "Limit", "Fix", "ExtendRecordCapacity":
							order = append(order, fd.Name.Name+":view."+sel.Sel.Name)
						}
					}
					return true
				})
			}
		}
	}
	o.WriteString("/-- every write / read / swap of a View's per-clause state and every replacement, permutation and extension of\n    RecordSet elements in view.go, analytic_function.go, query.go: (file:function, field, kind, guards) -/\ndef viewStateEvents : List (String × String × String × List String) :=\n  [" + strings.Join(events, ",\n   ") + "]\n\n")
	o.WriteString("/-- every expression that becomes a Record, with the way its storage is obtained: (file:function, class, source) -/\ndef recordSources : List (String × String × String) :=\n  [" + strings.Join(sources, ",\n   ") + "]\n\n")
	o.WriteString("/-- the clause methods query.go calls on the view of a SELECT, in source order -/\ndef clauseCallOrder : List String :=\n  " + q(order) + "\n\n")
}
