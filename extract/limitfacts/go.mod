module limitfacts

go 1.18
