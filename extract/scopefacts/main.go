// scopefacts: reads lib/query/reference_scope.go, processor.go and user_defined_function.go of csvq and prints
// Csvq/Gen/ScopeFacts.lean (property C15):
//
//  1. the walks over the block stack as Lean FUNCTIONS (recursion over the list of blocks, innermost first),
//     generic in what one call on one block's map does (`call : String → B → OpRes B P`):
//     GetVariable, SubstituteVariable, SubstituteVariableDirectly, DisposeVariable, TemporaryTableExists,
//     GetTemporaryTable, ReplaceTemporaryTable, DisposeTemporaryTable, OpenCursor, CloseCursor, FetchCursor,
//     DisposeCursor, CursorIsOpen, GetFunction, DisposeFunction  (loop `for i := range rs.Blocks` with early returns)
//     DeclareVariable, DeclareVariableDirectly, SetTemporaryTable, DeclareCursor, AddPseudoCursor, DeclareFunction,
//     DeclareAggregateFunction  (one call on rs.Blocks[0])
//     and, per function, the statements in front of the loop as source tokens (`prefixes`);
//  2. the bookkeeping of blocks as source tokens (`bookkeeping`): CreateChild, Global, CurrentBlock,
//     ClearCurrentBlock, CloseCurrentBlock, GetBlockScope, PutBlockScope, BlockScope.Clear, NewChildProcessor,
//     Processor.Close — small functions, compared verbatim with a reviewed text;
//  3. the block handling of the statements as ordered call lists with `defer`, `for{ }` and `return` markers
//     (`blockHandling`): Execute (auto-commit), execute, executeChild, IfStmt, Case, While, WhileInCursor, UserDefinedFunction.Execute /
//     ExecuteAggregate / execute, evalFunction / evalAggregateFunction (eval.go: how a call reaches them) — EVERY
//     call is listed, none is dropped;
//  4. which handler ExecuteStatement gives each statement type to (`dispatch`).
//
// Subset of the walks: the loop body is a sequence of
//
//	x, y := rs.Blocks[i].<Map>.<Method>(…)   /   x = …        a call on the block's map
//	if [init;] cond { … return … } [else if … | else { … }]
//	rs.Blocks[i].<Map>.<Method>(…)                             a mutation inside an if body
//	return …
//
// with conditions `ok`, `err == nil`, `err != nil`, `err ==/!= errUndeclaredCursor|errTableNotLoaded`,
// `err == errPseudoCursor`, a call used as a condition, `!`.  Anything else — a statement after the loop other
// than the final return, a declaration inside the loop, another loop range, a call on another block index — exit 1.
// Stdlib only.
package main

import (
	"fmt"
	"go/ast"
	"go/parser"
	"go/printer"
	"go/token"
	"os"
	"path/filepath"
	"sort"
	"strings"
)

var fset = token.NewFileSet()

func die(format string, a ...interface{}) {
	fmt.Fprintf(os.Stderr, "scopefacts: "+format+"\n", a...)
	os.Exit(1)
}

func src(n ast.Node) string {
	var sb strings.Builder
	_ = printer.Fprint(&sb, fset, n)
	return sb.String()
}

func pos(n ast.Node) string { return fset.Position(n.Pos()).String() }

func repo() string {
	if r := os.Getenv("VERIF_REPO"); r != "" {
		return r
	}
	return "/repo"
}

func parse(rel string) *ast.File {
	f, err := parser.ParseFile(fset, filepath.Join(repo(), rel), nil, 0)
	if err != nil {
		die("%v", err)
	}
	return f
}

func findFunc(f *ast.File, recv, name string) *ast.FuncDecl {
	for _, d := range f.Decls {
		fd, ok := d.(*ast.FuncDecl)
		if !ok || fd.Name.Name != name {
			continue
		}
		r := ""
		if fd.Recv != nil && len(fd.Recv.List) == 1 {
			r = strings.TrimPrefix(src(fd.Recv.List[0].Type), "*")
		}
		if r == recv {
			return fd
		}
	}
	die("function %s.%s not found", recv, name)
	return nil
}

func q(s string) string {
	s = strings.ReplaceAll(s, "\\", "\\\\")
	return "\"" + strings.ReplaceAll(s, "\"", "\\\"") + "\""
}

func leanList(l []string) string {
	qs := make([]string, len(l))
	for i, s := range l {
		qs[i] = q(s)
	}
	return "[" + strings.Join(qs, ", ") + "]"
}

func tokens(n ast.Node) []string { return strings.Fields(src(n)) }

func lowerFirst(s string) string { return strings.ToLower(s[:1]) + s[1:] }

// ---------------------------------------------------------------- the walks

type walk struct {
	fn    *ast.FuncDecl
	recv  string            // name of the receiver (rs)
	idx   string            // the loop variable, or "0"
	nres  int               // number of call results bound so far
	bind  map[string]string // Go identifier -> "rK" (the call result it belongs to) ; "rK!err" for the error component
	cur   string            // Lean term of the block as it is now
	last  string            // the latest call result
	self  string            // Lean name of the function being generated
	lines []string
}

// blockCall recognises rs.Blocks[<idx>].<Map>.<Method>(…) and returns "<Map>.<Method>"
func (w *walk) blockCall(e ast.Expr) (string, bool) {
	c, ok := e.(*ast.CallExpr)
	if !ok {
		return "", false
	}
	m, ok := c.Fun.(*ast.SelectorExpr)
	if !ok {
		return "", false
	}
	mp, ok := m.X.(*ast.SelectorExpr)
	if !ok {
		return "", false
	}
	ix, ok := mp.X.(*ast.IndexExpr)
	if !ok {
		return "", false
	}
	if src(ix.X) != w.recv+".Blocks" {
		return "", false
	}
	if src(ix.Index) != w.idx {
		die("%s: `%s` — a call on block %s, the walk is at block %s", pos(e), src(e), src(ix.Index), w.idx)
	}
	return mp.Sel.Name + "." + m.Sel.Name, true
}

// call emits `let rK := call "<op>" <cur>` and returns rK
func (w *walk) call(op string, ind string) string {
	w.nres++
	r := fmt.Sprintf("r%d", w.nres)
	w.lines = append(w.lines, fmt.Sprintf("%slet %s := call %s %s", ind, r, q(op), w.cur))
	w.cur = r + ".block"
	w.last = r
	return r
}

func isErrIdent(name string) bool { return name == "err" || name == "e" }

// assign handles  x, y := blockcall  /  x = blockcall
func (w *walk) assign(a *ast.AssignStmt, ind string) {
	if len(a.Rhs) != 1 {
		die("%s: `%s` is not an assignment from one call on the block", pos(a), src(a))
	}
	op, ok := w.blockCall(a.Rhs[0])
	if !ok {
		die("%s: `%s` is not an assignment from a call on %s.Blocks[%s]", pos(a), src(a), w.recv, w.idx)
	}
	r := w.call(op, ind)
	for _, l := range a.Lhs {
		id, ok := l.(*ast.Ident)
		if !ok {
			die("%s: `%s` assigns to something other than a variable", pos(a), src(a))
		}
		if id.Name != "_" {
			w.bind[id.Name] = r
		}
	}
}

func (w *walk) cond(e ast.Expr, ind string) string {
	switch x := e.(type) {
	case *ast.ParenExpr:
		return "(" + w.cond(x.X, ind) + ")"
	case *ast.UnaryExpr:
		if x.Op == token.NOT {
			return "(!" + w.cond(x.X, ind) + ")"
		}
	case *ast.Ident:
		if r, ok := w.bind[x.Name]; ok && x.Name == "ok" {
			return r + ".hit"
		}
	case *ast.CallExpr:
		if op, ok := w.blockCall(x); ok {
			return w.call(op, ind) + ".hit"
		}
	case *ast.BinaryExpr:
		id, ok := x.X.(*ast.Ident)
		if ok && isErrIdent(id.Name) && (x.Op == token.EQL || x.Op == token.NEQ) {
			r, bound := w.bind[id.Name]
			if !bound {
				die("%s: `%s` tests an error that no call on the block produced", pos(e), src(e))
			}
			var t string
			switch src(x.Y) {
			case "nil":
				t = r + ".hit"
			case "errUndeclaredCursor", "errTableNotLoaded":
				t = r + ".absent"
			case "errPseudoCursor":
				t = r + ".pseudo"
			default:
				die("%s: `%s` compares the error with something the translator does not know", pos(e), src(e))
			}
			if x.Op == token.NEQ {
				return "(!" + t + ")"
			}
			return t
		}
	}
	die("%s: condition `%s` is outside the translated subset", pos(e), src(e))
	return ""
}

// ret translates a return statement reached with the blocks `<cur> :: rest`
func (w *walk) ret(r *ast.ReturnStmt, ind string, blocks string) {
	kind, what := "found", ""
	for _, e := range r.Results {
		switch x := e.(type) {
		case *ast.CallExpr:
			fn := src(x.Fun)
			if strings.HasPrefix(fn, "New") && strings.HasSuffix(fn, "Error") {
				kind, what = "raised", fn
			} else {
				die("%s: `%s` returns the result of a call the translator does not know", pos(r), src(r))
			}
		case *ast.Ident:
			if isErrIdent(x.Name) && kind == "found" {
				if _, bound := w.bind[x.Name]; !bound {
					die("%s: `%s` returns an error that no call on the block produced", pos(r), src(r))
				}
				kind = "failed"
			}
		case *ast.SelectorExpr, *ast.BasicLit:
		default:
			die("%s: `%s` returns something the translator does not know", pos(r), src(r))
		}
	}
	switch kind {
	case "raised":
		w.lines = append(w.lines, fmt.Sprintf("%sWalk.raised %s %s", ind, blocks, q(what)))
	default:
		if w.last == "" {
			die("%s: `%s` before any call on the block", pos(r), src(r))
		}
		p := w.last
		if kind == "failed" {
			p = w.bind["err"]
			if p == "" {
				p = w.bind["e"]
			}
		}
		w.lines = append(w.lines, fmt.Sprintf("%sWalk.%s %s %s.payload", ind, kind, blocks, p))
	}
}

// stmts translates a statement list; `next` is the Lean text of what happens when control falls off its end
func (w *walk) stmts(l []ast.Stmt, ind string, next func(ind string)) {
	if len(l) == 0 {
		next(ind)
		return
	}
	s, rest := l[0], l[1:]
	switch x := s.(type) {
	case *ast.AssignStmt:
		w.assign(x, ind)
		w.stmts(rest, ind, next)
	case *ast.ExprStmt:
		op, ok := w.blockCall(x.X)
		if !ok {
			die("%s: statement `%s` is not a call on %s.Blocks[%s]", pos(s), src(s), w.recv, w.idx)
		}
		w.call(op, ind)
		w.stmts(rest, ind, next)
	case *ast.ReturnStmt:
		if len(rest) != 0 {
			die("%s: statements after a return", pos(s))
		}
		w.ret(x, ind, "("+w.cur+" :: rest)")
	case *ast.IfStmt:
		if x.Init != nil {
			a, ok := x.Init.(*ast.AssignStmt)
			if !ok {
				die("%s: the initialiser `%s` is not an assignment", pos(x), src(x.Init))
			}
			w.assign(a, ind)
		}
		c := w.cond(x.Cond, ind)
		w.lines = append(w.lines, ind+"if "+c+" then")
		saveCur, saveLast, saveBind := w.cur, w.last, copyMap(w.bind)
		w.stmts(x.Body.List, ind+"  ", func(string) {
			die("%s: the body of `if %s` does not end in a return", pos(x), src(x.Cond))
		})
		w.cur, w.last, w.bind = saveCur, saveLast, saveBind
		w.lines = append(w.lines, ind+"else")
		var tail []ast.Stmt
		switch e := x.Else.(type) {
		case nil:
		case *ast.BlockStmt:
			tail = append(tail, e.List...)
		case *ast.IfStmt:
			tail = append(tail, e)
		default:
			die("%s: else branch outside the subset", pos(x))
		}
		w.stmts(append(tail, rest...), ind+"  ", next)
	default:
		die("%s: statement `%s` is outside the translated subset", pos(s), strings.SplitN(src(s), "\n", 2)[0])
	}
}

func copyMap(m map[string]string) map[string]string {
	c := map[string]string{}
	for k, v := range m {
		c[k] = v
	}
	return c
}

type walkOut struct {
	lean string
	pre  []string
}

func translateWalk(f *ast.File, name string) walkOut {
	fd := findFunc(f, "ReferenceScope", name)
	w := &walk{fn: fd, recv: fd.Recv.List[0].Names[0].Name, bind: map[string]string{}, self: lowerFirst(name)}
	var pre []string
	body := fd.Body.List
	i := 0
	for ; i < len(body); i++ {
		if _, ok := body[i].(*ast.RangeStmt); ok {
			break
		}
		// statements in front of the loop are not translated: they surface as source text
		switch body[i].(type) {
		case *ast.DeclStmt, *ast.AssignStmt, *ast.IfStmt:
			pre = append(pre, strings.Join(tokens(body[i]), " "))
		default:
			die("%s: %s: statement `%s` in front of the loop over the blocks", pos(body[i]), name, src(body[i]))
		}
	}
	if i == len(body) {
		die("%s: %s has no loop over %s.Blocks (the walk from the innermost block outward)", pos(fd), name, w.recv)
	}
	loop := body[i].(*ast.RangeStmt)
	if src(loop.X) != w.recv+".Blocks" || loop.Value != nil || loop.Key == nil || loop.Tok != token.DEFINE {
		die("%s: %s: the loop is not `for i := range %s.Blocks`", pos(loop), name, w.recv)
	}
	w.idx = src(loop.Key)
	after := body[i+1:]
	var final *ast.ReturnStmt
	named := "" // `err = NewXError(…); return` with named results
	if len(after) == 2 {
		a, okA := after[0].(*ast.AssignStmt)
		r, okR := after[1].(*ast.ReturnStmt)
		if okA && okR && len(r.Results) == 0 && len(a.Lhs) == 1 && len(a.Rhs) == 1 && isErrIdent(src(a.Lhs[0])) {
			if c, ok := a.Rhs[0].(*ast.CallExpr); ok && strings.HasPrefix(src(c.Fun), "New") && strings.HasSuffix(src(c.Fun), "Error") {
				named = src(c.Fun)
				after = nil
			}
		}
	}
	switch len(after) {
	case 0:
	case 1:
		r, ok := after[0].(*ast.ReturnStmt)
		if !ok {
			die("%s: %s: `%s` after the loop — only the final return may follow the walk", pos(after[0]), name, strings.SplitN(src(after[0]), "\n", 2)[0])
		}
		final = r
	default:
		die("%s: %s: %d statements after the loop — only the final return may follow the walk", pos(after[0]), name, len(after))
	}
	// what the walk answers when no block stopped it
	what := named
	if final != nil {
		for _, e := range final.Results {
			if c, ok := e.(*ast.CallExpr); ok {
				fn := src(c.Fun)
				if !(strings.HasPrefix(fn, "New") && strings.HasSuffix(fn, "Error")) {
					die("%s: %s: the final return calls %s", pos(final), name, fn)
				}
				what = fn
			}
		}
		if what == "" {
			var parts []string
			for _, e := range final.Results {
				parts = append(parts, src(e))
			}
			what = strings.Join(parts, ", ")
		}
	}
	w.cur = "b"
	w.lines = append(w.lines, fmt.Sprintf("/-- `ReferenceScope.%s`: the loop over the blocks, innermost first -/", name))
	w.lines = append(w.lines, fmt.Sprintf("def %s {B P : Type} (call : String → B → OpRes B P) : List B → Walk B P", w.self))
	w.lines = append(w.lines, fmt.Sprintf("  | [] => Walk.raised [] %s", q(what)))
	w.lines = append(w.lines, "  | b :: rest =>")
	w.stmts(loop.Body.List, "    ", func(ind string) {
		w.lines = append(w.lines, fmt.Sprintf("%sWalk.cons %s (%s call rest)", ind, w.cur, w.self))
	})
	return walkOut{strings.Join(w.lines, "\n"), pre}
}

// translateFirst: one call on rs.Blocks[0], its error (if it has one) is the answer
func translateFirst(f *ast.File, name string) string {
	fd := findFunc(f, "ReferenceScope", name)
	w := &walk{fn: fd, recv: fd.Recv.List[0].Names[0].Name, idx: "0", bind: map[string]string{}, self: lowerFirst(name), cur: "b"}
	if len(fd.Body.List) != 1 {
		die("%s: %s is not a single call on %s.Blocks[0]", pos(fd), name, w.recv)
	}
	var e ast.Expr
	returns := false
	switch x := fd.Body.List[0].(type) {
	case *ast.ReturnStmt:
		if len(x.Results) != 1 {
			die("%s: %s returns %d values", pos(x), name, len(x.Results))
		}
		e, returns = x.Results[0], true
	case *ast.ExprStmt:
		e = x.X
	default:
		die("%s: %s is not a single call on %s.Blocks[0]", pos(fd), name, w.recv)
	}
	op, ok := w.blockCall(e)
	if !ok {
		die("%s: %s: `%s` is not a call on %s.Blocks[0]", pos(e), name, src(e), w.recv)
	}
	w.lines = append(w.lines, fmt.Sprintf("/-- `ReferenceScope.%s`: one call on the CURRENT block -/", name))
	w.lines = append(w.lines, fmt.Sprintf("def %s {B P : Type} (call : String → B → OpRes B P) : List B → Walk B P", w.self))
	w.lines = append(w.lines, "  | [] => Walk.raised [] \"index out of range\"")
	w.lines = append(w.lines, "  | b :: rest =>")
	r := w.call(op, "    ")
	if returns {
		w.lines = append(w.lines, fmt.Sprintf("    if %s.hit then Walk.found (%s.block :: rest) %s.payload else Walk.failed (%s.block :: rest) %s.payload", r, r, r, r, r))
	} else {
		w.lines = append(w.lines, fmt.Sprintf("    Walk.found (%s.block :: rest) %s.payload", r, r))
	}
	return strings.Join(w.lines, "\n")
}

// ---------------------------------------------------------------- block handling: ordered calls with markers

func callTrace(fd *ast.FuncDecl) []string {
	var out []string
	var walkStmt func(s ast.Stmt)
	var walkExpr func(e ast.Node)
	walkExpr = func(e ast.Node) {
		if e == nil {
			return
		}
		ast.Inspect(e, func(n ast.Node) bool {
			switch x := n.(type) {
			case *ast.FuncLit:
				out = append(out, "func{")
				for _, s := range x.Body.List {
					walkStmt(s)
				}
				out = append(out, "}")
				return false
			case *ast.CallExpr:
				for _, a := range x.Args { // arguments are evaluated first
					walkExpr(a)
				}
				walkExpr(x.Fun)
				out = append(out, src(x.Fun))
				return false
			}
			return true
		})
	}
	var walkBlock func(l []ast.Stmt)
	walkBlock = func(l []ast.Stmt) {
		for _, s := range l {
			walkStmt(s)
		}
	}
	walkStmt = func(s ast.Stmt) {
		switch x := s.(type) {
		case nil:
		case *ast.DeferStmt:
			for _, a := range x.Call.Args {
				walkExpr(a)
			}
			if fl, ok := x.Call.Fun.(*ast.FuncLit); ok {
				out = append(out, "defer func{")
				walkBlock(fl.Body.List)
				out = append(out, "}")
			} else {
				out = append(out, "defer "+src(x.Call.Fun))
			}
		case *ast.GoStmt:
			out = append(out, "go "+src(x.Call.Fun))
		case *ast.ForStmt:
			walkStmt(x.Init)
			out = append(out, "for{")
			if x.Cond != nil {
				walkExpr(x.Cond)
			}
			walkBlock(x.Body.List)
			walkStmt(x.Post)
			out = append(out, "}")
		case *ast.RangeStmt:
			walkExpr(x.X)
			out = append(out, "for{")
			walkBlock(x.Body.List)
			out = append(out, "}")
		case *ast.IfStmt:
			walkStmt(x.Init)
			walkExpr(x.Cond)
			out = append(out, "if{")
			walkBlock(x.Body.List)
			out = append(out, "}")
			if x.Else != nil {
				out = append(out, "else{")
				walkStmt(x.Else)
				out = append(out, "}")
			}
		case *ast.BlockStmt:
			walkBlock(x.List)
		case *ast.SwitchStmt:
			walkStmt(x.Init)
			if x.Tag != nil {
				walkExpr(x.Tag)
			}
			out = append(out, "switch{")
			for _, c := range x.Body.List {
				cc := c.(*ast.CaseClause)
				var labels []string
				for _, e := range cc.List {
					labels = append(labels, src(e))
				}
				out = append(out, "case "+strings.Join(labels, ","))
				walkBlock(cc.Body)
			}
			out = append(out, "}")
		case *ast.ReturnStmt:
			for _, e := range x.Results {
				walkExpr(e)
			}
			var parts []string
			for _, e := range x.Results {
				if _, ok := e.(*ast.CallExpr); ok {
					parts = append(parts, "call")
				} else {
					parts = append(parts, src(e))
				}
			}
			out = append(out, "return "+strings.Join(parts, ","))
		case *ast.BranchStmt:
			out = append(out, x.Tok.String())
		default:
			walkExpr(s)
		}
	}
	walkBlock(fd.Body.List)
	return out
}

// dispatch: statement type -> the calls of its case in ExecuteStatement
func dispatch(fd *ast.FuncDecl) [][2]string {
	var out [][2]string
	ast.Inspect(fd.Body, func(n ast.Node) bool {
		sw, ok := n.(*ast.TypeSwitchStmt)
		if !ok {
			return true
		}
		es, isExpr := sw.Assign.(*ast.ExprStmt)
		if !isExpr {
			return true
		}
		te, isType := es.X.(*ast.TypeAssertExpr)
		if !isType || te.Type != nil || src(te.X) != "stmt" {
			return true
		}
		for _, c := range sw.Body.List {
			cc := c.(*ast.CaseClause)
			var calls []string
			for _, s := range cc.Body {
				ast.Inspect(s, func(m ast.Node) bool {
					if ce, ok := m.(*ast.CallExpr); ok {
						fn := src(ce.Fun)
						if !strings.HasPrefix(fn, "proc.Log") && !strings.HasPrefix(fn, "fmt.") && !strings.Contains(fn, "\n") {
							calls = append(calls, fn)
						}
					}
					return true
				})
			}
			label := "default"
			if len(cc.List) > 0 {
				var ls []string
				for _, e := range cc.List {
					ls = append(ls, src(e))
				}
				label = strings.Join(ls, ",")
			}
			out = append(out, [2]string{label, strings.Join(calls, " ")})
		}
		return false
	})
	if len(out) == 0 {
		die("ExecuteStatement: no `switch stmt.(type)` found")
	}
	return out
}

func main() {
	if len(os.Args) > 1 && os.Args[1] == "-keys" {
		keysMain()
		return
	}
	rsFile := parse("lib/query/reference_scope.go")
	prFile := parse("lib/query/processor.go")
	fnFile := parse("lib/query/user_defined_function.go")
	evFile := parse("lib/query/eval.go")

	walks := []string{"GetVariable", "SubstituteVariable", "SubstituteVariableDirectly", "DisposeVariable",
		"TemporaryTableExists", "GetTemporaryTable", "ReplaceTemporaryTable", "DisposeTemporaryTable",
		"OpenCursor", "CloseCursor", "FetchCursor", "DisposeCursor", "CursorIsOpen", "GetFunction", "DisposeFunction"}
	firsts := []string{"DeclareVariable", "DeclareVariableDirectly", "SetTemporaryTable", "DeclareCursor", "AddPseudoCursor",
		"DeclareFunction", "DeclareAggregateFunction"}

	var b strings.Builder
	b.WriteString("-- GENERATED by /verif/extract/scopefacts from lib/query/reference_scope.go, processor.go, user_defined_function.go — do not edit.\n")
	b.WriteString("import Csvq.Model.ScopeGen\n\nset_option linter.unusedVariables false\n\nnamespace Csvq.Gen.Scope\nopen Csvq.ScopeGen\n\n")
	type pre struct {
		name string
		toks []string
	}
	var pres []pre
	for _, n := range walks {
		o := translateWalk(rsFile, n)
		b.WriteString(o.lean + "\n\n")
		pres = append(pres, pre{n, o.pre})
	}
	for _, n := range firsts {
		b.WriteString(translateFirst(rsFile, n) + "\n\n")
	}
	b.WriteString("/-- the statements in front of the loop of each walk (not translated: source text) -/\ndef prefixes : List (String × List String) :=\n  [")
	for i, p := range pres {
		if i > 0 {
			b.WriteString(",\n   ")
		}
		b.WriteString("(" + q(p.name) + ", " + leanList(p.toks) + ")")
	}
	b.WriteString("]\n\n")

	type small struct {
		file       *ast.File
		recv, name string
	}
	smalls := []small{{rsFile, "ReferenceScope", "CreateChild"}, {rsFile, "ReferenceScope", "Global"}, {rsFile, "ReferenceScope", "CurrentBlock"},
		{rsFile, "ReferenceScope", "ClearCurrentBlock"}, {rsFile, "ReferenceScope", "CloseCurrentBlock"}, {rsFile, "", "GetBlockScope"},
		{rsFile, "", "PutBlockScope"}, {rsFile, "BlockScope", "Clear"}, {rsFile, "", "NewReferenceScope"}, {rsFile, "", "NewReferenceScopeWithBlock"},
		{prFile, "Processor", "NewChildProcessor"}, {prFile, "Processor", "Close"}}
	b.WriteString("/-- the bookkeeping of blocks, verbatim (source tokens of the bodies) -/\ndef bookkeeping : List (String × List String) :=\n  [")
	for i, s := range smalls {
		fd := findFunc(s.file, s.recv, s.name)
		if i > 0 {
			b.WriteString(",\n   ")
		}
		n := s.name
		if s.recv != "" {
			n = s.recv + "." + s.name
		}
		b.WriteString("(" + q(n) + ", " + leanList(tokens(fd.Body)) + ")")
	}
	b.WriteString("]\n\n")

	handlers := []small{{prFile, "Processor", "Execute"}, {prFile, "Processor", "execute"}, {prFile, "Processor", "executeChild"}, {prFile, "Processor", "IfStmt"}, {prFile, "Processor", "Case"},
		{prFile, "Processor", "While"}, {prFile, "Processor", "WhileInCursor"}, {fnFile, "UserDefinedFunction", "Execute"},
		{fnFile, "UserDefinedFunction", "ExecuteAggregate"}, {fnFile, "UserDefinedFunction", "execute"},
		{evFile, "", "evalFunction"}, {evFile, "", "evalAggregateFunction"}}
	b.WriteString("/-- block handling of the statements: every call in order, with defer / for{ } / if{ } / return markers -/\ndef blockHandling : List (String × List String) :=\n  [")
	for i, s := range handlers {
		fd := findFunc(s.file, s.recv, s.name)
		if i > 0 {
			b.WriteString(",\n   ")
		}
		n := s.name
		if s.recv != "" {
			n = s.recv + "." + s.name
		}
		b.WriteString("(" + q(n) + ", " + leanList(callTrace(fd)) + ")")
	}
	b.WriteString("]\n\n")

	d := dispatch(findFunc(prFile, "Processor", "ExecuteStatement"))
	sort.SliceStable(d, func(i, j int) bool { return d[i][0] < d[j][0] })
	b.WriteString("/-- Processor.ExecuteStatement: statement type ↦ the methods of the processor its case calls -/\ndef dispatch : List (String × String) :=\n  [")
	for i, p := range d {
		if i > 0 {
			b.WriteString(",\n   ")
		}
		b.WriteString("(" + q(p[0]) + ", " + q(p[1]) + ")")
	}
	b.WriteString("]\n\nend Csvq.Gen.Scope\n")
	fmt.Print(b.String())
}
