module scopefacts

go 1.18
