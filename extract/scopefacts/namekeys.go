// namekeys (scopefacts -keys): WHAT COUNTS AS THE SAME NAME in each per-block map of a BlockScope and in the
// transaction's map of prepared statements.  Prints Csvq/Gen/ScopeKeys.lean (property C15).
//
// The package lib/query is parsed AND type-checked (go/types; imports from the compiler's export data), so that
// `strings.ToUpper` is the function of package strings, `m.store` the method of SyncMap reached through the embedded
// field, and a parameter is told from a local variable by its object, not by its spelling.
//
//  1. mapKeys: for every method of VariableMap, ViewMap, CursorMap, UserDefinedFunctionMap, PreparedStatementMap,
//     every call it makes to a key-taking primitive of SyncMap (store / load / delete / exists) or to a key-taking
//     method of its own map type, with the KEY EXPRESSION of the first argument — how the key is computed from the
//     method's parameters:
//     raw                  a parameter of type string, or a path of field selections from a parameter (v.Name,
//     expr.Cursor.Literal), or a type assertion of one — the name as written in the program
//     upper(k) / lower(k)  strings.ToUpper / strings.ToLower of a key expression
//     call:M(k)            a method without arguments on such a path (view.FileInfo.IdentifiedPath())
//     alt(k1|k2|…)         an immediately called function literal: the key expressions of its return statements
//     a local variable that is assigned exactly once stands for its right-hand side; a package-level function of
//     lib/query with one string parameter whose body is a single `return e` is replaced by e (variableKey-style
//     helpers); EVERYTHING ELSE is printed as ?<source text> — the Lean side knows no such key, so the
//     obligations gen_name_keys_consistent / gen_name_keys_eq_ref fail (fail closed).
//  2. viewCallers: every call in lib/query (non-test files) of a key-taking ViewMap method on a block's
//     TemporaryTables, with the enclosing function and the key expression of the argument (the temporary-table map
//     is keyed by the CALLERS: its own methods take the key as it comes).
//  3. syncMapBodies: the bodies of SyncMap.store / load / delete / exists as source tokens (the primitives must use
//     the key as it comes).
//  4. identifiedPath: the body of FileInfo.IdentifiedPath as source tokens.
//  5. loadDirectCallers: the functions of lib/query (non-test) that call a LoadDirect method of one of the maps.
package main

import (
	"bytes"
	"fmt"
	"go/ast"
	"go/build"
	"go/importer"
	"go/parser"
	"go/token"
	"go/types"
	"io"
	"os"
	"os/exec"
	"path/filepath"
	"sort"
	"strings"
)

const queryDir = "lib/query"
const queryPath = "github.com/mithrandie/csvq/lib/query"

var mapTypes = []string{"VariableMap", "ViewMap", "CursorMap", "UserDefinedFunctionMap", "PreparedStatementMap"}
var primitives = map[string]bool{"store": true, "load": true, "delete": true, "exists": true}

type qpkg struct {
	files []*ast.File
	info  *types.Info
	pkg   *types.Package
}

func loadQuery() *qpkg {
	full := filepath.Join(repo(), queryDir)
	pkgs, err := parser.ParseDir(fset, full, func(fi os.FileInfo) bool {
		if strings.HasSuffix(fi.Name(), "_test.go") {
			return false
		}
		ok, err := build.Default.MatchFile(full, fi.Name())
		return err == nil && ok
	}, 0)
	if err != nil {
		die("parse %s: %v", queryDir, err)
	}
	if len(pkgs) != 1 {
		die("expected one package in %s, found %d", queryDir, len(pkgs))
	}
	var files []*ast.File
	imports := map[string]bool{}
	for _, ap := range pkgs {
		var names []string
		for fn := range ap.Files {
			names = append(names, fn)
		}
		sort.Strings(names)
		for _, fn := range names {
			files = append(files, ap.Files[fn])
			for _, im := range ap.Files[fn].Imports {
				imports[strings.Trim(im.Path.Value, "\"")] = true
			}
		}
	}
	var list []string
	for im := range imports {
		list = append(list, im)
	}
	sort.Strings(list)
	cmd := exec.Command("go", append([]string{"list", "-export", "-deps", "-f", "{{.ImportPath}}={{.Export}}"}, list...)...)
	cmd.Dir = repo()
	var stderr bytes.Buffer
	cmd.Stderr = &stderr
	out, err := cmd.Output()
	if err != nil {
		die("go list -export: %v\n%s", err, stderr.String())
	}
	export := map[string]string{}
	for _, l := range strings.Split(string(out), "\n") {
		if i := strings.Index(l, "="); i > 0 && len(l) > i+1 {
			export[l[:i]] = l[i+1:]
		}
	}
	lookup := func(path string) (io.ReadCloser, error) {
		f, ok := export[path]
		if !ok {
			return nil, fmt.Errorf("no export data for %s", path)
		}
		return os.Open(f)
	}
	p := &qpkg{files: files}
	p.info = &types.Info{
		Uses:       map[*ast.Ident]types.Object{},
		Defs:       map[*ast.Ident]types.Object{},
		Types:      map[ast.Expr]types.TypeAndValue{},
		Selections: map[*ast.SelectorExpr]*types.Selection{},
	}
	var terrs []string
	conf := types.Config{Importer: importer.ForCompiler(fset, "gc", lookup), Error: func(e error) { terrs = append(terrs, e.Error()) }}
	p.pkg, _ = conf.Check(queryPath, fset, files, p.info)
	if len(terrs) > 0 {
		die("type-checking %s failed:\n%s", queryDir, strings.Join(terrs, "\n"))
	}
	return p
}

// namedOf: the name of a named type of lib/query behind pointers, "" otherwise
func namedOf(t types.Type) string {
	for {
		if p, ok := t.(*types.Pointer); ok {
			t = p.Elem()
			continue
		}
		break
	}
	if n, ok := t.(*types.Named); ok && n.Obj().Pkg() != nil && n.Obj().Pkg().Path() == queryPath {
		return n.Obj().Name()
	}
	return ""
}

func isString(t types.Type) bool {
	b, ok := t.Underlying().(*types.Basic)
	return ok && b.Kind() == types.String
}

// keyCtx: the function a key expression is read in
type keyCtx struct {
	p      *qpkg
	params map[types.Object]bool
	// every assignment to a local variable inside the function: object -> right-hand sides
	assigned map[types.Object][]asg
	stored   map[types.Object]bool // range variables over <map>.Keys(): keys read back from the map itself
}

type asg struct {
	rhs ast.Expr // nil: not a plain value
	end token.Pos
}

// resolve: what an identifier stands for AT ITS POSITION: (nil, true) a parameter not assigned before the use — the
// name as it came in; (rhs, false) the one assignment in front of the use; (nil, false) anything else
func (c *keyCtx) resolve(id *ast.Ident) (ast.Expr, bool) {
	obj := c.p.info.Uses[id]
	if obj == nil {
		return nil, false
	}
	var before []asg
	for _, a := range c.assigned[obj] {
		if a.end <= id.Pos() {
			before = append(before, a)
		}
	}
	if len(before) == 0 {
		return nil, c.params[obj]
	}
	if len(before) == 1 && before[0].rhs != nil {
		return before[0].rhs, false
	}
	return nil, false
}

func (p *qpkg) ctxOf(fd *ast.FuncDecl) *keyCtx {
	c := &keyCtx{p: p, params: map[types.Object]bool{}, assigned: map[types.Object][]asg{}, stored: map[types.Object]bool{}}
	if fd.Type.Params != nil {
		for _, f := range fd.Type.Params.List {
			for _, n := range f.Names {
				c.params[p.info.Defs[n]] = true
			}
		}
	}
	ast.Inspect(fd.Body, func(n ast.Node) bool {
		switch s := n.(type) {
		case *ast.AssignStmt:
			for i, l := range s.Lhs {
				id, ok := l.(*ast.Ident)
				if !ok {
					continue
				}
				obj := p.info.Defs[id]
				if obj == nil {
					obj = p.info.Uses[id]
				}
				if obj == nil {
					continue
				}
				if len(s.Rhs) == len(s.Lhs) {
					c.assigned[obj] = append(c.assigned[obj], asg{s.Rhs[i], s.End()})
				} else if _, isTA := s.Rhs[0].(*ast.TypeAssertExpr); len(s.Rhs) == 1 && i == 0 && isTA {
					c.assigned[obj] = append(c.assigned[obj], asg{s.Rhs[0], s.End()}) // v, ok := x.(T): the value component
				} else {
					c.assigned[obj] = append(c.assigned[obj], asg{nil, s.End()})
				}
			}
		case *ast.FuncLit: // the parameters of a closure (a Range callback) come in like parameters
			if s.Type.Params != nil {
				for _, f := range s.Type.Params.List {
					for _, n := range f.Names {
						c.params[p.info.Defs[n]] = true
					}
				}
			}
		case *ast.RangeStmt:
			fromKeys := false
			if call, ok := s.X.(*ast.CallExpr); ok && len(call.Args) == 0 {
				if se, ok := call.Fun.(*ast.SelectorExpr); ok {
					if sel, ok := p.info.Selections[se]; ok && sel.Kind() == types.MethodVal && sel.Obj().Name() == "Keys" &&
						namedOf(sel.Obj().(*types.Func).Type().(*types.Signature).Recv().Type()) == "SyncMap" {
						fromKeys = true
					}
				}
			}
			if id, ok := s.X.(*ast.Ident); ok { // keys := m.Keys(); for _, k := range keys
				if obj := p.info.Uses[id]; obj != nil {
					if as := c.assigned[obj]; len(as) == 1 && as[0].rhs != nil {
						if call, ok := as[0].rhs.(*ast.CallExpr); ok && len(call.Args) == 0 {
							if se, ok := call.Fun.(*ast.SelectorExpr); ok {
								if sel, ok := p.info.Selections[se]; ok && sel.Kind() == types.MethodVal && sel.Obj().Name() == "Keys" &&
									namedOf(sel.Obj().(*types.Func).Type().(*types.Signature).Recv().Type()) == "SyncMap" {
									fromKeys = true
								}
							}
						}
					}
				}
			}
			for i, l := range []ast.Expr{s.Key, s.Value} {
				if id, ok := l.(*ast.Ident); ok {
					if obj := p.info.Defs[id]; obj != nil {
						c.assigned[obj] = append(c.assigned[obj], asg{nil, id.End()})
						if fromKeys && i == 1 {
							c.stored[obj] = true
						}
					}
				}
			}
		}
		return true
	})
	return c
}

func compact(n ast.Node) string { return strings.Join(strings.Fields(src(n)), " ") }

// rawPath: a parameter, a selection of fields from one, a type assertion of one, or a local bound once to one
func (c *keyCtx) rawPath(e ast.Expr, depth int) bool {
	if depth > 8 {
		return false
	}
	switch x := e.(type) {
	case *ast.ParenExpr:
		return c.rawPath(x.X, depth+1)
	case *ast.Ident:
		rhs, isParam := c.resolve(x)
		if isParam {
			return true
		}
		if rhs != nil {
			return c.rawPath(rhs, depth+1)
		}
		return false
	case *ast.SelectorExpr:
		sel, ok := c.p.info.Selections[x]
		if !ok || sel.Kind() != types.FieldVal {
			return false
		}
		return c.rawPath(x.X, depth+1)
	case *ast.TypeAssertExpr:
		return x.Type != nil && c.rawPath(x.X, depth+1)
	}
	return false
}

func (c *keyCtx) key(e ast.Expr, depth int) string {
	if depth > 8 {
		return "?" + compact(e)
	}
	if tv, ok := c.p.info.Types[e]; ok && isString(tv.Type) && c.rawPath(e, 0) {
		return "raw"
	}
	switch x := e.(type) {
	case *ast.ParenExpr:
		return c.key(x.X, depth+1)
	case *ast.Ident:
		if obj := c.p.info.Uses[x]; obj != nil && c.stored[obj] {
			return "stored"
		}
		if rhs, _ := c.resolve(x); rhs != nil {
			return c.key(rhs, depth+1)
		}
	case *ast.CallExpr:
		switch f := x.Fun.(type) {
		case *ast.SelectorExpr:
			if obj, ok := c.p.info.Uses[f.Sel].(*types.Func); ok && obj.Pkg() != nil && obj.Pkg().Path() == "strings" && len(x.Args) == 1 {
				switch obj.Name() {
				case "ToUpper":
					return "upper(" + c.key(x.Args[0], depth+1) + ")"
				case "ToLower":
					return "lower(" + c.key(x.Args[0], depth+1) + ")"
				}
			}
			if sel, ok := c.p.info.Selections[f]; ok && sel.Kind() == types.MethodVal && len(x.Args) == 0 && c.rawPath(f.X, 0) {
				return "call:" + f.Sel.Name + "(raw)"
			}
		case *ast.Ident:
			// a helper of lib/query: func h(s string) string { return e }
			if obj, ok := c.p.info.Uses[f].(*types.Func); ok && obj.Pkg() != nil && obj.Pkg().Path() == queryPath && len(x.Args) == 1 {
				if hd := c.p.funcDecl(obj); hd != nil && hd.Recv == nil && hd.Type.Params != nil && len(hd.Type.Params.List) == 1 &&
					len(hd.Type.Params.List[0].Names) == 1 && len(hd.Body.List) == 1 {
					if r, ok := hd.Body.List[0].(*ast.ReturnStmt); ok && len(r.Results) == 1 {
						inner := c.p.ctxOf(hd).key(r.Results[0], depth+1)
						arg := c.key(x.Args[0], depth+1)
						if !strings.Contains(inner, "?") {
							return strings.Replace(inner, "raw", arg, 1)
						}
					}
				}
			}
		case *ast.FuncLit:
			if len(x.Args) == 0 {
				var alts []string
				ast.Inspect(f.Body, func(n ast.Node) bool {
					if _, ok := n.(*ast.FuncLit); ok {
						alts = append(alts, "?nested")
						return false
					}
					if r, ok := n.(*ast.ReturnStmt); ok {
						if len(r.Results) != 1 {
							alts = append(alts, "?"+compact(r))
						} else {
							alts = append(alts, c.key(r.Results[0], depth+1))
						}
					}
					return true
				})
				return "alt(" + strings.Join(alts, "|") + ")"
			}
		}
	}
	return "?" + compact(e)
}

func (p *qpkg) funcDecl(obj *types.Func) *ast.FuncDecl {
	for _, f := range p.files {
		for _, d := range f.Decls {
			if fd, ok := d.(*ast.FuncDecl); ok && p.info.Defs[fd.Name] == obj {
				return fd
			}
		}
	}
	return nil
}

func recvName(p *qpkg, fd *ast.FuncDecl) string {
	if fd.Recv == nil || len(fd.Recv.List) != 1 {
		return ""
	}
	return namedOf(p.info.Types[fd.Recv.List[0].Type].Type)
}

func funcName(p *qpkg, fd *ast.FuncDecl) string {
	if r := recvName(p, fd); r != "" {
		return r + "." + fd.Name.Name
	}
	return fd.Name.Name
}

// keyParam: the index of the method's first parameter of type string (the key), -1 when it has none
func keyParam(f *types.Func) int {
	sig := f.Type().(*types.Signature)
	for i := 0; i < sig.Params().Len(); i++ {
		if isString(sig.Params().At(i).Type()) {
			return i
		}
	}
	return -1
}

func takesKey(f *types.Func) bool { return keyParam(f) >= 0 }

func isMapType(n string) bool {
	for _, m := range mapTypes {
		if m == n {
			return true
		}
	}
	return false
}

func keysMain() {
	p := loadQuery()
	type row struct{ a, b, c, d string }
	var mapKeys, viewCallers []row
	loadDirect := map[string]bool{}
	var syncBodies []row
	var idPath []string
	seenMethod := map[string]bool{}

	for _, f := range p.files {
		for _, d := range f.Decls {
			fd, ok := d.(*ast.FuncDecl)
			if !ok || fd.Body == nil {
				continue
			}
			recv := recvName(p, fd)
			fname := funcName(p, fd)
			if recv == "SyncMap" && primitives[fd.Name.Name] {
				syncBodies = append(syncBodies, row{fd.Name.Name, strings.Join(tokens(fd.Body), " "), "", ""})
			}
			if recv == "FileInfo" && fd.Name.Name == "IdentifiedPath" {
				idPath = tokens(fd.Body)
			}
			ctx := p.ctxOf(fd)
			if isMapType(recv) {
				seenMethod[recv] = true
			}
			ast.Inspect(fd.Body, func(n ast.Node) bool {
				call, ok := n.(*ast.CallExpr)
				if !ok {
					return true
				}
				se, ok := call.Fun.(*ast.SelectorExpr)
				if !ok {
					return true
				}
				sel, ok := p.info.Selections[se]
				if !ok || sel.Kind() != types.MethodVal {
					return true
				}
				callee := sel.Obj().(*types.Func)
				calleeRecv := namedOf(callee.Type().(*types.Signature).Recv().Type())
				onType := namedOf(sel.Recv()) // the static type the method is selected from
				// 5. LoadDirect of one of the maps, anywhere
				if callee.Name() == "LoadDirect" && isMapType(onType) {
					loadDirect[fname+" -> "+onType+".LoadDirect"] = true
				}
				// 1. inside a method of a map type: primitives of SyncMap and key-taking methods of the same type
				if isMapType(recv) && isMapType(onType) || isMapType(recv) && calleeRecv == "SyncMap" {
					if base, ok := se.X.(*ast.Ident); ok && fd.Recv.List[0].Names != nil && p.info.Uses[base] == p.info.Defs[fd.Recv.List[0].Names[0]] {
						switch {
						case calleeRecv == "SyncMap" && primitives[callee.Name()]:
							if len(call.Args) == 0 {
								die("%s: %s without a key", pos(call), callee.Name())
							}
							mapKeys = append(mapKeys, row{recv, fd.Name.Name, "SyncMap." + callee.Name(), ctx.key(call.Args[0], 0)})
						case calleeRecv == recv && takesKey(callee):
							mapKeys = append(mapKeys, row{recv, fd.Name.Name, recv + "." + callee.Name(), ctx.key(call.Args[keyParam(callee)], 0)})
						case calleeRecv == recv && len(call.Args) > 0 && namedOf(p.info.Types[call.Args[0]].Type) != "" && p.methodUsesMapKey(callee):
							// a method of the same map that takes a syntax node / a view and keys by it (Dispose(name), Set(view))
							mapKeys = append(mapKeys, row{recv, fd.Name.Name, recv + "." + callee.Name(), "node:" + ctx.nodeKey(call.Args[0])})
						}
					}
				}
				// 2. a key-taking ViewMap method on <block>.TemporaryTables
				if onType == "ViewMap" && !isMapType(recv) {
					if fs, ok := se.X.(*ast.SelectorExpr); ok && fs.Sel.Name == "TemporaryTables" {
						switch {
						case takesKey(callee):
							viewCallers = append(viewCallers, row{fname, "ViewMap." + callee.Name(), ctx.key(call.Args[keyParam(callee)], 0), ""})
						case len(call.Args) > 0 && p.methodUsesMapKey(callee):
							viewCallers = append(viewCallers, row{fname, "ViewMap." + callee.Name(), "node:" + ctx.nodeKey(call.Args[0]), ""})
						}
					}
				}
				return true
			})
		}
	}
	for _, m := range mapTypes {
		if !seenMethod[m] {
			die("no method of %s found", m)
		}
	}
	if len(syncBodies) != 4 {
		die("expected the 4 primitives of SyncMap, found %d", len(syncBodies))
	}
	if idPath == nil {
		die("FileInfo.IdentifiedPath not found")
	}
	less := func(l []row) func(i, j int) bool {
		return func(i, j int) bool {
			a, b := l[i], l[j]
			if a.a != b.a {
				return a.a < b.a
			}
			if a.b != b.b {
				return a.b < b.b
			}
			if a.c != b.c {
				return a.c < b.c
			}
			return a.d < b.d
		}
	}
	sort.SliceStable(mapKeys, less(mapKeys))
	sort.SliceStable(viewCallers, less(viewCallers))
	sort.SliceStable(syncBodies, less(syncBodies))

	var b strings.Builder
	b.WriteString("-- GENERATED by /verif/extract/scopefacts -keys from lib/query (type-checked) — do not edit.\n")
	b.WriteString("namespace Csvq.Gen.ScopeKeys\n\n")
	b.WriteString("/-- (map type, method, what it calls with a key, key expression of the argument in terms of the method's parameters) -/\n")
	b.WriteString("def mapKeys : List (String × String × String × String) :=\n  [")
	for i, r := range mapKeys {
		if i > 0 {
			b.WriteString(",\n   ")
		}
		fmt.Fprintf(&b, "(%s, %s, %s, %s)", q(r.a), q(r.b), q(r.c), q(r.d))
	}
	b.WriteString("]\n\n/-- (function, ViewMap method called on a block's TemporaryTables, key expression of the argument) -/\n")
	b.WriteString("def viewCallers : List (String × String × String) :=\n  [")
	for i, r := range viewCallers {
		if i > 0 {
			b.WriteString(",\n   ")
		}
		fmt.Fprintf(&b, "(%s, %s, %s)", q(r.a), q(r.b), q(r.c))
	}
	b.WriteString("]\n\n/-- SyncMap.store / load / delete / exists: bodies as source text -/\ndef syncMapBodies : List (String × String) :=\n  [")
	for i, r := range syncBodies {
		if i > 0 {
			b.WriteString(",\n   ")
		}
		fmt.Fprintf(&b, "(%s, %s)", q(r.a), q(r.b))
	}
	b.WriteString("]\n\n/-- FileInfo.IdentifiedPath: body as source tokens -/\ndef identifiedPath : List String :=\n  " + leanList(idPath) + "\n\n")
	var ld []string
	for k := range loadDirect {
		ld = append(ld, k)
	}
	sort.Strings(ld)
	b.WriteString("/-- the callers of a LoadDirect method of one of the maps (non-test files of lib/query) -/\ndef loadDirectCallers : List String :=\n  " + leanList(ld) + "\n\nend Csvq.Gen.ScopeKeys\n")
	fmt.Print(b.String())
}

// methodUsesMapKey: the method (of a map type) reaches a key-taking call on its receiver — it keys by its argument
func (p *qpkg) methodUsesMapKey(f *types.Func) bool {
	fd := p.funcDecl(f)
	if fd == nil || fd.Body == nil {
		return false
	}
	found := false
	ast.Inspect(fd.Body, func(n ast.Node) bool {
		call, ok := n.(*ast.CallExpr)
		if !ok {
			return true
		}
		if se, ok := call.Fun.(*ast.SelectorExpr); ok {
			if sel, ok := p.info.Selections[se]; ok && sel.Kind() == types.MethodVal {
				c := sel.Obj().(*types.Func)
				r := namedOf(c.Type().(*types.Signature).Recv().Type())
				if (r == "SyncMap" && primitives[c.Name()]) || (isMapType(r) && takesKey(c)) {
					found = true
				}
			}
		}
		return true
	})
	return found
}

// nodeKey: a syntax node / view handed on as it is (the callee computes the key): raw path or ?text
func (c *keyCtx) nodeKey(e ast.Expr) string {
	if c.rawPath(e, 0) {
		return "raw"
	}
	return "?" + compact(e)
}
