package main

import (
	"go/ast"
	"path/filepath"
	"sort"
	"strings"
)

// assertFact: a type assertion x.(T) WITHOUT the comma-ok form (it panics when x holds another type or nil) in the
// command layer: every file of lib/action and lib/query/built_in_command.go.  safe = it stands in a clause of a type
// switch over the same expression that lists exactly this type.
type assertFact struct {
	file, fn, expr string
	safe           bool
	count          int
}

func uncheckedAssertions(pkgs []*Pkg) []assertFact {
	acc := map[string]*assertFact{}
	for _, p := range pkgs {
		inAction := strings.HasSuffix(p.Path, "/lib/action")
		inQuery := strings.HasSuffix(p.Path, "/lib/query")
		if !inAction && !inQuery {
			continue
		}
		for _, f := range p.Files {
			name := relFile(f.Pos())
			if inQuery && filepath.Base(name) != "built_in_command.go" {
				continue
			}
			for _, d := range f.Decls {
				var path []ast.Node
				ast.Inspect(d, func(n ast.Node) bool {
					if n == nil {
						path = path[:len(path)-1]
						return true
					}
					path = append(path, n)
					ta, ok := n.(*ast.TypeAssertExpr)
					if !ok || ta.Type == nil { // x.(type) of a type switch
						return true
					}
					// comma-ok forms: v, ok := x.(T) / v, ok = x.(T) / var v, ok = x.(T) / if _, ok := …
					if len(path) >= 2 {
						switch par := path[len(path)-2].(type) {
						case *ast.AssignStmt:
							if len(par.Lhs) == 2 && len(par.Rhs) == 1 && par.Rhs[0] == ast.Expr(ta) {
								return true
							}
						case *ast.ValueSpec:
							if len(par.Names) == 2 && len(par.Values) == 1 && par.Values[0] == ast.Expr(ta) {
								return true
							}
						}
					}
					safe := false
					subj, typ := exprText(ta.X), exprText(ta.Type)
					for i := len(path) - 1; i >= 0; i-- {
						cc, ok := path[i].(*ast.CaseClause)
						if !ok || i < 2 {
							continue
						}
						ts, ok := path[i-2].(*ast.TypeSwitchStmt)
						if !ok {
							continue
						}
						var sw ast.Expr
						switch a := ts.Assign.(type) {
						case *ast.ExprStmt:
							sw = a.X.(*ast.TypeAssertExpr).X
						case *ast.AssignStmt:
							sw = a.Rhs[0].(*ast.TypeAssertExpr).X
						}
						if sw != nil && exprText(sw) == subj && len(cc.List) == 1 && exprText(cc.List[0]) == typ {
							safe = true
						}
					}
					fn := enclosingFunc(path)
					key := name + "\x00" + fn + "\x00" + exprText(ta)
					if acc[key] == nil {
						acc[key] = &assertFact{file: name, fn: fn, expr: exprText(ta), safe: safe}
					}
					acc[key].count++
					acc[key].safe = acc[key].safe && safe
					return true
				})
			}
		}
	}
	var keys []string
	for k := range acc {
		keys = append(keys, k)
	}
	sort.Strings(keys)
	var out []assertFact
	for _, k := range keys {
		out = append(out, *acc[k])
	}
	if len(out) == 0 {
		fatal("no type assertion found in lib/action and lib/query/built_in_command.go (source layout changed?)")
	}
	return out
}
