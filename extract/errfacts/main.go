// errfacts — generator of lean/Csvq/Gen/ErrFacts.lean (property C19).
//
// Reads $VERIF_REPO (default /repo) and prints, as Lean definitions in namespace Csvq.Gen:
//
//	returnCodes, errorNumbers   the constant tables of lib/query/error_code.go
//	documentedReturnCodes       the "Return Code" table of docs/_posts/2006-01-02-command.md
//	errorCtors                  every constructor New… of lib/query/error.go that builds a BaseError, with the
//	                            return code and the error number it passes on
//	exitDefaultCode …           what cli.Exit (lib/cli/app.go) uses for errors that are not query.Error
//	nilErrorFacts               method calls on an error variable on a path where a DIFFERENT error variable
//	                            was the one tested non-nil (go/types; all packages of the module)
//	recoverFacts                every recover() with the condition guarding it inside its deferred function
//	builtinFunctions …          keys of Functions / AggregateFunctions / AnalyticFunctions and the names the
//	                            evaluator and the scanner treat specially
//	strToTimeIndexSites         every s[i] of value.StrToTime with the path conditions on len(s)
//	assertSites …               every unchecked type assertion x.(T) of the hand-written files with its guard class and the table of
//	                            possible dynamic types of its sources: functions, parser-node fields (assertsites.go, grammar.go)
//	argIndexSites …             every index / slice expression on an argument slice of the built-in functions (and every
//	                            constant index of lib/query, lib/action, lib/cli, lib/option) with the length conditions that
//	                            dominate it; uses without a rule; the count checks of every function name (argfacts.go)
//
// Standard library only.  Any construct without a rule makes the program exit with status 1 (the check
// then reports an undischarged obligation, never "holds").
package main

import (
	"fmt"
	"go/ast"
	"go/token"
	"go/types"
	"os"
	"path/filepath"
	"regexp"
	"sort"
	"strconv"
	"strings"
)

// ---------------------------------------------------------------- constants

type constant struct {
	name string
	val  int
}

func parseConsts(p *Pkg, file string) (ret, num []constant, all map[string]int) {
	all = map[string]int{}
	var f *ast.File
	for _, x := range p.Files {
		if filepath.Base(fset.Position(x.Pos()).Filename) == file {
			f = x
		}
	}
	if f == nil {
		fatal("%s not found in %s", file, p.Dir)
	}
	for _, d := range f.Decls {
		gd, ok := d.(*ast.GenDecl)
		if !ok || gd.Tok != token.CONST {
			continue
		}
		for _, s := range gd.Specs {
			vs := s.(*ast.ValueSpec)
			for _, id := range vs.Names {
				obj, ok := p.Info.Defs[id].(*types.Const)
				if !ok {
					fatal("%s: constant %s has no value", file, id.Name)
				}
				v, err := strconv.Atoi(obj.Val().ExactString())
				if err != nil || v < 0 {
					fatal("%s: constant %s is not a non-negative integer (%s)", file, id.Name, obj.Val().ExactString())
				}
				all[id.Name] = v
				switch {
				case strings.HasPrefix(id.Name, "ReturnCode"):
					ret = append(ret, constant{id.Name, v})
				case strings.HasPrefix(id.Name, "Error"):
					num = append(num, constant{id.Name, v})
				case id.Name == "returnCodeBaseSignal" || id.Name == "errorSignalBase":
				default:
					fatal("%s: constant %s is of no known family (ReturnCode…, Error…)", file, id.Name)
				}
			}
		}
	}
	if len(ret) == 0 || len(num) == 0 {
		fatal("%s: no ReturnCode… / Error… constants found", file)
	}
	return
}

// ---------------------------------------------------------------- error constructors

type ctor struct {
	name, codeExpr, numberExpr string
	code, number                int // -1 = not a constant
}

// baseOf returns the (code, number) expressions of a construction of a BaseError, or nil.
func baseOf(n ast.Node) (code, number ast.Expr, ok bool) {
	switch x := n.(type) {
	case *ast.CallExpr:
		if id, isId := x.Fun.(*ast.Ident); isId && (id.Name == "NewBaseError" || id.Name == "NewBaseErrorWithPrefix") {
			if len(x.Args) != 4 {
				fatal("%s:%d: %s with %d arguments", relFile(x.Pos()), lineOf(x.Pos()), id.Name, len(x.Args))
			}
			return x.Args[2], x.Args[3], true
		}
	case *ast.CompositeLit:
		if id, isId := x.Type.(*ast.Ident); isId && id.Name == "BaseError" {
			for _, e := range x.Elts {
				kv, isKv := e.(*ast.KeyValueExpr)
				if !isKv {
					fatal("%s:%d: positional BaseError literal", relFile(x.Pos()), lineOf(x.Pos()))
				}
				switch exprText(kv.Key) {
				case "code":
					code = kv.Value
				case "number":
					number = kv.Value
				}
			}
			if code == nil || number == nil {
				fatal("%s:%d: BaseError literal without code/number", relFile(x.Pos()), lineOf(x.Pos()))
			}
			return code, number, true
		}
	}
	return nil, nil, false
}

func parseCtors(pkgs []*Pkg, consts map[string]int) []ctor {
	var out []ctor
	resolve := func(e ast.Expr) int {
		if id, ok := e.(*ast.Ident); ok {
			if v, ok := consts[id.Name]; ok {
				return v
			}
		}
		return -1
	}
	for _, p := range pkgs {
		for _, f := range p.Files {
			fileName := relFile(f.Pos())
			for _, d := range f.Decls {
				fd, isFn := d.(*ast.FuncDecl)
				if !isFn || fd.Body == nil {
					// a BaseError built in a package-level initialiser has no rule
					ast.Inspect(d, func(n ast.Node) bool {
						if _, _, ok := baseOf(n); ok {
							fatal("%s:%d: BaseError constructed outside a function", fileName, lineOf(n.Pos()))
						}
						return true
					})
					continue
				}
				if fd.Name.Name == "NewBaseError" || fd.Name.Name == "NewBaseErrorWithPrefix" {
					continue
				}
				var found []ctor
				ast.Inspect(fd.Body, func(n ast.Node) bool {
					if c, nb, ok := baseOf(n); ok {
						found = append(found, ctor{fd.Name.Name, exprText(c), exprText(nb), resolve(c), resolve(nb)})
					}
					return true
				})
				if len(found) == 0 {
					continue
				}
				if fileName != "lib/query/error.go" || fd.Recv != nil || !strings.HasPrefix(fd.Name.Name, "New") {
					fatal("%s:%d: %s builds a BaseError but is not a constructor New… of lib/query/error.go", fileName, lineOf(fd.Pos()), funcLabel(fd))
				}
				// one entry per distinct (code, number) pair the constructor can pass on
				for i, c := range found {
					dup := false
					for _, d := range found[:i] {
						if d == c {
							dup = true
						}
					}
					if !dup {
						out = append(out, c)
					}
				}
			}
		}
	}
	if len(out) < 50 {
		fatal("only %d error constructors found", len(out))
	}
	return out
}

// ---------------------------------------------------------------- documented return codes

func parseDocCodes(root string) (codes []int, signalBase int) {
	path := filepath.Join(root, "docs", "_posts", "2006-01-02-command.md")
	b, err := os.ReadFile(path)
	if err != nil {
		fatal("%v", err)
	}
	lines := strings.Split(string(b), "\n")
	in := false
	signalBase = -1
	row := regexp.MustCompile(`^\|\s*([^|]*?)\s*\|`)
	for _, l := range lines {
		if strings.HasPrefix(l, "## ") {
			in = strings.TrimSpace(l) == "## Return Code"
			continue
		}
		if !in || !strings.HasPrefix(l, "|") {
			continue
		}
		m := row.FindStringSubmatch(l)
		if m == nil {
			fatal("%s: unreadable table row %q", path, l)
		}
		cell := m[1]
		switch {
		case cell == "code" || strings.Trim(cell, "-:") == "":
		case regexp.MustCompile(`^\d+$`).MatchString(cell):
			v, _ := strconv.Atoi(cell)
			codes = append(codes, v)
		case regexp.MustCompile(`^\d+\+_n_$`).MatchString(cell):
			signalBase, _ = strconv.Atoi(strings.TrimSuffix(cell, "+_n_"))
		default:
			fatal("%s: return code cell %q has no rule", path, cell)
		}
	}
	if len(codes) == 0 {
		fatal("%s: no Return Code table found", path)
	}
	return
}

// ---------------------------------------------------------------- cli.Exit

func parseExit(pkgs []*Pkg, consts map[string]int) (defText string, defVal int, sources []string) {
	for _, p := range pkgs {
		if !strings.HasSuffix(p.Path, "/lib/cli") {
			continue
		}
		for _, f := range p.Files {
			for _, d := range f.Decls {
				fd, ok := d.(*ast.FuncDecl)
				if !ok || fd.Name.Name != "Exit" || fd.Recv != nil {
					continue
				}
				var codeObj types.Object
				exitArgOK := false
				ast.Inspect(fd.Body, func(n ast.Node) bool {
					switch x := n.(type) {
					case *ast.AssignStmt:
						for i, l := range x.Lhs {
							id, isId := l.(*ast.Ident)
							if !isId || id.Name != "code" || len(x.Rhs) != len(x.Lhs) {
								continue
							}
							if x.Tok == token.DEFINE {
								if codeObj != nil {
									fatal("cli.Exit: `code` defined twice")
								}
								codeObj = p.Info.Defs[id]
								defText = exprText(x.Rhs[i])
								if se, isSel := x.Rhs[i].(*ast.SelectorExpr); isSel {
									if v, ok := consts[se.Sel.Name]; ok {
										defVal = v
									} else {
										fatal("cli.Exit: default code %s is not a constant of error_code.go", defText)
									}
								} else {
									fatal("cli.Exit: default code %s has no rule", defText)
								}
							}
							sources = append(sources, exprText(x.Rhs[i]))
						}
					case *ast.CallExpr:
						if exprText(x.Fun) == "cli.Exit" {
							if len(x.Args) != 2 || exprText(x.Args[1]) != "code" {
								fatal("cli.Exit: the exit call does not pass `code`")
							}
							exitArgOK = true
						}
					}
					return true
				})
				if codeObj == nil || !exitArgOK {
					fatal("cli.Exit: shape not recognised")
				}
				return
			}
		}
	}
	fatal("lib/cli: func Exit not found")
	return
}

// ---------------------------------------------------------------- nil-error and recover facts

type nilFact struct {
	file         string
	line         int
	fn, expr, by string
}

type recFact struct {
	file      string
	line      int
	fn, guard string
	shared    bool
}

var errorIface = types.Universe.Lookup("error").Type().Underlying().(*types.Interface)

// errObj: the variable behind e, if e is an identifier of a local variable / parameter / result of an
// interface type implementing error.
func errObj(p *Pkg, e ast.Expr) types.Object {
	for {
		pe, ok := e.(*ast.ParenExpr)
		if !ok {
			break
		}
		e = pe.X
	}
	id, ok := e.(*ast.Ident)
	if !ok {
		return nil
	}
	obj := p.Info.Uses[id]
	if obj == nil {
		obj = p.Info.Defs[id]
	}
	v, ok := obj.(*types.Var)
	if !ok || v.IsField() {
		return nil
	}
	if v.Pkg() != nil && v.Parent() == v.Pkg().Scope() {
		return nil // package-level variable
	}
	t := v.Type()
	if !types.IsInterface(t) || !types.Implements(t, errorIface) {
		return nil
	}
	return v
}

func isNil(p *Pkg, e ast.Expr) bool {
	id, ok := e.(*ast.Ident)
	if !ok {
		return false
	}
	_, isNilObj := p.Info.Uses[id].(*types.Nil)
	return isNilObj
}

// condObjs: the error variables X for which cond implies `X <cmp> nil`, where cond is split along `split`
// (&& for !=, || for the negation of ==).
func condObjs(p *Pkg, cond ast.Expr, cmp, split token.Token) []types.Object {
	switch x := cond.(type) {
	case *ast.ParenExpr:
		return condObjs(p, x.X, cmp, split)
	case *ast.BinaryExpr:
		if x.Op == split {
			return append(condObjs(p, x.X, cmp, split), condObjs(p, x.Y, cmp, split)...)
		}
		if x.Op == cmp {
			if isNil(p, x.Y) {
				if o := errObj(p, x.X); o != nil {
					return []types.Object{o}
				}
			}
			if isNil(p, x.X) {
				if o := errObj(p, x.Y); o != nil {
					return []types.Object{o}
				}
			}
		}
	}
	return nil
}

func terminates(b *ast.BlockStmt) bool {
	if len(b.List) == 0 {
		return false
	}
	switch s := b.List[len(b.List)-1].(type) {
	case *ast.ReturnStmt:
		return true
	case *ast.BranchStmt:
		return s.Tok == token.BREAK || s.Tok == token.CONTINUE || s.Tok == token.GOTO
	case *ast.ExprStmt:
		if c, ok := s.X.(*ast.CallExpr); ok {
			if id, ok := c.Fun.(*ast.Ident); ok && id.Name == "panic" {
				return true
			}
		}
	}
	return false
}

func stmtList(n ast.Node) []ast.Stmt {
	switch x := n.(type) {
	case *ast.BlockStmt:
		return x.List
	case *ast.CaseClause:
		return x.Body
	case *ast.CommClause:
		return x.Body
	}
	return nil
}

type test struct {
	obj types.Object
	pos token.Pos
}

func enclosingFunc(path []ast.Node) string {
	for _, n := range path {
		if fd, ok := n.(*ast.FuncDecl); ok {
			return funcLabel(fd)
		}
	}
	return "(package level)"
}

func checkNil(p *Pkg, path []ast.Node, sel *ast.SelectorExpr) *nilFact {
	y := errObj(p, sel.X)
	if y == nil {
		return nil
	}
	est := map[types.Object]bool{}
	var tests []test
	add := func(os []types.Object, pos token.Pos) {
		for _, o := range os {
			est[o] = true
			tests = append(tests, test{o, pos})
		}
	}
	for i := 0; i+1 < len(path); i++ {
		n, child := path[i], path[i+1]
		switch x := n.(type) {
		case *ast.IfStmt:
			if child == ast.Node(x.Body) {
				add(condObjs(p, x.Cond, token.NEQ, token.LAND), x.Body.Pos())
				// if v, ok := Y.(T); ok { … }
				if as, ok := x.Init.(*ast.AssignStmt); ok && len(as.Rhs) == 1 && len(as.Lhs) == 2 {
					if ta, ok := as.Rhs[0].(*ast.TypeAssertExpr); ok && ta.Type != nil && exprText(x.Cond) == exprText(as.Lhs[1]) {
						if o := errObj(p, ta.X); o != nil {
							est[o] = true
						}
					}
				}
			} else if x.Else != nil && child == ast.Node(x.Else) {
				add(condObjs(p, x.Cond, token.EQL, token.LOR), x.Else.Pos())
			}
		case *ast.BinaryExpr:
			if x.Op == token.LAND && child == ast.Node(x.Y) {
				add(condObjs(p, x.X, token.NEQ, token.LAND), x.Y.Pos())
			}
			if x.Op == token.LOR && child == ast.Node(x.Y) {
				add(condObjs(p, x.X, token.EQL, token.LOR), x.Y.Pos())
			}
		case *ast.TypeSwitchStmt:
			if i+2 < len(path) {
				if cc, ok := path[i+2].(*ast.CaseClause); ok && cc.List != nil {
					hasNil := false
					for _, e := range cc.List {
						if isNil(p, e) {
							hasNil = true
						}
					}
					var subj ast.Expr
					switch a := x.Assign.(type) {
					case *ast.ExprStmt:
						subj = a.X.(*ast.TypeAssertExpr).X
					case *ast.AssignStmt:
						subj = a.Rhs[0].(*ast.TypeAssertExpr).X
					}
					if o := errObj(p, subj); o != nil && !hasNil {
						est[o] = true
					}
				}
			}
		}
		if list := stmtList(n); list != nil {
			for _, s := range list {
				if ast.Node(s) == child {
					break
				}
				if ifs, ok := s.(*ast.IfStmt); ok && ifs.Else == nil && terminates(ifs.Body) {
					for _, o := range condObjs(p, ifs.Cond, token.EQL, token.LOR) {
						est[o] = true
					}
				}
			}
		}
	}
	if est[y] {
		return nil
	}
	var t *test
	for i := len(tests) - 1; i >= 0; i-- {
		if tests[i].obj != y {
			t = &tests[i]
			break
		}
	}
	if t == nil {
		return nil
	}
	// an assignment to Y between the test and the use (same function) is taken as "Y was set on that path"
	assigned := false
	ast.Inspect(path[0], func(n ast.Node) bool {
		as, ok := n.(*ast.AssignStmt)
		if !ok || as.Pos() <= t.pos || as.Pos() >= sel.Pos() {
			return true
		}
		for _, l := range as.Lhs {
			if id, ok := l.(*ast.Ident); ok && (p.Info.Uses[id] == y || p.Info.Defs[id] == y) {
				assigned = true
			}
		}
		return true
	})
	if assigned {
		return nil
	}
	expr := exprText(sel)
	if len(path) >= 2 {
		if c, ok := path[len(path)-2].(*ast.CallExpr); ok && c.Fun == ast.Expr(sel) {
			expr += "()"
		}
	}
	return &nilFact{relFile(sel.Pos()), lineOf(sel.Pos()), enclosingFunc(path), expr, t.obj.Name()}
}

func checkRecover(p *Pkg, path []ast.Node, call *ast.CallExpr) *recFact {
	id, ok := call.Fun.(*ast.Ident)
	if !ok || id.Name != "recover" {
		return nil
	}
	if _, isBuiltin := p.Info.Uses[id].(*types.Builtin); !isBuiltin {
		return nil
	}
	k := -1
	for i := len(path) - 1; i >= 0; i-- {
		if _, ok := path[i].(*ast.FuncLit); ok {
			k = i
			break
		}
		if _, ok := path[i].(*ast.FuncDecl); ok {
			break
		}
	}
	where := fmt.Sprintf("%s:%d", relFile(call.Pos()), lineOf(call.Pos()))
	if k < 2 {
		fatal("%s: recover() outside a function literal (no rule)", where)
	}
	ce, ok1 := path[k-1].(*ast.CallExpr)
	_, ok2 := path[k-2].(*ast.DeferStmt)
	if !ok1 || !ok2 || ce.Fun != ast.Expr(path[k].(*ast.FuncLit)) {
		fatal("%s: recover() in a function literal that is not deferred directly (no rule)", where)
	}
	var guards []string
	shared := false
	for i := k; i+1 < len(path); i++ {
		ifs, ok := path[i].(*ast.IfStmt)
		if !ok {
			switch path[i].(type) {
			case *ast.FuncLit, *ast.BlockStmt, *ast.AssignStmt, *ast.ExprStmt, *ast.CallExpr:
			default:
				fatal("%s: recover() under a %T (no rule)", where, path[i])
			}
			continue
		}
		child := path[i+1]
		var g string
		switch {
		case child == ast.Node(ifs.Body):
			g = exprText(ifs.Cond)
		case ifs.Else != nil && child == ast.Node(ifs.Else):
			g = "!(" + exprText(ifs.Cond) + ")"
		case ifs.Init != nil && child == ast.Node(ifs.Init):
			continue
		default:
			fatal("%s: recover() inside an if condition (no rule)", where)
		}
		guards = append(guards, g)
		ast.Inspect(ifs.Cond, func(n ast.Node) bool {
			if _, ok := n.(*ast.CallExpr); ok {
				shared = true
			}
			return true
		})
	}
	return &recFact{relFile(call.Pos()), lineOf(call.Pos()), enclosingFunc(path), strings.Join(guards, " && "), shared}
}

func analyse(pkgs []*Pkg) (nils []nilFact, recs []recFact) {
	for _, p := range pkgs {
		for _, f := range p.Files {
			for _, d := range f.Decls {
				var path []ast.Node
				ast.Inspect(d, func(n ast.Node) bool {
					if n == nil {
						path = path[:len(path)-1]
						return true
					}
					path = append(path, n)
					switch x := n.(type) {
					case *ast.SelectorExpr:
						if nf := checkNil(p, path, x); nf != nil {
							nils = append(nils, *nf)
						}
					case *ast.CallExpr:
						if rf := checkRecover(p, path, x); rf != nil {
							recs = append(recs, *rf)
						}
					}
					return true
				})
			}
		}
	}
	sort.Slice(nils, func(i, j int) bool {
		if nils[i].file != nils[j].file {
			return nils[i].file < nils[j].file
		}
		return nils[i].line < nils[j].line
	})
	sort.Slice(recs, func(i, j int) bool {
		if recs[i].file != recs[j].file {
			return recs[i].file < recs[j].file
		}
		return recs[i].line < recs[j].line
	})
	if len(recs) == 0 {
		fatal("no recover() found in the module (source layout changed?)")
	}
	return
}

// ---------------------------------------------------------------- function tables

func findPkg(pkgs []*Pkg, suffix string) *Pkg {
	for _, p := range pkgs {
		if strings.HasSuffix(p.Path, suffix) {
			return p
		}
	}
	fatal("package …%s not found", suffix)
	return nil
}

// stringTable: the string keys of a package-level `var name = map[string]T{…}` or the elements of `[]string{…}`.
func stringTable(p *Pkg, name string) []string {
	for _, f := range p.Files {
		for _, d := range f.Decls {
			gd, ok := d.(*ast.GenDecl)
			if !ok || gd.Tok != token.VAR {
				continue
			}
			for _, s := range gd.Specs {
				vs := s.(*ast.ValueSpec)
				for i, id := range vs.Names {
					if id.Name != name || i >= len(vs.Values) {
						continue
					}
					cl, ok := vs.Values[i].(*ast.CompositeLit)
					if !ok {
						fatal("%s: initialiser is not a composite literal", name)
					}
					var out []string
					for _, e := range cl.Elts {
						k := e
						if kv, ok := e.(*ast.KeyValueExpr); ok {
							k = kv.Key
						}
						bl, ok := k.(*ast.BasicLit)
						if !ok || bl.Kind != token.STRING {
							fatal("%s:%d: key of %s is not a string literal", relFile(e.Pos()), lineOf(e.Pos()), name)
						}
						s, err := strconv.Unquote(bl.Value)
						if err != nil {
							fatal("%v", err)
						}
						out = append(out, s)
					}
					if len(out) == 0 {
						fatal("%s is empty", name)
					}
					return out
				}
			}
		}
	}
	fatal("variable %s not found in %s", name, p.Dir)
	return nil
}

// specialNames: the string literals `name` is compared with in evalFunction.
func specialNames(p *Pkg) []string {
	seen := map[string]bool{}
	var out []string
	for _, f := range p.Files {
		for _, d := range f.Decls {
			fd, ok := d.(*ast.FuncDecl)
			if !ok || fd.Name.Name != "evalFunction" || fd.Recv != nil {
				continue
			}
			ast.Inspect(fd.Body, func(n ast.Node) bool {
				be, ok := n.(*ast.BinaryExpr)
				if !ok || (be.Op != token.EQL && be.Op != token.NEQ) {
					return true
				}
				if id, ok := be.X.(*ast.Ident); ok && id.Name == "name" {
					if bl, ok := be.Y.(*ast.BasicLit); ok && bl.Kind == token.STRING {
						s, _ := strconv.Unquote(bl.Value)
						if !seen[s] {
							seen[s] = true
							out = append(out, s)
						}
					}
				}
				return true
			})
			return out
		}
	}
	fatal("lib/query: func evalFunction not found")
	return nil
}

// ---------------------------------------------------------------- index guards of value.StrToTime

type lenCond struct {
	kind string // ge lt eq notLt notEq
	k    int
}

type idxSite struct {
	line  int
	expr  string
	conds []lenCond
	idx   string // "const" | "fromEnd"
	k     int
}

type idxWalker struct {
	s     string // name of the string parameter
	sites []idxSite
}

func (w *idxWalker) isLen(e ast.Expr) bool {
	c, ok := e.(*ast.CallExpr)
	if !ok || len(c.Args) != 1 {
		return false
	}
	f, ok := c.Fun.(*ast.Ident)
	a, ok2 := c.Args[0].(*ast.Ident)
	return ok && ok2 && f.Name == "len" && a.Name == w.s
}

func (w *idxWalker) mentionsLen(e ast.Expr) bool {
	found := false
	ast.Inspect(e, func(n ast.Node) bool {
		if x, ok := n.(ast.Expr); ok && w.isLen(x) {
			found = true
		}
		return true
	})
	return found
}

func intLit(e ast.Expr) (int, bool) {
	bl, ok := e.(*ast.BasicLit)
	if !ok || bl.Kind != token.INT {
		return 0, false
	}
	v, err := strconv.Atoi(bl.Value)
	return v, err == nil
}

// atom: a comparison between len(s) and an integer literal as a condition "len OP k".
func (w *idxWalker) atom(e ast.Expr) (lenCond, bool) {
	be, ok := e.(*ast.BinaryExpr)
	if !ok {
		return lenCond{}, false
	}
	op := be.Op
	var k int
	switch {
	case w.isLen(be.X):
		v, ok := intLit(be.Y)
		if !ok {
			fatal("StrToTime:%d: len(%s) compared with a non-literal (no rule)", lineOf(e.Pos()), w.s)
		}
		k = v
	case w.isLen(be.Y):
		v, ok := intLit(be.X)
		if !ok {
			fatal("StrToTime:%d: len(%s) compared with a non-literal (no rule)", lineOf(e.Pos()), w.s)
		}
		k = v
		// k OP len  ==  len OP' k
		switch op {
		case token.LSS:
			op = token.GTR
		case token.LEQ:
			op = token.GEQ
		case token.GTR:
			op = token.LSS
		case token.GEQ:
			op = token.LEQ
		}
	default:
		return lenCond{}, false
	}
	switch op {
	case token.GEQ:
		return lenCond{"ge", k}, true
	case token.GTR:
		return lenCond{"ge", k + 1}, true
	case token.LSS:
		return lenCond{"lt", k}, true
	case token.LEQ:
		return lenCond{"lt", k + 1}, true
	case token.EQL:
		return lenCond{"eq", k}, true
	case token.NEQ:
		return lenCond{"notEq", k}, true
	}
	fatal("StrToTime:%d: operator %s on len(%s) (no rule)", lineOf(e.Pos()), op, w.s)
	return lenCond{}, false
}

// positive: what cond being TRUE says about len(s) (conjuncts only; anything else is dropped, which is sound).
func (w *idxWalker) positive(cond ast.Expr) []lenCond {
	switch x := cond.(type) {
	case *ast.ParenExpr:
		return w.positive(x.X)
	case *ast.BinaryExpr:
		if x.Op == token.LAND {
			return append(w.positive(x.X), w.positive(x.Y)...)
		}
		if c, ok := w.atom(x); ok {
			return []lenCond{c}
		}
	}
	if w.mentionsLen(cond) {
		if be, ok := cond.(*ast.BinaryExpr); !ok || be.Op != token.LOR {
			// len(s) inside something that is not a comparison / conjunction / disjunction: only allowed as part of an index
			w.requireOnlyInIndex(cond)
		}
	}
	return nil
}

// negative: what cond being FALSE says about len(s).
func (w *idxWalker) negative(cond ast.Expr) []lenCond {
	switch x := cond.(type) {
	case *ast.ParenExpr:
		return w.negative(x.X)
	case *ast.BinaryExpr:
		if x.Op == token.LOR {
			return append(w.negative(x.X), w.negative(x.Y)...)
		}
		if x.Op == token.LAND {
			return nil
		}
		if c, ok := w.atom(x); ok {
			switch c.kind {
			case "ge":
				return []lenCond{{"lt", c.k}}
			case "lt":
				return []lenCond{{"notLt", c.k}}
			case "eq":
				return []lenCond{{"notEq", c.k}}
			case "notEq":
				return []lenCond{{"eq", c.k}}
			}
		}
	}
	return nil
}

func (w *idxWalker) requireOnlyInIndex(e ast.Expr) {
	// every len(s) below e must sit directly in `s[len(s) - k]`
	ast.Inspect(e, func(n ast.Node) bool {
		if ix, ok := n.(*ast.IndexExpr); ok {
			if id, ok := ix.X.(*ast.Ident); ok && id.Name == w.s {
				return false
			}
		}
		if x, ok := n.(ast.Expr); ok && w.isLen(x) {
			fatal("StrToTime:%d: len(%s) used in a form without a rule: %s", lineOf(e.Pos()), w.s, exprText(e))
		}
		return true
	})
}

func (w *idxWalker) expr(e ast.Expr, conds []lenCond) {
	if e == nil {
		return
	}
	ast.Inspect(e, func(n ast.Node) bool {
		switch x := n.(type) {
		case *ast.FuncLit:
			fatal("StrToTime:%d: function literal (no rule)", lineOf(x.Pos()))
		case *ast.BinaryExpr:
			if x.Op == token.LAND {
				w.expr(x.X, conds)
				w.expr(x.Y, append(append([]lenCond{}, conds...), w.positive(x.X)...))
				return false
			}
			if x.Op == token.LOR {
				w.expr(x.X, conds)
				w.expr(x.Y, append(append([]lenCond{}, conds...), w.negative(x.X)...))
				return false
			}
		case *ast.SliceExpr:
			if id, ok := x.X.(*ast.Ident); ok && id.Name == w.s {
				fatal("StrToTime:%d: slice expression on %s (no rule)", lineOf(x.Pos()), w.s)
			}
		case *ast.IndexExpr:
			id, ok := x.X.(*ast.Ident)
			if !ok || id.Name != w.s {
				return true
			}
			site := idxSite{line: lineOf(x.Pos()), expr: exprText(x), conds: append([]lenCond{}, conds...)}
			if k, ok := intLit(x.Index); ok {
				site.idx, site.k = "const", k
			} else if be, ok := x.Index.(*ast.BinaryExpr); ok && be.Op == token.SUB && w.isLen(be.X) {
				k, ok := intLit(be.Y)
				if !ok {
					fatal("StrToTime:%d: index %s (no rule)", site.line, site.expr)
				}
				site.idx, site.k = "fromEnd", k
			} else {
				fatal("StrToTime:%d: index %s (no rule)", site.line, site.expr)
			}
			w.sites = append(w.sites, site)
			return false
		}
		return true
	})
}

func (w *idxWalker) stmts(list []ast.Stmt, conds []lenCond) {
	for _, s := range list {
		w.stmt(s, conds)
	}
}

func (w *idxWalker) stmt(s ast.Stmt, conds []lenCond) {
	cp := func(extra []lenCond) []lenCond { return append(append([]lenCond{}, conds...), extra...) }
	switch x := s.(type) {
	case nil:
	case *ast.BlockStmt:
		w.stmts(x.List, conds)
	case *ast.IfStmt:
		if x.Init != nil {
			w.stmt(x.Init, conds)
		}
		w.expr(x.Cond, conds)
		w.stmts(x.Body.List, cp(w.positive(x.Cond)))
		if x.Else != nil {
			w.stmt(x.Else, cp(w.negative(x.Cond)))
		}
	case *ast.SwitchStmt:
		if x.Init != nil {
			w.stmt(x.Init, conds)
		}
		w.expr(x.Tag, conds)
		for _, c := range x.Body.List {
			cc := c.(*ast.CaseClause)
			for _, e := range cc.List {
				w.expr(e, conds)
			}
			extra := []lenCond{}
			if x.Tag == nil && len(cc.List) == 1 {
				extra = w.positive(cc.List[0])
			}
			w.stmts(cc.Body, cp(extra))
		}
	case *ast.RangeStmt:
		w.expr(x.X, conds)
		for _, l := range []ast.Expr{x.Key, x.Value} {
			if id, ok := l.(*ast.Ident); ok && id.Name == w.s {
				fatal("StrToTime:%d: %s is a loop variable (no rule)", lineOf(x.Pos()), w.s)
			}
		}
		w.stmts(x.Body.List, conds)
	case *ast.ForStmt:
		w.stmt(x.Init, conds)
		w.expr(x.Cond, conds)
		w.stmt(x.Post, conds)
		w.stmts(x.Body.List, conds)
	case *ast.AssignStmt:
		for _, l := range x.Lhs {
			if id, ok := l.(*ast.Ident); ok && id.Name == w.s && len(conds) > 0 {
				fatal("StrToTime:%d: %s assigned under conditions on its length (no rule)", lineOf(x.Pos()), w.s)
			}
		}
		for _, r := range x.Rhs {
			w.expr(r, conds)
		}
		for _, l := range x.Lhs {
			w.expr(l, conds)
		}
	case *ast.ReturnStmt:
		for _, r := range x.Results {
			w.expr(r, conds)
		}
	case *ast.ExprStmt:
		w.expr(x.X, conds)
	case *ast.BranchStmt, *ast.EmptyStmt:
	case *ast.DeclStmt:
		ast.Inspect(x, func(n ast.Node) bool {
			if e, ok := n.(ast.Expr); ok {
				w.expr(e, conds)
				return false
			}
			return true
		})
	default:
		fatal("StrToTime:%d: statement %T (no rule)", lineOf(s.Pos()), s)
	}
}

func strToTimeSites(p *Pkg) []idxSite {
	for _, f := range p.Files {
		for _, d := range f.Decls {
			fd, ok := d.(*ast.FuncDecl)
			if !ok || fd.Name.Name != "StrToTime" || fd.Recv != nil {
				continue
			}
			if len(fd.Type.Params.List) == 0 || len(fd.Type.Params.List[0].Names) != 1 || exprText(fd.Type.Params.List[0].Type) != "string" {
				fatal("StrToTime: first parameter is not one string")
			}
			w := &idxWalker{s: fd.Type.Params.List[0].Names[0].Name}
			w.stmts(fd.Body.List, nil)
			if len(w.sites) == 0 {
				fatal("StrToTime: no index expression found (source layout changed?)")
			}
			return w.sites
		}
	}
	fatal("lib/value: func StrToTime not found")
	return nil
}

// ---------------------------------------------------------------- output

func optNat(v int) string {
	if v < 0 {
		return "none"
	}
	return fmt.Sprintf("(some %d)", v)
}

func strList(xs []string) string {
	q := make([]string, len(xs))
	for i, x := range xs {
		q[i] = leanStr(x)
	}
	return "[" + strings.Join(q, ", ") + "]"
}

func main() {
	root := repoRoot()
	pkgs := loadAll(root)
	if os.Getenv("ERRFACTS_ONLY_ASSERTS") != "" { // development aid: the type-assertion section alone
		printAssertSites(assertSites(pkgs, root))
		return
	}
	if os.Getenv("ERRFACTS_ONLY_ARGS") != "" { // development aid: the argument-slice section alone
		printArgFacts(argFacts(pkgs))
		return
	}
	qp := findPkg(pkgs, "/lib/query")
	if dir := os.Getenv("ERRFACTS_SIZE_DIR"); dir != "" { // second output: size sites, loops, conversions (sizefacts.go, loopfacts.go), written beside the main one
		writeSizeFacts(pkgs, dir)
		if os.Getenv("ERRFACTS_ONLY_SIZE") != "" {
			return
		}
	}
	ret, num, consts := parseConsts(qp, "error_code.go")
	ctors := parseCtors(pkgs, consts)
	docCodes, sigBase := parseDocCodes(root)
	defText, defVal, exitSources := parseExit(pkgs, consts)
	nils, recs := analyse(pkgs)
	sites := strToTimeSites(findPkg(pkgs, "/lib/value"))

	var pkgNames []string
	for _, p := range pkgs {
		pkgNames = append(pkgNames, p.Path)
	}

	fmt.Println("-- GENERATED by /verif/extract/errfacts from lib/query/error.go, lib/query/error_code.go, lib/cli/app.go,")
	fmt.Println("-- docs/_posts/2006-01-02-command.md, lib/value/conv.go and every package of the module (go/types) — do not edit.")
	fmt.Println("import Csvq.Model.ErrFacts")
	fmt.Println("namespace Csvq.Gen")
	fmt.Println("open Csvq.ErrFacts")
	fmt.Println()
	fmt.Println("/-- packages analysed for nilErrorFacts / recoverFacts -/")
	fmt.Printf("def errFactsPackages : List String :=\n  %s\n\n", strList(pkgNames))

	pairs := func(cs []constant) string {
		q := make([]string, len(cs))
		for i, c := range cs {
			q[i] = fmt.Sprintf("(%s, %d)", leanStr(c.name), c.val)
		}
		return "[" + strings.Join(q, ",\n   ") + "]"
	}
	fmt.Println("/-- the ReturnCode… constants of lib/query/error_code.go -/")
	fmt.Printf("def returnCodes : List (String × Nat) :=\n  %s\n\n", pairs(ret))
	fmt.Println("/-- the Error… number constants of lib/query/error_code.go -/")
	fmt.Printf("def errorNumbers : List (String × Nat) :=\n  %s\n\n", pairs(num))
	fmt.Printf("def returnCodeBaseSignal : Nat := %d\n", consts["returnCodeBaseSignal"])
	fmt.Printf("def errorSignalBase : Nat := %d\n\n", consts["errorSignalBase"])

	dc := make([]string, len(docCodes))
	for i, c := range docCodes {
		dc[i] = strconv.Itoa(c)
	}
	fmt.Println("/-- the numeric rows of the manual's \"Return Code\" table (docs/_posts/2006-01-02-command.md) -/")
	fmt.Printf("def documentedReturnCodes : List Nat := [%s]\n", strings.Join(dc, ", "))
	fmt.Println("/-- the row `128+n` (terminated by signal n) of the same table -/")
	fmt.Printf("def documentedSignalBase : Option Nat := %s\n\n", optNat(sigBase))

	fmt.Println("/-- every constructor of lib/query/error.go that builds a BaseError: ⟨name, code expression, code, number expression, number⟩ -/")
	fmt.Println("def errorCtors : List ErrCtor := [")
	for i, c := range ctors {
		sep := ","
		if i == len(ctors)-1 {
			sep = ""
		}
		fmt.Printf("  ⟨%s, %s, %s, %s, %s⟩%s\n", leanStr(c.name), leanStr(c.codeExpr), optNat(c.code), leanStr(c.numberExpr), optNat(c.number), sep)
	}
	fmt.Println("]")
	fmt.Println()
	fmt.Println("/-- cli.Exit (lib/cli/app.go): the code used when the error is not a query.Error, and every expression assigned to `code` -/")
	fmt.Printf("def exitDefaultCodeExpr : String := %s\n", leanStr(defText))
	fmt.Printf("def exitDefaultCode : Nat := %d\n", defVal)
	fmt.Printf("def exitCodeSources : List String := %s\n\n", strList(exitSources))

	fmt.Println("/-- method calls on an error variable where a DIFFERENT error variable is the one known non-nil: ⟨file, line, function, expression, tested variable⟩ -/")
	fmt.Println("def nilErrorFacts : List NilErrorFact := [")
	for i, f := range nils {
		sep := ","
		if i == len(nils)-1 {
			sep = ""
		}
		fmt.Printf("  ⟨%s, %d, %s, %s, %s⟩%s\n", leanStr(f.file), f.line, leanStr(f.fn), leanStr(f.expr), leanStr(f.by), sep)
	}
	fmt.Println("]")
	fmt.Println()
	fmt.Println("/-- every recover(): ⟨file, line, function, guard inside the deferred function (\"\" = none), guard calls a function⟩ -/")
	fmt.Println("def recoverFacts : List RecoverFact := [")
	for i, f := range recs {
		sep := ","
		if i == len(recs)-1 {
			sep = ""
		}
		b := "false"
		if f.shared {
			b = "true"
		}
		fmt.Printf("  ⟨%s, %d, %s, %s, %s⟩%s\n", leanStr(f.file), f.line, leanStr(f.fn), leanStr(f.guard), b, sep)
	}
	fmt.Println("]")
	fmt.Println()

	fmt.Println("/-- keys of query.Functions -/")
	fmt.Printf("def builtinFunctions : List String :=\n  %s\n\n", strList(stringTable(qp, "Functions")))
	fmt.Println("/-- keys of query.AggregateFunctions -/")
	fmt.Printf("def aggregateFunctions : List String :=\n  %s\n\n", strList(stringTable(qp, "AggregateFunctions")))
	fmt.Println("/-- keys of query.AnalyticFunctions -/")
	fmt.Printf("def analyticFunctions : List String :=\n  %s\n\n", strList(stringTable(qp, "AnalyticFunctions")))
	fmt.Println("/-- names evalFunction dispatches on before the Functions table -/")
	fmt.Printf("def specialFunctions : List String :=\n  %s\n\n", strList(specialNames(qp)))
	fmt.Println("/-- parser.listFunctions (aggregate functions with their own syntax) -/")
	fmt.Printf("def listAggregateFunctions : List String :=\n  %s\n\n", strList(stringTable(findPkg(pkgs, "/lib/parser"), "listFunctions")))

	fmt.Println("/-- every index expression on the string in value.StrToTime with the path conditions on its length (outermost first) -/")
	fmt.Println("def strToTimeIndexSites : List IndexSite := [")
	for i, s := range sites {
		sep := ","
		if i == len(sites)-1 {
			sep = ""
		}
		cs := make([]string, len(s.conds))
		for j, c := range s.conds {
			cs[j] = fmt.Sprintf(".%s %d", c.kind, c.k)
		}
		fmt.Printf("  ⟨%d, %s, [%s], .%s %d⟩%s\n", s.line, leanStr(s.expr), strings.Join(cs, ", "), s.idx, s.k, sep)
	}
	fmt.Println("]")
	fmt.Println()
	printAssertSites(assertSites(pkgs, root))
	printArgFacts(argFacts(pkgs))
	fmt.Println("end Csvq.Gen")
}
