package main

import (
	"fmt"
	"go/ast"
	"go/build"
	"go/importer"
	"go/parser"
	"go/token"
	"go/types"
	"os"
	"path/filepath"
	"sort"
	"strings"
)

// Pkg is one parsed and type-checked package directory of the repository under analysis.
type Pkg struct {
	Files []*ast.File
	Info  *types.Info
	Types *types.Package
	Dir   string
	Path  string
}

var fset = token.NewFileSet()

func fatal(format string, a ...interface{}) {
	fmt.Fprintf(os.Stderr, "errfacts: "+format+"\n", a...)
	os.Exit(1)
}

func repoRoot() string {
	if r := os.Getenv("VERIF_REPO"); r != "" {
		return r
	}
	return "/repo"
}

func modulePath(root string) string {
	b, err := os.ReadFile(filepath.Join(root, "go.mod"))
	if err != nil {
		fatal("%v", err)
	}
	for _, l := range strings.Split(string(b), "\n") {
		if strings.HasPrefix(l, "module ") {
			return strings.TrimSpace(strings.TrimPrefix(l, "module "))
		}
	}
	fatal("no module line in go.mod")
	return ""
}

// packageDirs: the module root and every directory under lib/ that holds non-test Go files.
func packageDirs(root string) []string {
	dirs := []string{root}
	ents, err := os.ReadDir(filepath.Join(root, "lib"))
	if err != nil {
		fatal("%v", err)
	}
	for _, e := range ents {
		if e.IsDir() {
			dirs = append(dirs, filepath.Join(root, "lib", e.Name()))
		}
	}
	sort.Strings(dirs)
	return dirs
}

// loadAll parses (build constraints of the default context applied: no tag `verif`) and type-checks the
// packages with one shared source importer (offline: the dependencies are in the module cache; the
// importer resolves them relative to the process's cwd, which therefore is the module root).
func loadAll(root string) []*Pkg {
	if err := os.Chdir(root); err != nil {
		fatal("chdir %s: %v", root, err)
	}
	mod := modulePath(root)
	imp := importer.ForCompiler(fset, "source", nil)
	var out []*Pkg
	for _, dir := range packageDirs(root) {
		bp, err := build.Default.ImportDir(dir, 0)
		if err != nil {
			if _, ok := err.(*build.NoGoError); ok {
				continue
			}
			fatal("go/build %s: %v", dir, err)
		}
		names := append([]string{}, bp.GoFiles...)
		sort.Strings(names)
		p := &Pkg{Dir: dir}
		rel, _ := filepath.Rel(root, dir)
		if rel == "." {
			p.Path = mod
		} else {
			p.Path = mod + "/" + filepath.ToSlash(rel)
		}
		for _, n := range names {
			f, err := parser.ParseFile(fset, filepath.Join(dir, n), nil, 0)
			if err != nil {
				fatal("parse: %v", err)
			}
			p.Files = append(p.Files, f)
		}
		p.Info = &types.Info{
			Uses:       map[*ast.Ident]types.Object{},
			Defs:       map[*ast.Ident]types.Object{},
			Types:      map[ast.Expr]types.TypeAndValue{},
			Selections: map[*ast.SelectorExpr]*types.Selection{},
		}
		var terrs []string
		conf := types.Config{Importer: imp, Error: func(e error) { terrs = append(terrs, e.Error()) }}
		tp, _ := conf.Check(p.Path, fset, p.Files, p.Info)
		if len(terrs) > 0 {
			fatal("type-checking %s failed:\n%s", dir, strings.Join(terrs, "\n"))
		}
		p.Types = tp
		out = append(out, p)
	}
	if len(out) < 5 {
		fatal("only %d packages found under %s", len(out), root)
	}
	return out
}

func relFile(pos token.Pos) string {
	fn := fset.Position(pos).Filename
	if rel, err := filepath.Rel(repoRoot(), fn); err == nil {
		return filepath.ToSlash(rel)
	}
	return fn
}

func lineOf(pos token.Pos) int { return fset.Position(pos).Line }

func exprText(e ast.Expr) string { return types.ExprString(e) }

// funcLabel: "Recv.Name" for methods, "Name" for functions.
func funcLabel(fd *ast.FuncDecl) string {
	if fd.Recv != nil && len(fd.Recv.List) == 1 {
		t := fd.Recv.List[0].Type
		if s, ok := t.(*ast.StarExpr); ok {
			t = s.X
		}
		if id, ok := t.(*ast.Ident); ok {
			return id.Name + "." + fd.Name.Name
		}
	}
	return fd.Name.Name
}

func leanStr(s string) string {
	var b strings.Builder
	b.WriteByte('"')
	for _, r := range s {
		switch {
		case r == '"':
			b.WriteString("\\\"")
		case r == '\\':
			b.WriteString("\\\\")
		case r == '\n':
			b.WriteString("\\n")
		case r == '\t':
			b.WriteString("\\t")
		case r < 0x20 || r == 0x7f:
			fmt.Fprintf(&b, "\\x%02x", r)
		default:
			b.WriteRune(r)
		}
	}
	b.WriteByte('"')
	return b.String()
}
