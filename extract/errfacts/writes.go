// writes.go — which struct fields a function of the module can write, transitively through the calls it makes
// (used by sizefacts.go: a call forgets exactly the fields its callee can write under the variables it gets).
//
//	direct       every field on the path of an assignment / ++ / -- target, of an address-of operand, of the first
//	             argument of copy / delete / clear — in the body and in the function literals inside it
//	calls        a function or method of the module: its own set; a method called through an interface: the union over the
//	             module's methods of that name; a function outside the module: nothing (it cannot name the module's fields;
//	             callbacks into the module go through interfaces / function values); a function VALUE: everything
//
// Fields are named by the position of their declaration and functions by their full name (each package is type-checked
// on its own, so objects of another package are not identical to the ones of that package's own check).
// `szMutable`: the fields written anywhere in the module; a field that is only ever set in composite literals keeps its
// value for the lifetime of the object.
package main

import (
	"go/ast"
	"go/token"
	"go/types"
	"strings"
)

type wset struct {
	all    bool
	fields map[string]bool
	calls  map[string]bool // full names of module functions
	byName map[string]bool // methods called through an interface
}

var (
	szWrites   = map[string]*wset{}
	szMutable  = map[string]bool{}
	szByMethod = map[string][]string{} // method name -> full names of the module's methods
	szModule   string
)

func fieldKey(v *types.Var) string { return fset.Position(v.Pos()).String() }

// lhsFields: the fields on the path of an assignable expression
func lhsFields(info *types.Info, e ast.Expr, out map[string]bool) {
	for {
		switch x := e.(type) {
		case *ast.ParenExpr:
			e = x.X
		case *ast.StarExpr:
			e = x.X
		case *ast.IndexExpr:
			e = x.X
		case *ast.SliceExpr:
			e = x.X
		case *ast.SelectorExpr:
			if s := info.Selections[x]; s != nil && s.Kind() == types.FieldVal {
				if v, ok := s.Obj().(*types.Var); ok {
					out[fieldKey(v)] = true
				}
			}
			e = x.X
		default:
			return
		}
	}
}

func inModule(p *types.Package) bool {
	return p != nil && strings.HasPrefix(p.Path(), szModule)
}

// callee: what a call can run: full names of module functions, method names called through an interface, or "anything"
func callee(info *types.Info, x *ast.CallExpr) (names []string, byName []string, anything bool) {
	if tv, ok := info.Types[x.Fun]; ok && (tv.IsType() || tv.IsBuiltin()) {
		return
	}
	switch f := ast.Unparen(x.Fun).(type) {
	case *ast.Ident:
		switch o := info.Uses[f].(type) {
		case *types.Func:
			if inModule(o.Pkg()) {
				names = append(names, o.FullName())
			}
			return
		case nil:
			return
		default:
			_ = o
			return nil, nil, true // a function value
		}
	case *ast.SelectorExpr:
		if s := info.Selections[f]; s != nil {
			switch s.Kind() {
			case types.MethodVal:
				fn := s.Obj().(*types.Func)
				if _, isIface := s.Recv().Underlying().(*types.Interface); isIface {
					if inModule(fn.Pkg()) {
						byName = append(byName, fn.Name())
					}
					return
				}
				if inModule(fn.Pkg()) {
					names = append(names, fn.FullName())
				}
				return
			case types.FieldVal:
				return nil, nil, true // a function stored in a field
			}
			return nil, nil, true
		}
		if o, ok := info.Uses[f.Sel].(*types.Func); ok { // pkg.Func
			if inModule(o.Pkg()) {
				names = append(names, o.FullName())
			}
			return
		}
		return nil, nil, true
	case *ast.FuncLit:
		return // the literal's body is part of the enclosing function
	}
	return nil, nil, true
}

func computeWrites(pkgs []*Pkg, module string) {
	szModule = module
	for _, p := range pkgs {
		for _, f := range p.Files {
			for _, d := range f.Decls {
				fd, ok := d.(*ast.FuncDecl)
				if !ok {
					continue
				}
				fn, _ := p.Info.Defs[fd.Name].(*types.Func)
				if fn == nil {
					continue
				}
				ws := &wset{fields: map[string]bool{}, calls: map[string]bool{}, byName: map[string]bool{}}
				szWrites[fn.FullName()] = ws
				if fd.Recv != nil {
					szByMethod[fn.Name()] = append(szByMethod[fn.Name()], fn.FullName())
				}
				if fd.Body == nil {
					continue
				}
				ast.Inspect(fd.Body, func(n ast.Node) bool {
					switch x := n.(type) {
					case *ast.AssignStmt:
						for _, l := range x.Lhs {
							lhsFields(p.Info, l, ws.fields)
						}
					case *ast.IncDecStmt:
						lhsFields(p.Info, x.X, ws.fields)
					case *ast.RangeStmt:
						if x.Tok == token.ASSIGN {
							if x.Key != nil {
								lhsFields(p.Info, x.Key, ws.fields)
							}
							if x.Value != nil {
								lhsFields(p.Info, x.Value, ws.fields)
							}
						}
					case *ast.UnaryExpr:
						if x.Op == token.AND {
							lhsFields(p.Info, x.X, ws.fields)
						}
					case *ast.CallExpr:
						if id, ok := ast.Unparen(x.Fun).(*ast.Ident); ok && len(x.Args) > 0 {
							if _, isB := p.Info.Uses[id].(*types.Builtin); isB && (id.Name == "copy" || id.Name == "delete" || id.Name == "clear") {
								lhsFields(p.Info, x.Args[0], ws.fields)
							}
						}
						names, byName, anything := callee(p.Info, x)
						if anything {
							ws.all = true
						}
						for _, n := range names {
							ws.calls[n] = true
						}
						for _, n := range byName {
							ws.byName[n] = true
						}
					}
					return true
				})
				for k := range ws.fields {
					szMutable[k] = true
				}
			}
		}
		// package-level variable initialisers and the like do not assign fields of existing objects
	}
	for changed := true; changed; {
		changed = false
		for _, ws := range szWrites {
			absorb := func(o *wset) {
				if o == nil || o == ws {
					return
				}
				if o.all && !ws.all {
					ws.all, changed = true, true
				}
				for k := range o.fields {
					if !ws.fields[k] {
						ws.fields[k], changed = true, true
					}
				}
			}
			for n := range ws.calls {
				absorb(szWrites[n])
			}
			for m := range ws.byName {
				for _, n := range szByMethod[m] {
					absorb(szWrites[n])
				}
			}
		}
	}
}

// writesOf: what a call can write (nil, true = anything)
func writesOf(info *types.Info, x *ast.CallExpr) (fields map[string]bool, anything bool) {
	names, byName, any := callee(info, x)
	if any {
		return nil, true
	}
	fields = map[string]bool{}
	add := func(ws *wset) bool {
		if ws == nil {
			return false
		}
		if ws.all {
			return true
		}
		for k := range ws.fields {
			fields[k] = true
		}
		return false
	}
	for _, n := range names {
		if add(szWrites[n]) {
			return nil, true
		}
	}
	for _, m := range byName {
		for _, n := range szByMethod[m] {
			if add(szWrites[n]) {
				return nil, true
			}
		}
	}
	return fields, false
}
