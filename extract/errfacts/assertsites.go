package main

// assertsites — the type-assertion part of lean/Csvq/Gen/ErrFacts.lean (property C19): one fact per UNCHECKED type
// assertion `x.(T)` (no comma-ok form, not the `x.(type)` of a type switch) in the hand-written files of lib/query,
// lib/action, lib/cli, lib/parser, lib/value, lib/json, lib/option, with its GUARD classified syntactically:
//
//	inCase     the site stands in a clause `case T:` (exactly that one type) of a type switch over the same expression;
//	afterOk    the site is dominated by a successful comma-ok test `_, ok := x.(T)` of the same expression and type
//	           (`if …; ok {`, `if !ok { return }`, `&&` / `||` chains);
//	oneOf src  the dynamic type of x is one of a known finite set, named by `src` in the table dynSources:
//	             func:<f>      x is the result of f (directly, or a variable whose dominating assignment is the call):
//	                           the concrete types of f's return statements, followed through calls (value.ToInteger:
//	                           *value.Integer or *value.Null …);
//	             field:<N.F>   x is the field F of a parser node N: the concrete types parser.y's actions and every
//	                           composite literal / field assignment of the module put there (grammar contract),
//	                           "nil" when a construction leaves it out;
//	           minus what dominating tests exclude: `!value.IsNull(x)` excludes *value.Null (IsNull compares with the one
//	           *Null the package ever makes: checked here), `x != nil` excludes nil;
//	keyed src  x was fetched by NAME from a function that picks the type of its result by that name (`switch strings.ToUpper(name)
//	           { case K: val = <value> … }`, table keyedSources) and the site stands in `case K…:` of a switch over the same name;
//	unknown    anything else (with the reason).
//
// The Lean side (Props/C19Asserts.lean) checks every site against its class and pins the unknown ones one by one.

import (
	"fmt"
	"go/ast"
	goconst "go/constant"
	"go/token"
	"go/types"
	"path/filepath"
	"sort"
	"strings"
)

var assertPkgs = []string{"/lib/query", "/lib/action", "/lib/cli", "/lib/parser", "/lib/value", "/lib/json", "/lib/option"}

const dynUnknown = "?"

type assertSite struct {
	file, fn  string
	line, ord int
	expr, typ string
	guard     string // inCase afterOk oneOf unknown
	src       string
	excl      []string
	why       string
}

type asrt struct {
	pkgs     []*Pkg
	decls    map[string]declRef // by types.Func.FullName(): objects differ between a package and its importers (source importer)
	dynMemo  map[string][]string
	dynBusy  map[string]bool
	sources  map[string][]string // src → possible dynamic types
	impl     map[[2]string]bool  // (dynamic type, asserted interface type) pairs that hold
	fields   *fieldTable
	poolKeys map[types.Object]string
	keyed    map[string][][2]interface{} // src → (constant, possible types) per clause of the producer's switch
	keyedDef map[string]*keyedProducer
	sites    []assertSite
	modPath  string
}

func typeName(t types.Type) string {
	return types.TypeString(t, func(p *types.Package) string { return p.Name() })
}

func isInterface(t types.Type) bool {
	if t == nil {
		return false
	}
	_, ok := t.Underlying().(*types.Interface)
	return ok
}

// ---------------------------------------------------------------- possible dynamic types of an expression / a function

func (a *asrt) funcKey(fn *types.Func, idx int) string {
	k := "func:" + fn.FullName()
	k = strings.ReplaceAll(k, a.modPath+"/lib/", "")
	if idx > 0 {
		k += fmt.Sprintf("#%d", idx)
	}
	return k
}

func uniq(xs []string) []string {
	sort.Strings(xs)
	var out []string
	for i, x := range xs {
		if i == 0 || x != xs[i-1] {
			out = append(out, x)
		}
	}
	return out
}

// dynOfFuncOK: like dynOfFunc, counting only the return statements that hand back a nil error (the last result).
func (a *asrt) dynOfFuncOK(fn *types.Func, idx int) []string { return a.dynOfFuncMode(fn, idx, true) }

// dynOfFunc: the concrete types result #idx of fn can hold (dynUnknown in the list: not determined).
func (a *asrt) dynOfFunc(fn *types.Func, idx int) []string { return a.dynOfFuncMode(fn, idx, false) }

func (a *asrt) dynOfFuncMode(fn *types.Func, idx int, okOnly bool) []string {
	key := a.funcKey(fn, idx)
	if okOnly {
		sig := fn.Type().(*types.Signature)
		n := sig.Results().Len()
		if n < 2 || !types.Identical(sig.Results().At(n-1).Type(), types.Universe.Lookup("error").Type()) || idx == n-1 {
			return a.dynOfFunc(fn, idx)
		}
		key += "!ok"
	}
	if r, ok := a.dynMemo[key]; ok {
		return r
	}
	if a.dynBusy[key] {
		return nil // a cycle adds nothing of its own
	}
	sig := fn.Type().(*types.Signature)
	if idx >= sig.Results().Len() {
		return []string{dynUnknown}
	}
	rt := sig.Results().At(idx).Type()
	if !isInterface(rt) {
		r := []string{typeName(rt)}
		a.dynMemo[key] = r
		return r
	}
	ref, ok := a.decls[fn.FullName()]
	if !ok {
		r := []string{dynUnknown}
		a.dynMemo[key] = r
		return r
	}
	a.dynBusy[key] = true
	defer delete(a.dynBusy, key)
	var out []string
	var named types.Object
	if ref.fd.Type.Results != nil {
		k := 0
		for _, f := range ref.fd.Type.Results.List {
			for _, nm := range f.Names {
				if k == idx {
					named = ref.p.Info.Defs[nm]
				}
				k++
			}
			if len(f.Names) == 0 {
				k++
			}
		}
	}
	var path []ast.Node
	ast.Inspect(ref.fd.Body, func(n ast.Node) bool {
		if n == nil {
			path = path[:len(path)-1]
			return true
		}
		path = append(path, n)
		if _, isLit := n.(*ast.FuncLit); isLit {
			path = path[:len(path)-1]
			return false
		}
		rs, ok := n.(*ast.ReturnStmt)
		if !ok {
			return true
		}
		switch {
		case len(rs.Results) == 0:
			if named == nil {
				out = append(out, dynUnknown)
			} else {
				out = append(out, a.dynOfVar(ref, named, path)...)
			}
		case len(rs.Results) == sig.Results().Len():
			if last := rs.Results[len(rs.Results)-1]; okOnly && !isNilIdent(ref.p, last) {
				// an error return is of no interest once the caller knows err == nil: a call (a constructor of an error) or an
				// error variable inside `if err != nil {`; anything else may be nil and counts
				_, isCall := unparen(last).(*ast.CallExpr)
				id, isId := unparen(last).(*ast.Ident)
				if isCall || isId && a.errNonNilHere(ref, id, path) {
					break
				}
			}
			out = append(out, a.dynOfExpr(ref, rs.Results[idx], path)...)
		case len(rs.Results) == 1:
			// return f(…) of a multi-value function
			if ce, ok := unparen(rs.Results[0]).(*ast.CallExpr); ok {
				if cf := calleeFunc(ref.p, ce); cf != nil {
					out = append(out, a.dynOfFuncMode(cf, idx, okOnly)...)
					break
				}
			}
			out = append(out, dynUnknown)
		default:
			out = append(out, dynUnknown)
		}
		return true
	})
	out = uniq(out)
	a.dynMemo[key] = out
	return out
}

// errNonNilHere: the return statement at the end of path stands in the body of `if id != nil {` (so it returns a non-nil error).
func (a *asrt) errNonNilHere(ref declRef, id *ast.Ident, path []ast.Node) bool {
	o := ref.p.Info.Uses[id]
	for i := len(path) - 1; i >= 1; i-- {
		blk, ok := path[i].(*ast.BlockStmt)
		if !ok {
			continue
		}
		ifs, ok := path[i-1].(*ast.IfStmt)
		if !ok || ifs.Body != blk {
			continue
		}
		found := false
		var walk func(e ast.Expr)
		walk = func(e ast.Expr) {
			e = unparen(e)
			if be, ok := e.(*ast.BinaryExpr); ok {
				if be.Op == token.LAND {
					walk(be.X)
					walk(be.Y)
					return
				}
				if be.Op == token.NEQ {
					if xid, ok := unparen(be.X).(*ast.Ident); ok && ref.p.Info.Uses[xid] == o && isNilIdent(ref.p, be.Y) {
						found = true
					}
				}
			}
		}
		walk(ifs.Cond)
		if found {
			return true
		}
	}
	return false
}

func calleeFunc(p *Pkg, ce *ast.CallExpr) *types.Func {
	switch f := unparen(ce.Fun).(type) {
	case *ast.Ident:
		if o, ok := p.Info.Uses[f].(*types.Func); ok {
			return o
		}
	case *ast.SelectorExpr:
		if o, ok := p.Info.Uses[f.Sel].(*types.Func); ok {
			if sel := p.Info.Selections[f]; sel != nil && types.IsInterface(sel.Recv()) {
				return nil
			}
			return o
		}
	}
	return nil
}

// dynOfExpr: the concrete types e can hold at its place (path = the nodes enclosing it, outermost first).
func (a *asrt) dynOfExpr(ref declRef, e ast.Expr, path []ast.Node) []string {
	e = unparen(e)
	if id, ok := e.(*ast.Ident); ok {
		if _, isNilObj := ref.p.Info.Uses[id].(*types.Nil); isNilObj {
			return []string{"nil"}
		}
	}
	tv, ok := ref.p.Info.Types[e]
	if ok && tv.Type != nil && !isInterface(tv.Type) {
		return []string{typeName(tv.Type)}
	}
	switch x := e.(type) {
	case *ast.CallExpr:
		if cf := calleeFunc(ref.p, x); cf != nil {
			return a.dynOfFunc(cf, 0)
		}
		// a conversion I(x) keeps the dynamic type
		if len(x.Args) == 1 {
			if tv, ok := ref.p.Info.Types[x.Fun]; ok && tv.IsType() {
				return a.dynOfExpr(ref, x.Args[0], path)
			}
		}
	case *ast.Ident:
		o := ref.p.Info.Uses[x]
		if o == nil {
			o = ref.p.Info.Defs[x]
		}
		if v, ok := o.(*types.Var); ok && !v.IsField() {
			// inside `case T:` of a type switch over this variable
			for i := len(path) - 1; i >= 2; i-- {
				cc, ok := path[i].(*ast.CaseClause)
				if !ok {
					continue
				}
				ts, ok := path[i-2].(*ast.TypeSwitchStmt)
				if !ok {
					continue
				}
				if subj := typeSwitchSubject(ts); subj != nil {
					if sid, ok := unparen(subj).(*ast.Ident); ok && ref.p.Info.Uses[sid] == o && len(cc.List) == 1 {
						if ctv, ok := ref.p.Info.Types[cc.List[0]]; ok && ctv.IsType() && !isInterface(ctv.Type) {
							return []string{typeName(ctv.Type)}
						}
					}
				}
			}
			// inside the body of `if _, ok := x.(T); ok {`
			for i := len(path) - 1; i >= 1; i-- {
				blk, ok := path[i].(*ast.BlockStmt)
				if !ok {
					continue
				}
				ifs, ok := path[i-1].(*ast.IfStmt)
				if !ok || ifs.Body != blk || ifs.Init == nil {
					continue
				}
				as, ok := ifs.Init.(*ast.AssignStmt)
				if !ok || len(as.Lhs) != 2 || len(as.Rhs) != 1 || exprText(as.Lhs[1]) != exprText(ifs.Cond) {
					continue
				}
				ta, ok := unparen(as.Rhs[0]).(*ast.TypeAssertExpr)
				if !ok || ta.Type == nil {
					continue
				}
				if sid, ok := unparen(ta.X).(*ast.Ident); ok && ref.p.Info.Uses[sid] == o {
					if ctv, ok := ref.p.Info.Types[ta.Type]; ok && !isInterface(ctv.Type) {
						return []string{typeName(ctv.Type)}
					}
				}
			}
			if v.Pkg() != nil && v.Parent() != v.Pkg().Scope() {
				return a.dynOfVar(ref, v, path)
			}
		}
	case *ast.SelectorExpr:
		if k, ok := a.fieldKey(ref.p, x); ok {
			return a.fields.get(k)
		}
	case *ast.TypeAssertExpr:
		if x.Type != nil {
			if tv, ok := ref.p.Info.Types[x.Type]; ok && !isInterface(tv.Type) {
				return []string{typeName(tv.Type)}
			}
		}
	}
	return []string{dynUnknown}
}

func typeSwitchSubject(ts *ast.TypeSwitchStmt) ast.Expr {
	switch s := ts.Assign.(type) {
	case *ast.ExprStmt:
		if ta, ok := s.X.(*ast.TypeAssertExpr); ok {
			return ta.X
		}
	case *ast.AssignStmt:
		if len(s.Rhs) == 1 {
			if ta, ok := s.Rhs[0].(*ast.TypeAssertExpr); ok {
				return ta.X
			}
		}
	}
	return nil
}

// dynOfVar: a local variable of interface type, flow-insensitively: the union over everything assigned to it in the function
// (its zero value nil when it is declared without a value); a parameter is not determined.
func (a *asrt) dynOfVar(ref declRef, v types.Object, path []ast.Node) []string {
	key := fmt.Sprintf("var:%s@%d", v.Name(), v.Pos())
	if r, ok := a.dynMemo[key]; ok {
		return r
	}
	if a.dynBusy[key] {
		return nil
	}
	a.dynBusy[key] = true
	defer delete(a.dynBusy, key)
	// parameter?
	isParam := false
	for _, f := range ref.fd.Type.Params.List {
		for _, nm := range f.Names {
			if ref.p.Info.Defs[nm] == v {
				isParam = true
			}
		}
	}
	if ref.fd.Recv != nil {
		for _, f := range ref.fd.Recv.List {
			for _, nm := range f.Names {
				if ref.p.Info.Defs[nm] == v {
					isParam = true
				}
			}
		}
	}
	var out []string
	if isParam {
		out = append(out, dynUnknown)
	}
	found := false
	var p2 []ast.Node
	ast.Inspect(ref.fd, func(n ast.Node) bool {
		if n == nil {
			p2 = p2[:len(p2)-1]
			return true
		}
		p2 = append(p2, n)
		switch x := n.(type) {
		case *ast.AssignStmt:
			for i, l := range x.Lhs {
				id, ok := l.(*ast.Ident)
				if !ok {
					continue
				}
				o := ref.p.Info.Defs[id]
				if o == nil {
					o = ref.p.Info.Uses[id]
				}
				if o != v {
					continue
				}
				found = true
				switch {
				case len(x.Rhs) == len(x.Lhs):
					out = append(out, a.dynOfExpr(ref, x.Rhs[i], p2)...)
				case len(x.Rhs) == 1:
					if ce, ok := unparen(x.Rhs[0]).(*ast.CallExpr); ok {
						if cf := calleeFunc(ref.p, ce); cf != nil {
							out = append(out, a.dynOfFunc(cf, i)...)
							continue
						}
					}
					out = append(out, dynUnknown)
				default:
					out = append(out, dynUnknown)
				}
			}
		case *ast.ValueSpec:
			for i, id := range x.Names {
				if ref.p.Info.Defs[id] != v {
					continue
				}
				found = true
				if i < len(x.Values) && len(x.Values) == len(x.Names) {
					out = append(out, a.dynOfExpr(ref, x.Values[i], p2)...)
				} else if len(x.Values) == 0 {
					if !assignedInBothBranchesNext(ref.p, v, p2) {
						out = append(out, "nil")
					}
				} else {
					out = append(out, dynUnknown)
				}
			}
		case *ast.RangeStmt:
			for _, l := range []ast.Expr{x.Key, x.Value} {
				if id, ok := l.(*ast.Ident); ok && (ref.p.Info.Defs[id] == v || ref.p.Info.Uses[id] == v) {
					found = true
					out = append(out, dynUnknown)
				}
			}
		case *ast.UnaryExpr:
			if id, ok := x.X.(*ast.Ident); ok && x.Op == token.AND && ref.p.Info.Uses[id] == v {
				out = append(out, dynUnknown)
			}
		}
		return true
	})
	// named results start as nil
	if ref.fd.Type.Results != nil {
		for _, f := range ref.fd.Type.Results.List {
			for _, nm := range f.Names {
				if ref.p.Info.Defs[nm] == v {
					out = append(out, "nil")
					found = true
				}
			}
		}
	}
	if !found && !isParam {
		out = append(out, dynUnknown)
	}
	out = uniq(out)
	a.dynMemo[key] = out
	return out
}

// ---------------------------------------------------------------- the walker

type tfact struct {
	exact   string // the dynamic type is exactly this one ("" = not established)
	how     string // inCase | afterOk
	src     string // source of a finite set of possible types ("" = none)
	excl    []string
	baseObj types.Object
	// v, err := f(…): once `err == nil` is established only the returns of f that hand back a nil error count
	errObj  types.Object
	fn      *types.Func
	idx     int
	keyExpr string // the key the call was made with, when fn picks its result type by a name (see keyed)
}

type okBinding struct {
	key  string
	base types.Object
	typ  string
}

type facts struct {
	m  map[string]*tfact
	ok map[types.Object]okBinding
}

func (f facts) clone() facts {
	n := facts{map[string]*tfact{}, map[types.Object]okBinding{}}
	for k, v := range f.m {
		c := *v
		c.excl = append([]string{}, v.excl...)
		n.m[k] = &c
	}
	for k, v := range f.ok {
		n.ok[k] = v
	}
	return n
}

type delta struct {
	key   string
	base  types.Object
	exact string
	excl  string
	errOK types.Object // this error variable is nil
}

type asw struct {
	a      *asrt
	p      *Pkg
	fd     *ast.FuncDecl
	label  string
	ord    map[string]int
	keyCtx []keySwitch // the `switch <name> { case K…: HERE` clauses around the current point
}

type keySwitch struct {
	expr   string // the switched expression, without strings.ToUpper
	upper  bool
	consts []string
	ok     bool // every case expression of the clause is a string constant
}

func (w *asw) objOf(id *ast.Ident) types.Object {
	if o := w.p.Info.Defs[id]; o != nil {
		return o
	}
	return w.p.Info.Uses[id]
}

func (w *asw) keyOf(e ast.Expr) (string, types.Object) {
	e = unparen(e)
	var base types.Object
	ast.Inspect(e, func(n ast.Node) bool {
		if base != nil {
			return false
		}
		if id, ok := n.(*ast.Ident); ok {
			if o := w.p.Info.Uses[id]; o != nil {
				if _, isVar := o.(*types.Var); isVar {
					base = o
				}
			}
		}
		return true
	})
	k := exprText(e)
	if base != nil {
		k += fmt.Sprintf("@%d", base.Pos())
	}
	return k, base
}

func (f facts) apply(ds []delta) facts {
	if len(ds) == 0 {
		return f
	}
	n := f.clone()
	for _, d := range ds {
		if d.errOK != nil {
			for _, t := range n.m {
				if t.errObj == d.errOK && t.fn != nil && !strings.HasSuffix(t.src, "!ok") {
					t.src += "!ok"
				}
			}
			continue
		}
		t := n.m[d.key]
		if t == nil {
			t = &tfact{baseObj: d.base}
			n.m[d.key] = t
		}
		if d.exact != "" {
			t.exact, t.how = d.exact, "afterOk"
		}
		if d.excl != "" {
			t.excl = append(t.excl, d.excl)
		}
	}
	return n
}

func (w *asw) isNullCall(e ast.Expr) (ast.Expr, bool) {
	ce, ok := unparen(e).(*ast.CallExpr)
	if !ok || len(ce.Args) != 1 {
		return nil, false
	}
	cf := calleeFunc(w.p, ce)
	if cf == nil || cf.Name() != "IsNull" || cf.Pkg() == nil || !strings.HasSuffix(cf.Pkg().Path(), "/lib/value") {
		return nil, false
	}
	return ce.Args[0], true
}

// cond: what e == want establishes (conjunctive reading only).
func (w *asw) cond(e ast.Expr, want bool, f facts) []delta {
	e = unparen(e)
	switch x := e.(type) {
	case *ast.UnaryExpr:
		if x.Op == token.NOT {
			return w.cond(x.X, !want, f)
		}
	case *ast.BinaryExpr:
		switch x.Op {
		case token.LAND:
			if want {
				return append(w.cond(x.X, true, f), w.cond(x.Y, true, f)...)
			}
		case token.LOR:
			if !want {
				return append(w.cond(x.X, false, f), w.cond(x.Y, false, f)...)
			}
		case token.EQL, token.NEQ:
			var other ast.Expr
			if isNilIdent(w.p, x.Y) {
				other = x.X
			} else if isNilIdent(w.p, x.X) {
				other = x.Y
			}
			if other != nil && (x.Op == token.EQL) == want {
				// err == nil: the call that set err succeeded
				if id, ok := unparen(other).(*ast.Ident); ok {
					if o := w.p.Info.Uses[id]; o != nil && types.Identical(o.Type(), types.Universe.Lookup("error").Type()) {
						return []delta{{errOK: o}}
					}
				}
			}
			if other != nil && (x.Op == token.NEQ) == want {
				k, b := w.keyOf(other)
				return []delta{{key: k, base: b, excl: "nil"}}
			}
		}
	case *ast.CallExpr:
		if arg, ok := w.isNullCall(x); ok && !want {
			k, b := w.keyOf(arg)
			return []delta{{key: k, base: b, excl: "*value.Null"}}
		}
	case *ast.Ident:
		if o := w.p.Info.Uses[x]; o != nil && want {
			if ob, ok := f.ok[o]; ok {
				return []delta{{key: ob.key, base: ob.base, exact: ob.typ}}
			}
		}
	}
	return nil
}

func (w *asw) assignedVars(n ast.Node) map[types.Object]bool {
	out := map[types.Object]bool{}
	if n == nil {
		return out
	}
	ast.Inspect(n, func(m ast.Node) bool {
		mark := func(e ast.Expr) {
			if id := leftmostIdentAny(e); id != nil {
				o := w.p.Info.Uses[id]
				if o == nil {
					o = w.p.Info.Defs[id]
				}
				if o != nil {
					out[o] = true
				}
			}
		}
		switch x := m.(type) {
		case *ast.AssignStmt:
			for _, l := range x.Lhs {
				mark(l)
			}
		case *ast.IncDecStmt:
			mark(x.X)
		case *ast.RangeStmt:
			if x.Key != nil {
				mark(x.Key)
			}
			if x.Value != nil {
				mark(x.Value)
			}
		case *ast.UnaryExpr:
			if x.Op == token.AND {
				mark(x.X)
			}
		}
		return true
	})
	return out
}

// leftmostIdentAny: the variable an lvalue starts with (through selectors, indices, stars, parentheses).
func leftmostIdentAny(e ast.Expr) *ast.Ident {
	for {
		switch x := e.(type) {
		case *ast.Ident:
			return x
		case *ast.SelectorExpr:
			e = x.X
		case *ast.IndexExpr:
			e = x.X
		case *ast.StarExpr:
			e = x.X
		case *ast.ParenExpr:
			e = x.X
		case *ast.SliceExpr:
			e = x.X
		default:
			return nil
		}
	}
}

func (f facts) kill(vars map[types.Object]bool) facts {
	if len(vars) == 0 {
		return f
	}
	hit := false
	for _, t := range f.m {
		if t.baseObj != nil && vars[t.baseObj] {
			hit = true
		}
	}
	for o, b := range f.ok {
		if vars[o] || (b.base != nil && vars[b.base]) {
			hit = true
		}
	}
	if !hit {
		return f
	}
	n := f.clone()
	for k, t := range n.m {
		if t.baseObj != nil && vars[t.baseObj] {
			delete(n.m, k)
		}
	}
	for o, b := range n.ok {
		if vars[o] || (b.base != nil && vars[b.base]) {
			delete(n.ok, o)
		}
	}
	return n
}

func (w *asw) site(ta *ast.TypeAssertExpr, f facts) {
	ttv, ok := w.p.Info.Types[ta.Type]
	if !ok {
		fatal("%s:%d: asserted type without type information", relFile(ta.Pos()), lineOf(ta.Pos()))
	}
	typ := typeName(ttv.Type)
	key, _ := w.keyOf(ta.X)
	s := assertSite{file: relFile(ta.Pos()), fn: w.label, line: lineOf(ta.Pos()), expr: exprText(ta.X), typ: typ}
	ok2 := w.label + "\x00" + s.expr + "\x00" + typ
	w.ord[ok2]++
	s.ord = w.ord[ok2]
	t := f.m[key]
	var dyn []string
	switch {
	case t != nil && t.exact == typ:
		s.guard = t.how
	case t != nil && t.fn != nil && t.keyExpr != "" && w.keyedSite(t, &s):
	default:
		// a finite set of possible dynamic types?
		src := ""
		if t != nil && t.src != "" {
			src = t.src
		} else {
			src, dyn = w.sourceOf(ta.X)
		}
		if src == "" {
			// a local variable of interface type: everything the function ever assigns to it (flow-insensitive); the tests that
			// dominate the site and follow the last assignment still exclude
			if id, ok := unparen(ta.X).(*ast.Ident); ok {
				if v, ok := w.p.Info.Uses[id].(*types.Var); ok && !v.IsField() && v.Pkg() != nil && v.Parent() != v.Pkg().Scope() && isInterface(v.Type()) {
					ds := w.a.dynOfVar(declRef{w.p, w.fd}, v, nil)
					known := len(ds) > 0
					for _, d := range ds {
						if d == dynUnknown {
							known = false
						}
					}
					if known {
						src, dyn = fmt.Sprintf("var:%s.%s", w.label, v.Name()), ds
					}
				}
			}
		}
		if src == "" {
			s.guard, s.why = "unknown", "no type switch / comma-ok test on this expression dominates the assertion and its value does not come from a function or a parser-node field with a known set of concrete types"
			if t != nil && t.exact != "" {
				s.why = "the dominating test establishes " + t.exact
			}
			break
		}
		if dyn != nil {
			w.a.sources[src] = dyn
		}
		s.guard, s.src = "oneOf", src
		if t != nil {
			s.excl = uniq(append([]string{}, t.excl...))
		}
		// implements pairs for interface targets
		if isInterface(ttv.Type) {
			for _, d := range w.a.sources[src] {
				if dt := typeByName(w.p.Types, d); dt != nil && types.Implements(dt, ttv.Type.Underlying().(*types.Interface)) {
					w.a.impl[[2]string{d, typ}] = true
				}
			}
		}
	}
	w.a.sites = append(w.a.sites, s)
}

// typeByName: the type a name of typeName() stands for, in the type universe of pkg (itself and what it imports, transitively).
func typeByName(pkg *types.Package, n string) types.Type {
	ptr := strings.HasPrefix(n, "*")
	n = strings.TrimPrefix(n, "*")
	i := strings.IndexByte(n, '.')
	if i < 0 {
		return nil
	}
	seen := map[*types.Package]bool{}
	var find func(p *types.Package) types.Type
	find = func(p *types.Package) types.Type {
		if seen[p] {
			return nil
		}
		seen[p] = true
		if p.Name() == n[:i] {
			if o := p.Scope().Lookup(n[i+1:]); o != nil {
				if _, isType := o.(*types.TypeName); isType {
					return o.Type()
				}
			}
		}
		for _, q := range p.Imports() {
			if t := find(q); t != nil {
				return t
			}
		}
		return nil
	}
	t := find(pkg)
	if t != nil && ptr {
		return types.NewPointer(t)
	}
	return t
}

// sourceOf: x as a call result or a parser-node field.
func (w *asw) sourceOf(x ast.Expr) (string, []string) {
	x = unparen(x)
	switch e := x.(type) {
	case *ast.CallExpr:
		if k, ok := w.a.poolGet(w.p, e); ok {
			return k, w.a.sources[k]
		}
		if cf := calleeFunc(w.p, e); cf != nil {
			if _, mine := w.a.decls[cf.FullName()]; mine {
				return w.a.funcKey(cf, 0), w.a.dynOfFunc(cf, 0)
			}
		}
	case *ast.SelectorExpr:
		if k, ok := w.a.fieldKey(w.p, e); ok {
			return k, w.a.fields.get(k)
		}
	case *ast.IndexExpr:
		if k, ok := w.a.elemKey(w.p, e); ok {
			return k, w.a.fields.get(k)
		}
	}
	return "", nil
}

func (w *asw) exprs(f facts, es ...ast.Expr) {
	for _, e := range es {
		w.expr(e, f)
	}
}

func (w *asw) expr(e ast.Expr, f facts) {
	if e == nil {
		return
	}
	switch x := e.(type) {
	case *ast.BinaryExpr:
		if x.Op == token.LAND {
			w.expr(x.X, f)
			w.expr(x.Y, f.apply(w.cond(x.X, true, f)))
			return
		}
		if x.Op == token.LOR {
			w.expr(x.X, f)
			w.expr(x.Y, f.apply(w.cond(x.X, false, f)))
			return
		}
		w.expr(x.X, f)
		w.expr(x.Y, f)
	case *ast.TypeAssertExpr:
		if x.Type != nil && !skipFile(x.Pos()) {
			w.site(x, f)
		}
		w.expr(x.X, f)
	case *ast.FuncLit:
		// captured variables that are assigned anywhere in the function lose their facts
		w.stmts(x.Body.List, f.kill(w.assignedVars(w.fd)))
	case *ast.ParenExpr:
		w.expr(x.X, f)
	case *ast.CallExpr:
		w.expr(x.Fun, f)
		// m.Range(func(key, value interface{}) bool { … }) on a SyncMap wrapper / a sync.Map filled by SyncMap.store
		if kSrc, vSrc, ok := w.a.rangeSources(w.p, x); ok && len(x.Args) == 1 {
			if fl, ok := x.Args[0].(*ast.FuncLit); ok && fl.Type.Params != nil {
				g := f.kill(w.assignedVars(w.fd)).clone()
				var names []*ast.Ident
				for _, fld := range fl.Type.Params.List {
					names = append(names, fld.Names...)
				}
				for i, nm := range names {
					o := w.p.Info.Defs[nm]
					if o == nil || nm.Name == "_" || w.assignedVars(fl.Body)[o] {
						continue
					}
					src := kSrc
					if i == 1 {
						src = vSrc
					}
					if i < 2 && src != "" {
						g.m[fmt.Sprintf("%s@%d", nm.Name, o.Pos())] = &tfact{src: src, baseObj: o}
					}
				}
				w.stmts(fl.Body.List, g)
				return
			}
		}
		w.exprs(f, x.Args...)
	case *ast.SelectorExpr:
		w.expr(x.X, f)
	case *ast.IndexExpr:
		w.exprs(f, x.X, x.Index)
	case *ast.SliceExpr:
		w.exprs(f, x.X, x.Low, x.High, x.Max)
	case *ast.StarExpr:
		w.expr(x.X, f)
	case *ast.UnaryExpr:
		w.expr(x.X, f)
	case *ast.KeyValueExpr:
		w.exprs(f, x.Key, x.Value)
	case *ast.CompositeLit:
		w.exprs(f, x.Elts...)
	case *ast.Ident, *ast.BasicLit, *ast.ArrayType, *ast.MapType, *ast.FuncType, *ast.StructType, *ast.InterfaceType, *ast.ChanType, *ast.Ellipsis, *ast.IndexListExpr:
	default:
		fatal("%s:%d: expression %T (no rule)", relFile(e.Pos()), lineOf(e.Pos()), e)
	}
}

// commaOk: `v, ok := x.(T)` / `_, ok = x.(T)`.
func (w *asw) commaOk(s ast.Stmt, f facts) (facts, bool) {
	as, ok := s.(*ast.AssignStmt)
	if !ok || len(as.Lhs) != 2 || len(as.Rhs) != 1 {
		return f, false
	}
	ta, ok := unparen(as.Rhs[0]).(*ast.TypeAssertExpr)
	if !ok || ta.Type == nil {
		return f, false
	}
	okId, isId := as.Lhs[1].(*ast.Ident)
	if !isId || okId.Name == "_" {
		return f, true
	}
	o := w.p.Info.Defs[okId]
	if o == nil {
		o = w.p.Info.Uses[okId]
	}
	ttv := w.p.Info.Types[ta.Type]
	if o == nil || ttv.Type == nil {
		return f, true
	}
	k, b := w.keyOf(ta.X)
	n := f.clone()
	n.ok[o] = okBinding{k, b, typeName(ttv.Type)}
	return n, true
}

func (w *asw) stmts(list []ast.Stmt, f facts) {
	cur := f
	for _, s := range list {
		cur = w.stmt(s, cur)
	}
}

// stmt walks s under f and returns the facts that hold behind it.
func (w *asw) stmt(s ast.Stmt, f facts) facts {
	after := func(n ast.Node) facts { return f.kill(w.assignedVars(n)) }
	switch x := s.(type) {
	case nil:
		return f
	case *ast.BlockStmt:
		w.stmts(x.List, f)
		return after(x)
	case *ast.LabeledStmt:
		return w.stmt(x.Stmt, f)
	case *ast.IfStmt:
		in := f
		if x.Init != nil {
			in = w.stmt(x.Init, f)
		}
		w.expr(x.Cond, in)
		w.stmts(x.Body.List, in.apply(w.cond(x.Cond, true, in)))
		if x.Else != nil {
			w.stmt(x.Else, in.apply(w.cond(x.Cond, false, in)))
		}
		out := after(x)
		// if X == nil { X = <value of a concrete type> }: behind it X is not nil (X a field of a parser node: its table entry
		// holds the assigned type, the literal is one of the module's constructions)
		if be, ok := unparen(x.Cond).(*ast.BinaryExpr); ok && be.Op == token.EQL && isNilIdent(w.p, be.Y) && x.Else == nil && x.Init == nil && len(x.Body.List) == 1 {
			if as, ok := x.Body.List[0].(*ast.AssignStmt); ok && as.Tok == token.ASSIGN && len(as.Lhs) == 1 && len(as.Rhs) == 1 && exprText(as.Lhs[0]) == exprText(be.X) {
				if tv, ok := w.p.Info.Types[as.Rhs[0]]; ok && tv.Type != nil && !isInterface(tv.Type) {
					if se, ok := unparen(be.X).(*ast.SelectorExpr); ok {
						if k, ok := w.a.fieldKey(w.p, se); ok {
							key, b := w.keyOf(be.X)
							w.a.sources[k] = w.a.fields.get(k)
							out = out.clone()
							out.m[key] = &tfact{src: k, baseObj: b, excl: []string{"nil"}}
						}
					}
				}
			}
		}
		// what survives the statement: facts of f not killed, plus the early-exit reading
		switch {
		case blockTerminates(x.Body) && x.Else == nil:
			out = out.apply(w.filterDeltas(w.cond(x.Cond, false, in), x))
		case blockTerminates(x.Body) && x.Else != nil && !stmtTerminates(x.Else):
			out = out.apply(w.filterDeltas(w.cond(x.Cond, false, in), x))
		case x.Else != nil && stmtTerminates(x.Else) && !blockTerminates(x.Body):
			out = out.apply(w.filterDeltas(w.cond(x.Cond, true, in), x))
		}
		// an ok variable bound in the init statement stays usable behind the if when it was declared outside
		return out
	case *ast.SwitchStmt:
		in := f
		if x.Init != nil {
			in = w.stmt(x.Init, f)
		}
		w.expr(x.Tag, in)
		for _, c := range x.Body.List {
			cc := c.(*ast.CaseClause)
			w.exprs(in, cc.List...)
			here := in
			if x.Tag == nil && len(cc.List) == 1 {
				here = in.apply(w.cond(cc.List[0], true, in))
			}
			if x.Tag != nil {
				ks := keySwitch{ok: len(cc.List) > 0}
				ks.expr, ks.upper = stripToUpper(x.Tag)
				for _, e := range cc.List {
					if tv, ok := w.p.Info.Types[e]; ok && tv.Value != nil && tv.Value.Kind() == goconst.String {
						ks.consts = append(ks.consts, goconst.StringVal(tv.Value))
					} else {
						ks.ok = false
					}
				}
				w.keyCtx = append(w.keyCtx, ks)
				w.stmts(cc.Body, here)
				w.keyCtx = w.keyCtx[:len(w.keyCtx)-1]
				continue
			}
			w.stmts(cc.Body, here)
		}
		return after(x)
	case *ast.TypeSwitchStmt:
		in := f
		if x.Init != nil {
			in = w.stmt(x.Init, f)
		}
		subj := typeSwitchSubject(x)
		if subj == nil {
			fatal("%s:%d: type switch without a subject", relFile(x.Pos()), lineOf(x.Pos()))
		}
		w.expr(subj, in)
		k, b := w.keyOf(subj)
		for _, c := range x.Body.List {
			cc := c.(*ast.CaseClause)
			here := in
			if len(cc.List) == 1 {
				if ctv, ok := w.p.Info.Types[cc.List[0]]; ok && ctv.IsType() {
					here = in.clone()
					t := here.m[k]
					if t == nil {
						t = &tfact{baseObj: b}
						here.m[k] = t
					}
					t.exact, t.how = typeName(ctv.Type), "inCase"
				}
			}
			w.stmts(cc.Body, here)
		}
		return after(x)
	case *ast.SelectStmt:
		for _, c := range x.Body.List {
			cc := c.(*ast.CommClause)
			g := w.stmt(cc.Comm, f)
			w.stmts(cc.Body, g)
		}
		return after(x)
	case *ast.RangeStmt:
		w.expr(x.X, f)
		body := f.kill(w.assignedVars(x))
		// for _, v := range n.F — F a slice of interfaces of a parser node: v is one of its elements
		if vid, ok := x.Value.(*ast.Ident); ok && vid.Name != "_" {
			if se, ok := unparen(x.X).(*ast.SelectorExpr); ok {
				if k, ok := w.a.elemKeyOfSlice(w.p, se); ok {
					if o := w.objOf(vid); o != nil && !w.assignedVars(x.Body)[o] {
						w.a.sources[k] = w.a.fields.get(k)
						body = body.clone()
						body.m[fmt.Sprintf("%s@%d", vid.Name, o.Pos())] = &tfact{src: k, baseObj: o}
					}
				}
			}
		}
		w.stmts(x.Body.List, body)
		return after(x)
	case *ast.ForStmt:
		in := f
		if x.Init != nil {
			in = w.stmt(x.Init, f)
		}
		loop := in.kill(w.assignedVars(x.Body)).kill(w.assignedVars(x.Post))
		w.expr(x.Cond, loop)
		body := loop
		if x.Cond != nil {
			body = loop.apply(w.cond(x.Cond, true, loop))
		}
		w.stmts(x.Body.List, body)
		w.stmt(x.Post, loop)
		return after(x)
	case *ast.AssignStmt:
		if _, ok := w.commaOk(x, f); ok {
			ta := unparen(x.Rhs[0]).(*ast.TypeAssertExpr)
			w.expr(ta.X, f)
			g, _ := w.commaOk(x, after(x))
			return g
		}
		w.exprs(f, x.Rhs...)
		for _, l := range x.Lhs {
			if _, isId := l.(*ast.Ident); !isId {
				w.expr(l, f)
			}
		}
		out := after(x)
		// x := f(…): a finite set of possible types
		if len(x.Rhs) == 1 || len(x.Rhs) == len(x.Lhs) {
			for i, l := range x.Lhs {
				id, ok := l.(*ast.Ident)
				if !ok || id.Name == "_" {
					continue
				}
				o := w.p.Info.Defs[id]
				if o == nil {
					o = w.p.Info.Uses[id]
				}
				if o == nil || !isInterface(o.Type()) {
					continue
				}
				var rhs ast.Expr
				idx := 0
				if len(x.Rhs) == len(x.Lhs) {
					rhs = x.Rhs[i]
				} else {
					rhs, idx = x.Rhs[0], i
				}
				ce, ok := unparen(rhs).(*ast.CallExpr)
				if !ok {
					continue
				}
				if k, ok := w.a.syncLoad(w.p, ce); ok && idx == 0 {
					out = out.clone()
					out.m[fmt.Sprintf("%s@%d", id.Name, o.Pos())] = &tfact{src: k, baseObj: o}
					continue
				}
				cf := calleeFunc(w.p, ce)
				if cf == nil {
					continue
				}
				if _, mine := w.a.decls[cf.FullName()]; !mine {
					continue
				}
				src := w.a.funcKey(cf, idx)
				w.a.sources[src] = w.a.dynOfFunc(cf, idx)
				w.a.sources[src+"!ok"] = w.a.dynOfFuncOK(cf, idx)
				var errObj types.Object
				if len(x.Rhs) == 1 && len(x.Lhs) > 1 {
					if eid, ok := x.Lhs[len(x.Lhs)-1].(*ast.Ident); ok && eid.Name != "_" {
						if eo := w.objOf(eid); eo != nil && types.Identical(eo.Type(), types.Universe.Lookup("error").Type()) {
							errObj = eo
						}
					}
				}
				out = out.clone()
				out.m[fmt.Sprintf("%s@%d", id.Name, o.Pos())] = &tfact{src: src, baseObj: o, errObj: errObj, fn: cf, idx: idx, keyExpr: w.a.keyArgOf(w.p, cf, idx, ce)}
			}
		}
		return out
	case *ast.DeclStmt:
		if gd, ok := x.Decl.(*ast.GenDecl); ok {
			for _, sp := range gd.Specs {
				if vs, ok := sp.(*ast.ValueSpec); ok {
					w.exprs(f, vs.Values...)
				}
			}
		}
		return f
	case *ast.ReturnStmt:
		w.exprs(f, x.Results...)
		return f
	case *ast.ExprStmt:
		w.expr(x.X, f)
		return f
	case *ast.IncDecStmt:
		w.expr(x.X, f)
		return after(x)
	case *ast.GoStmt:
		w.expr(x.Call, f.kill(w.assignedVars(w.fd)))
		return f
	case *ast.DeferStmt:
		w.expr(x.Call, f.kill(w.assignedVars(w.fd)))
		return f
	case *ast.SendStmt:
		w.exprs(f, x.Chan, x.Value)
		return f
	case *ast.BranchStmt, *ast.EmptyStmt:
		return f
	}
	fatal("%s:%d: statement %T (no rule)", relFile(s.Pos()), lineOf(s.Pos()), s)
	return f
}

// filterDeltas: an early-exit reading only survives for expressions the statement itself does not assign.
func (w *asw) filterDeltas(ds []delta, n ast.Node) []delta {
	av := w.assignedVars(n)
	var out []delta
	for _, d := range ds {
		if d.base != nil && av[d.base] {
			continue
		}
		out = append(out, d)
	}
	return out
}

// ---------------------------------------------------------------- driver

func assertSites(pkgs []*Pkg, root string) *asrt {
	a := &asrt{pkgs: pkgs, decls: map[string]declRef{}, dynMemo: map[string][]string{}, dynBusy: map[string]bool{},
		sources: map[string][]string{}, impl: map[[2]string]bool{}, modPath: modulePath(root)}
	for _, p := range pkgs {
		for _, f := range p.Files {
			for _, dd := range f.Decls {
				if fd, ok := dd.(*ast.FuncDecl); ok && fd.Body != nil {
					if o, ok := p.Info.Defs[fd.Name].(*types.Func); ok {
						a.decls[o.FullName()] = declRef{p, fd}
					}
				}
			}
		}
	}
	a.checkNullSingleton()
	newFieldTable(a, root)
	a.containers()
	for _, p := range pkgs {
		in := false
		for _, sfx := range assertPkgs {
			if strings.HasSuffix(p.Path, sfx) {
				in = true
			}
		}
		if !in {
			continue
		}
		for _, f := range p.Files {
			for _, dd := range f.Decls {
				fd, ok := dd.(*ast.FuncDecl)
				if !ok || fd.Body == nil {
					// assertions in package-level initialisers have no rule
					ast.Inspect(dd, func(n ast.Node) bool {
						if ta, ok := n.(*ast.TypeAssertExpr); ok && ta.Type != nil && !skipFile(ta.Pos()) {
							fatal("%s:%d: type assertion outside a function (no rule)", relFile(ta.Pos()), lineOf(ta.Pos()))
						}
						return true
					})
					continue
				}
				if skipFile(fd.Pos()) {
					continue
				}
				w := &asw{a: a, p: p, fd: fd, label: pkgPrefix(p) + funcLabel(fd), ord: map[string]int{}}
				w.stmts(fd.Body.List, facts{map[string]*tfact{}, map[types.Object]okBinding{}})
			}
		}
	}
	sort.SliceStable(a.sites, func(i, j int) bool {
		x, y := a.sites[i], a.sites[j]
		if x.file != y.file {
			return x.file < y.file
		}
		return x.line < y.line
	})
	if len(a.sites) < 100 {
		fatal("only %d unchecked type assertions found (source layout changed?)", len(a.sites))
	}
	return a
}

// generated files (the goyacc parsers and the positions their //line directives map into the .y sources)
func skipFile(pos token.Pos) bool {
	b := filepath.Base(fset.PositionFor(pos, false).Filename) // the file itself, not what its //line directives say
	return b == "parser.go" || b == "query_parser.go" || b == "path_parser.go"
}

// checkNullSingleton: value.IsNull(v) is `v == null`, NewNull returns that variable, and no other *Null is ever made.
func (a *asrt) checkNullSingleton() {
	vp := findPkg(a.pkgs, "/lib/value")
	lits := 0
	for _, p := range a.pkgs {
		for _, f := range p.Files {
			ast.Inspect(f, func(n ast.Node) bool {
				cl, ok := n.(*ast.CompositeLit)
				if !ok {
					return true
				}
				if tv, ok := p.Info.Types[cl]; ok && typeName(tv.Type) == "value.Null" {
					lits++
				}
				return true
			})
		}
	}
	if lits != 1 {
		fatal("lib/value: %d composite literals of Null in the module (expected the one of `var null = &Null{}`)", lits)
	}
	want := map[string]string{"IsNull": "func IsNull(v Primary) bool {\n\treturn v == null\n}", "NewNull": "func NewNull() *Null {\n\treturn null\n}"}
	for name, text := range want {
		found := false
		for _, f := range vp.Files {
			for _, dd := range f.Decls {
				if fd, ok := dd.(*ast.FuncDecl); ok && fd.Recv == nil && fd.Name.Name == name {
					found = true
					if got := nodeText(fd); got != text {
						fatal("lib/value %s differs from its reviewed text:\n%s", name, got)
					}
				}
			}
		}
		if !found {
			fatal("lib/value: func %s not found", name)
		}
	}
}

func printAssertSites(a *asrt) {
	fmt.Println("/-- the concrete types a source can yield: `func:<f>` = the return statements of f (followed through calls), `field:<N.F>` = what parser.y's")
	fmt.Println("    actions and the module's composite literals / assignments put into field F of parser node N (\"nil\" = left out somewhere); \"?\" = not determined -/")
	fmt.Println("def dynSources : List (String × List String) := [")
	var ks []string
	used := map[string]bool{}
	for _, s := range a.sites {
		if s.src != "" {
			used[s.src] = true
		}
	}
	for k := range used {
		ks = append(ks, k)
	}
	sort.Strings(ks)
	for i, k := range ks {
		sep := ","
		if i == len(ks)-1 {
			sep = ""
		}
		fmt.Printf("  (%s, %s)%s\n", leanStr(k), strList(a.sources[k]), sep)
	}
	fmt.Println("]")
	fmt.Println()
	fmt.Println("/-- (concrete type, interface type) pairs of the sources above where the concrete type implements the asserted interface (go/types) -/")
	fmt.Println("def assertImplements : List (String × String) := [")
	var ps [][2]string
	for k := range a.impl {
		ps = append(ps, k)
	}
	sort.Slice(ps, func(i, j int) bool { return ps[i][0]+ps[i][1] < ps[j][0]+ps[j][1] })
	for i, k := range ps {
		sep := ","
		if i == len(ps)-1 {
			sep = ""
		}
		fmt.Printf("  (%s, %s)%s\n", leanStr(k[0]), leanStr(k[1]), sep)
	}
	fmt.Println("]")
	fmt.Println()
	fmt.Println("/-- functions that pick the type of their result by a NAME (`switch strings.ToUpper(name) { case K: val = <value> … }`): name constant ↦ the")
	fmt.Println("    concrete types stored under it (\"*\" = the default clause) -/")
	fmt.Println("def keyedSources : List (String × List (String × List String)) := [")
	var kk []string
	for k := range a.keyed {
		kk = append(kk, k)
	}
	sort.Strings(kk)
	for i, k := range kk {
		sep := ","
		if i == len(kk)-1 {
			sep = ""
		}
		var rows []string
		for _, r := range a.keyed[k] {
			rows = append(rows, fmt.Sprintf("(%s, %s)", leanStr(r[0].(string)), strList(r[1].([]string))))
		}
		fmt.Printf("  (%s, [%s])%s\n", leanStr(k), strings.Join(rows, ", "), sep)
	}
	fmt.Println("]")
	fmt.Println()
	fmt.Println("/-- every unchecked type assertion x.(T) of the hand-written files of lib/query, lib/action, lib/cli, lib/parser, lib/value, lib/json, lib/option:")
	fmt.Println("    ⟨file, function, line, occurrence of (x, T) in the function, x, T, guard⟩ -/")
	fmt.Println("def assertSites : List AssertSite := [")
	for i, s := range a.sites {
		sep := ","
		if i == len(a.sites)-1 {
			sep = ""
		}
		var g string
		switch s.guard {
		case "keyed":
			g = fmt.Sprintf(".keyed %s %s", leanStr(s.src), strList(s.excl))
		case "inCase", "afterOk":
			g = "." + s.guard
		case "oneOf":
			g = fmt.Sprintf(".oneOf %s %s", leanStr(s.src), strList(s.excl))
		default:
			g = ".unknown " + leanStr(s.why)
		}
		fmt.Printf("  ⟨%s, %s, %d, %d, %s, %s, %s⟩%s\n", leanStr(s.file), leanStr(s.fn), s.line, s.ord, leanStr(s.expr), leanStr(s.typ), g, sep)
	}
	fmt.Println("]")
	fmt.Println()
}

// ---------------------------------------------------------------- containers typed by their writers

// elemKeyOfSlice: `n.F` where F is a slice of interfaces of a parser node.
func (a *asrt) elemKeyOfSlice(p *Pkg, se *ast.SelectorExpr) (string, bool) {
	sel := p.Info.Selections[se]
	if sel == nil || sel.Kind() != types.FieldVal {
		return "", false
	}
	nt, _ := a.fields.parserStruct(sel.Recv())
	if nt == nil || ifaceKind(sel.Type()) != "elem" {
		return "", false
	}
	return "elem:parser." + nt.Obj().Name() + "." + se.Sel.Name, true
}

func namedOf(t types.Type) *types.Named {
	if p, ok := t.(*types.Pointer); ok {
		t = p.Elem()
	}
	n, _ := t.(*types.Named)
	return n
}

func isSyncType(t types.Type, name string) bool {
	n := namedOf(t)
	return n != nil && n.Obj().Pkg() != nil && n.Obj().Pkg().Path() == "sync" && n.Obj().Name() == name
}

// syncMapRecv: the call is `<x>.<method>(…)` of query.SyncMap (possibly promoted through a wrapper type): the wrapper's name.
func (a *asrt) syncMapRecv(p *Pkg, ce *ast.CallExpr, method string) (string, bool) {
	se, ok := unparen(ce.Fun).(*ast.SelectorExpr)
	if !ok || se.Sel.Name != method {
		return "", false
	}
	fn, ok := p.Info.Uses[se.Sel].(*types.Func)
	if !ok {
		return "", false
	}
	recv := fn.Type().(*types.Signature).Recv()
	if recv == nil {
		return "", false
	}
	rn := namedOf(recv.Type())
	if rn == nil || rn.Obj().Name() != "SyncMap" || rn.Obj().Pkg() == nil || !strings.HasSuffix(rn.Obj().Pkg().Path(), "/lib/query") {
		return "", false
	}
	tv, ok := p.Info.Types[se.X]
	if !ok {
		return "", false
	}
	wn := namedOf(tv.Type)
	if wn == nil {
		return "", false
	}
	return wn.Obj().Name(), true
}

func (a *asrt) syncLoad(p *Pkg, ce *ast.CallExpr) (string, bool) {
	w, ok := a.syncMapRecv(p, ce, "load")
	if !ok {
		return "", false
	}
	k := "syncmap:query." + w
	if _, known := a.sources[k]; !known {
		a.sources[k] = []string{dynUnknown}
	}
	return k, true
}

// rangeSources: the sources of the key and the value handed to the callback of a Range call.
func (a *asrt) rangeSources(p *Pkg, ce *ast.CallExpr) (string, string, bool) {
	if w, ok := a.syncMapRecv(p, ce, "Range"); ok {
		k := "syncmap:query." + w
		if _, known := a.sources[k]; !known {
			a.sources[k] = []string{dynUnknown}
		}
		return "syncmap.key", k, true
	}
	// m.m.Range inside SyncMap's own methods: the keys are strings, the values anything
	if se, ok := unparen(ce.Fun).(*ast.SelectorExpr); ok && se.Sel.Name == "Range" {
		if tv, ok := p.Info.Types[se.X]; ok && isSyncType(tv.Type, "Map") && exprText(se.X) == "m.m" && strings.HasSuffix(p.Path, "/lib/query") {
			return "syncmap.key", "", true
		}
	}
	return "", "", false
}

// poolGet: `P.Get()` of a sync.Pool variable P all of whose uses are P.Get() / P.Put(x).
func (a *asrt) poolGet(p *Pkg, ce *ast.CallExpr) (string, bool) {
	se, ok := unparen(ce.Fun).(*ast.SelectorExpr)
	if !ok || se.Sel.Name != "Get" || len(ce.Args) != 0 {
		return "", false
	}
	id, ok := unparen(se.X).(*ast.Ident)
	if !ok {
		return "", false
	}
	o := p.Info.Uses[id]
	if o == nil || !isSyncType(o.Type(), "Pool") {
		return "", false
	}
	k, ok := a.poolKeys[o]
	return k, ok
}

// containers: what is ever stored into the SyncMap wrappers and the sync.Pool variables of the module.
func (a *asrt) containers() {
	a.poolKeys = map[types.Object]string{}
	a.sources["syncmap.key"] = []string{"string"}
	qp := findPkg(a.pkgs, "/lib/query")
	// the only writer of SyncMap.m is SyncMap.store(key string, value interface{})
	stores := 0
	for _, f := range qp.Files {
		ast.Inspect(f, func(n ast.Node) bool {
			ce, ok := n.(*ast.CallExpr)
			if !ok {
				return true
			}
			if se, ok := unparen(ce.Fun).(*ast.SelectorExpr); ok && (se.Sel.Name == "Store" || se.Sel.Name == "LoadOrStore" || se.Sel.Name == "Swap" || se.Sel.Name == "CompareAndSwap") {
				if tv, ok := qp.Info.Types[se.X]; ok && isSyncType(tv.Type, "Map") {
					stores++
					if exprText(ce) != "m.m.Store(key, value)" {
						fatal("%s:%d: a sync.Map of lib/query is written outside SyncMap.store (no rule)", relFile(ce.Pos()), lineOf(ce.Pos()))
					}
				}
			}
			return true
		})
	}
	if stores != 1 {
		fatal("lib/query: %d writers of a sync.Map (expected SyncMap.store alone)", stores)
	}
	if got := nodeText(a.declByName(qp, "SyncMap", "store").fd); got != "func (m SyncMap) store(key string, value interface{}) {\n\tm.m.Store(key, value)\n}" {
		fatal("lib/query SyncMap.store differs from its reviewed text:\n%s", got)
	}
	for _, p := range a.pkgs {
		for _, f := range p.Files {
			var path []ast.Node
			var encl declRef
			ast.Inspect(f, func(n ast.Node) bool {
				if n == nil {
					path = path[:len(path)-1]
					return true
				}
				path = append(path, n)
				switch x := n.(type) {
				case *ast.FuncDecl:
					encl = declRef{p, x}
				case *ast.CallExpr:
					if w, ok := a.syncMapRecv(p, x, "store"); ok && len(x.Args) == 2 {
						k := "syncmap:query." + w
						var ts []string
						if encl.fd != nil {
							ts = a.dynOfExpr(encl, x.Args[1], path)
						} else {
							ts = []string{dynUnknown}
						}
						cur := a.sources[k]
						if len(cur) == 1 && cur[0] == dynUnknown {
							cur = nil
						}
						a.sources[k] = uniq(append(cur, ts...))
					}
				}
				return true
			})
		}
	}
	// sync.Pool variables
	type poolInfo struct {
		key   string
		types []string
		bad   bool
	}
	pools := map[types.Object]*poolInfo{}
	for _, p := range a.pkgs {
		for _, f := range p.Files {
			var path []ast.Node
			var encl declRef
			ast.Inspect(f, func(n ast.Node) bool {
				if n == nil {
					path = path[:len(path)-1]
					return true
				}
				path = append(path, n)
				switch x := n.(type) {
				case *ast.FuncDecl:
					encl = declRef{p, x}
				case *ast.Ident:
					o := p.Info.Defs[x]
					if o == nil {
						o = p.Info.Uses[x]
					}
					v, ok := o.(*types.Var)
					if !ok || v.IsField() || !isSyncType(v.Type(), "Pool") {
						return true
					}
					pi := pools[o]
					if pi == nil {
						pi = &poolInfo{key: fmt.Sprintf("pool:%s%s", pkgPrefix(p), v.Name())}
						if v.Parent() != v.Pkg().Scope() {
							pi.key += fmt.Sprintf("@%s", funcLabelOf(encl))
						}
						pools[o] = pi
					}
					if len(path) < 2 {
						return true
					}
					switch par := path[len(path)-2].(type) {
					case *ast.ValueSpec:
						// var P = [&]sync.Pool{New: func() interface{} { return … }}
						for i, nm := range par.Names {
							if nm != x {
								continue
							}
							if i >= len(par.Values) {
								pi.types = append(pi.types, "nil") // no New: Get may return nil
								continue
							}
							pi.types = append(pi.types, a.poolNew(p, encl, par.Values[i], path)...)
						}
					case *ast.AssignStmt:
						for i, l := range par.Lhs {
							if l == ast.Expr(x) && len(par.Rhs) == len(par.Lhs) {
								pi.types = append(pi.types, a.poolNew(p, encl, par.Rhs[i], path)...)
							} else if l == ast.Expr(x) {
								pi.bad = true
							}
						}
					case *ast.SelectorExpr:
						if par.X != ast.Expr(x) || len(path) < 3 {
							pi.bad = true
							return true
						}
						call, ok := path[len(path)-3].(*ast.CallExpr)
						if !ok || call.Fun != ast.Expr(par) {
							pi.bad = true
							return true
						}
						switch par.Sel.Name {
						case "Get":
						case "Put":
							if encl.fd != nil && len(call.Args) == 1 {
								pi.types = append(pi.types, a.dynOfExpr(encl, call.Args[0], path)...)
							} else {
								pi.bad = true
							}
						default:
							pi.bad = true
						}
					default:
						pi.bad = true // passed on, copied, compared …: other writers cannot be excluded
					}
				}
				return true
			})
		}
	}
	for o, pi := range pools {
		ts := uniq(pi.types)
		if pi.bad || len(ts) == 0 {
			ts = uniq(append(ts, dynUnknown))
		}
		a.poolKeys[o] = pi.key
		a.sources[pi.key] = ts
	}
}

func funcLabelOf(r declRef) string {
	if r.fd == nil {
		return "(package level)"
	}
	return funcLabel(r.fd)
}

// poolNew: the types the New function of a sync.Pool literal returns.
func (a *asrt) poolNew(p *Pkg, encl declRef, e ast.Expr, path []ast.Node) []string {
	e = unparen(e)
	if ue, ok := e.(*ast.UnaryExpr); ok && ue.Op == token.AND {
		e = ue.X
	}
	cl, ok := e.(*ast.CompositeLit)
	if !ok {
		return []string{dynUnknown}
	}
	var out []string
	hasNew := false
	for _, el := range cl.Elts {
		kv, ok := el.(*ast.KeyValueExpr)
		if !ok || exprText(kv.Key) != "New" {
			continue
		}
		hasNew = true
		fl, ok := kv.Value.(*ast.FuncLit)
		if !ok {
			return []string{dynUnknown}
		}
		ast.Inspect(fl.Body, func(n ast.Node) bool {
			if rs, ok := n.(*ast.ReturnStmt); ok && len(rs.Results) == 1 {
				if tv, ok := p.Info.Types[rs.Results[0]]; ok && tv.Type != nil && !isInterface(tv.Type) {
					out = append(out, typeName(tv.Type))
				} else {
					out = append(out, dynUnknown)
				}
			}
			return true
		})
	}
	if !hasNew {
		out = append(out, "nil")
	}
	return out
}

func (a *asrt) declByName(p *Pkg, recv, name string) declRef {
	for _, f := range p.Files {
		for _, dd := range f.Decls {
			if fd, ok := dd.(*ast.FuncDecl); ok && fd.Name.Name == name && fd.Body != nil {
				if recv == "" && fd.Recv == nil || recv != "" && funcLabel(fd) == recv+"."+name {
					return declRef{p, fd}
				}
			}
		}
	}
	fatal("%s: %s.%s not found", p.Dir, recv, name)
	return declRef{}
}

// assignedInBothBranchesNext: the declaration `var v T` at the end of path is directly followed by an if / else statement
// both branches of which assign v (so its zero value is never read).
func assignedInBothBranchesNext(p *Pkg, v types.Object, path []ast.Node) bool {
	var ds *ast.DeclStmt
	var blk []ast.Stmt
	for i := len(path) - 1; i >= 1; i-- {
		if d, ok := path[i].(*ast.DeclStmt); ok {
			ds = d
			switch b := path[i-1].(type) {
			case *ast.BlockStmt:
				blk = b.List
			case *ast.CaseClause:
				blk = b.Body
			}
			break
		}
	}
	if ds == nil || blk == nil {
		return false
	}
	for i, s := range blk {
		if s != ast.Stmt(ds) {
			continue
		}
		// skip further declarations
		j := i + 1
		for j < len(blk) {
			if _, ok := blk[j].(*ast.DeclStmt); !ok {
				break
			}
			j++
		}
		if j >= len(blk) {
			return false
		}
		return assignsInAllBranches(p, v, blk[j])
	}
	return false
}

func assignsInAllBranches(p *Pkg, v types.Object, s ast.Stmt) bool {
	switch x := s.(type) {
	case *ast.IfStmt:
		if x.Else == nil {
			return false
		}
		return blockAssigns(p, v, x.Body.List) && assignsInAllBranches(p, v, x.Else)
	case *ast.BlockStmt:
		return blockAssigns(p, v, x.List)
	}
	return false
}

func blockAssigns(p *Pkg, v types.Object, list []ast.Stmt) bool {
	for _, s := range list {
		if as, ok := s.(*ast.AssignStmt); ok {
			for _, l := range as.Lhs {
				if id, ok := l.(*ast.Ident); ok && p.Info.Uses[id] == v {
					return true
				}
			}
		}
		if stmtTerminates(s) {
			return true // this branch leaves the function / the loop
		}
	}
	return false
}

// ---------------------------------------------------------------- results whose type is picked by a name

// keyedProducer: f has `switch [strings.ToUpper](<param>[.<Field>]) { case K: R = <value> … }` at the top level of its body,
// R being the variable it returns as result #idx: constant K ↦ the concrete types assigned to R in that clause.
type keyedProducer struct {
	param int
	field string // "" or the field of the parameter that holds the name
	upper bool
	table map[string][]string
	order []string
}

func stripToUpper(e ast.Expr) (string, bool) {
	e = unparen(e)
	if ce, ok := e.(*ast.CallExpr); ok && len(ce.Args) == 1 && exprText(ce.Fun) == "strings.ToUpper" {
		return exprText(unparen(ce.Args[0])), true
	}
	return exprText(e), false
}

func (a *asrt) producer(fn *types.Func, idx int) *keyedProducer {
	key := a.funcKey(fn, idx)
	if a.keyedDef == nil {
		a.keyedDef = map[string]*keyedProducer{}
	}
	if kp, ok := a.keyedDef[key]; ok {
		return kp
	}
	a.keyedDef[key] = nil
	ref, ok := a.decls[fn.FullName()]
	if !ok {
		return nil
	}
	// the returned variable
	var rvar types.Object
	for _, s := range ref.fd.Body.List {
		if rs, ok := s.(*ast.ReturnStmt); ok && idx < len(rs.Results) {
			if id, ok := unparen(rs.Results[idx]).(*ast.Ident); ok {
				rvar = ref.p.Info.Uses[id]
			}
		}
	}
	if rvar == nil {
		return nil
	}
	for _, s := range ref.fd.Body.List {
		sw, ok := s.(*ast.SwitchStmt)
		if !ok || sw.Tag == nil {
			continue
		}
		text, upper := stripToUpper(sw.Tag)
		kp := &keyedProducer{param: -1, upper: upper, table: map[string][]string{}}
		k := 0
		for _, f := range ref.fd.Type.Params.List {
			for _, nm := range f.Names {
				if text == nm.Name {
					kp.param = k
				} else if strings.HasPrefix(text, nm.Name+".") && strings.Count(text, ".") == 1 {
					kp.param, kp.field = k, strings.TrimPrefix(text, nm.Name+".")
				}
				k++
			}
		}
		if kp.param < 0 {
			continue
		}
		for _, c := range sw.Body.List {
			cc := c.(*ast.CaseClause)
			var ts []string
			assigned := false
			var path []ast.Node
			for _, bs := range cc.Body {
				ast.Inspect(bs, func(n ast.Node) bool {
					if n == nil {
						path = path[:len(path)-1]
						return true
					}
					path = append(path, n)
					switch x := n.(type) {
					case *ast.AssignStmt:
						for i, l := range x.Lhs {
							if id, ok := l.(*ast.Ident); ok && ref.p.Info.Uses[id] == rvar && len(x.Rhs) == len(x.Lhs) {
								ts = append(ts, a.dynOfExpr(ref, x.Rhs[i], path)...)
								if len(path) == 1 {
									assigned = true
								}
							}
						}
					case *ast.ReturnStmt:
						// a return inside the clause that is an error return does not deliver a value of interest
					}
					return true
				})
			}
			if !assigned {
				ts = append(ts, "nil")
			}
			ts = uniq(ts)
			if cc.List == nil {
				kp.table["*"] = ts
				kp.order = append(kp.order, "*")
				continue
			}
			for _, e := range cc.List {
				tv, ok := ref.p.Info.Types[e]
				if !ok || tv.Value == nil || tv.Value.Kind() != goconst.String {
					return nil
				}
				c := goconst.StringVal(tv.Value)
				if upper && c != strings.ToUpper(c) {
					return nil
				}
				kp.table[c] = ts
				kp.order = append(kp.order, c)
			}
		}
		// the variable must not be assigned outside the switch (its declaration aside)
		outside := false
		for _, s2 := range ref.fd.Body.List {
			if s2 == s {
				continue
			}
			ast.Inspect(s2, func(n ast.Node) bool {
				if as, ok := n.(*ast.AssignStmt); ok {
					for _, l := range as.Lhs {
						if id, ok := l.(*ast.Ident); ok && (ref.p.Info.Uses[id] == rvar) {
							outside = true
						}
					}
				}
				return true
			})
		}
		if outside {
			return nil
		}
		a.keyedDef[key] = kp
		return kp
	}
	return nil
}

// keyArgOf: the expression the call hands to a keyed producer as the name ("" when fn is none).
func (a *asrt) keyArgOf(p *Pkg, fn *types.Func, idx int, ce *ast.CallExpr) string {
	kp := a.producer(fn, idx)
	if kp == nil || kp.param >= len(ce.Args) {
		return ""
	}
	arg := unparen(ce.Args[kp.param])
	if kp.field == "" {
		t, _ := stripToUpper(arg)
		return t
	}
	if cl, ok := arg.(*ast.CompositeLit); ok {
		for _, el := range cl.Elts {
			if kv, ok := el.(*ast.KeyValueExpr); ok && exprText(kv.Key) == kp.field {
				t, _ := stripToUpper(kv.Value)
				return t
			}
		}
	}
	return ""
}

// keyedSite: the site stands in `case K…:` of a switch over the name the value was fetched with.
func (w *asw) keyedSite(t *tfact, s *assertSite) bool {
	kp := w.a.producer(t.fn, t.idx)
	if kp == nil {
		return false
	}
	for i := len(w.keyCtx) - 1; i >= 0; i-- {
		ks := w.keyCtx[i]
		if ks.expr != t.keyExpr || !ks.ok {
			continue
		}
		// the producer compares the upper-cased name: the consumer must do the same or switch on the raw name with upper-case constants
		if !kp.upper && ks.upper {
			return false
		}
		for _, c := range ks.consts {
			if kp.upper && c != strings.ToUpper(c) {
				return false
			}
		}
		src := "keyed:" + strings.TrimPrefix(w.a.funcKey(t.fn, t.idx), "func:")
		if w.a.keyed == nil {
			w.a.keyed = map[string][][2]interface{}{}
		}
		if _, done := w.a.keyed[src]; !done {
			for _, c := range kp.order {
				w.a.keyed[src] = append(w.a.keyed[src], [2]interface{}{c, kp.table[c]})
			}
		}
		s.guard, s.src, s.excl = "keyed", src, ks.consts
		return true
	}
	return false
}
