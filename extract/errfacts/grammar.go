package main

// grammar — the "grammar contract" table of assertsites.go: for every interface-typed field F (and element of a slice
// of interfaces) of a struct N of lib/parser, the set of concrete types that are ever stored there:
//
//   - by the actions of lib/parser/parser.y: `$$ = N{F: $k, …}`, `$k.F = …`; the types a symbol `$k` can carry are computed
//     from the actions of its own productions (`$$ = T{…}`, `$$ = $1`, `$$ = nil`, `append(…)`, calls of functions of
//     the package) to a fixpoint; a field a literal leaves out holds nil;
//   - by every composite literal and field assignment in the non-generated, non-test Go files of the module.
//
// A value whose set cannot be determined contributes "?" (the field is then of no use as a guard).

import (
	"fmt"
	"go/ast"
	"go/parser"
	"go/token"
	"go/types"
	"os"
	"path/filepath"
	"regexp"
	"sort"
	"strconv"
	"strings"
)

type fieldTable struct {
	a      *asrt
	pp     *Pkg
	sets   map[string]map[string]bool // node → constants
	edges  map[string]map[string]bool // node ⊇ node
	solved map[string][]string
	cur    string            // where the construction being read stands (provenance, for reports)
	prov   map[string]string // node|constant → first place that contributes it
}

func newFieldTable(a *asrt, root string) *fieldTable {
	ft := &fieldTable{a: a, pp: findPkg(a.pkgs, "/lib/parser"), sets: map[string]map[string]bool{}, edges: map[string]map[string]bool{}}
	a.fields = ft
	ft.readGrammar(filepath.Join(root, "lib", "parser", "parser.y"))
	ft.readGo()
	ft.solve()
	if os.Getenv("ERRFACTS_FIELD_DEBUG") != "" {
		var ks []string
		for k, v := range ft.prov {
			if strings.HasSuffix(k, "|nil") || strings.HasSuffix(k, "|?") || os.Getenv("ERRFACTS_FIELD_DEBUG") == "all" {
				ks = append(ks, k+"  <- "+v)
			}
		}
		sort.Strings(ks)
		fmt.Fprintln(os.Stderr, strings.Join(ks, "\n"))
	}
	// what was computed about functions while the table was still empty is computed again on demand
	a.dynMemo = map[string][]string{}
	return ft
}

func (ft *fieldTable) add(node, c string) {
	if ft.prov == nil {
		ft.prov = map[string]string{}
	}
	if _, ok := ft.prov[node+"|"+c]; !ok {
		ft.prov[node+"|"+c] = ft.cur
	}
	if ft.sets[node] == nil {
		ft.sets[node] = map[string]bool{}
	}
	ft.sets[node][c] = true
}

func (ft *fieldTable) edge(node, from string) {
	if node == from {
		return
	}
	if ft.edges[node] == nil {
		ft.edges[node] = map[string]bool{}
	}
	ft.edges[node][from] = true
}

func (ft *fieldTable) solve() {
	cur := map[string]map[string]bool{}
	nodes := map[string]bool{}
	for n, s := range ft.sets {
		nodes[n] = true
		cur[n] = map[string]bool{}
		for c := range s {
			cur[n][c] = true
		}
	}
	for n, es := range ft.edges {
		nodes[n] = true
		for e := range es {
			nodes[e] = true
		}
	}
	for n := range nodes {
		if cur[n] == nil {
			cur[n] = map[string]bool{}
		}
	}
	for changed := true; changed; {
		changed = false
		for n, es := range ft.edges {
			for e := range es {
				for c := range cur[e] {
					if !cur[n][c] {
						cur[n][c] = true
						changed = true
					}
				}
			}
		}
	}
	ft.solved = map[string][]string{}
	for n, s := range cur {
		var xs []string
		for c := range s {
			xs = append(xs, c)
		}
		sort.Strings(xs)
		ft.solved[n] = xs
	}
}

// get: the set of a field / element node; a node nothing ever stores into is unknown, not empty.
func (ft *fieldTable) get(key string) []string {
	if s, ok := ft.solved[key]; ok && len(s) > 0 {
		return s
	}
	return []string{dynUnknown}
}

// parserStruct: t (or *t) is a named struct type of lib/parser.
func (ft *fieldTable) parserStruct(t types.Type) (*types.Named, *types.Struct) {
	if p, ok := t.(*types.Pointer); ok {
		t = p.Elem()
	}
	nt, ok := t.(*types.Named)
	if !ok || nt.Obj().Pkg() == nil || nt.Obj().Pkg().Path() != ft.pp.Types.Path() {
		return nil, nil
	}
	st, ok := nt.Underlying().(*types.Struct)
	if !ok {
		return nil, nil
	}
	return nt, st
}

func ifaceKind(t types.Type) string {
	if isInterface(t) {
		return "field"
	}
	if sl, ok := t.Underlying().(*types.Slice); ok && isInterface(sl.Elem()) {
		return "elem"
	}
	return ""
}

// fieldKey: the table key of a selector expression `n.F` on a parser node (fields of interface type only).
func (a *asrt) fieldKey(p *Pkg, se *ast.SelectorExpr) (string, bool) {
	sel := p.Info.Selections[se]
	if sel == nil || sel.Kind() != types.FieldVal {
		return "", false
	}
	nt, _ := a.fields.parserStruct(sel.Recv())
	if nt == nil || !isInterface(sel.Type()) {
		return "", false
	}
	return "field:parser." + nt.Obj().Name() + "." + se.Sel.Name, true
}

// elemKey: the key of `n.F[i]` where F is a slice of interfaces of a parser node.
func (a *asrt) elemKey(p *Pkg, ie *ast.IndexExpr) (string, bool) {
	se, ok := unparen(ie.X).(*ast.SelectorExpr)
	if !ok {
		return "", false
	}
	sel := p.Info.Selections[se]
	if sel == nil || sel.Kind() != types.FieldVal {
		return "", false
	}
	nt, _ := a.fields.parserStruct(sel.Recv())
	if nt == nil || ifaceKind(sel.Type()) != "elem" {
		return "", false
	}
	return "elem:parser." + nt.Obj().Name() + "." + se.Sel.Name, true
}

// ---------------------------------------------------------------- parser.y

type yRule struct {
	lhs  string
	rhs  []string
	act  string
	line int
}

var reDollarY = regexp.MustCompile(`\$(\$|[0-9]+)`)

func readY(path string) (union map[string]string, symField map[string]string, rules []yRule) {
	b, err := os.ReadFile(path)
	if err != nil {
		fatal("%v", err)
	}
	parts := strings.Split(string(b), "\n%%")
	if len(parts) < 2 {
		fatal("parser.y: no %%%% separator")
	}
	union, symField = map[string]string{}, map[string]string{}
	// %union{ field type … }
	um := regexp.MustCompile(`(?s)%union\s*\{(.*?)\n\}`).FindStringSubmatch(parts[0])
	if um == nil {
		fatal("parser.y: no %%union")
	}
	for _, l := range strings.Split(um[1], "\n") {
		f := strings.Fields(l)
		if len(f) == 2 {
			union[f[0]] = f[1]
		} else if len(f) != 0 {
			fatal("parser.y: %%union line %q (no rule)", l)
		}
	}
	for _, m := range regexp.MustCompile(`(?m)^%(?:type|token|left|right|nonassoc)\s*<(\w+)>\s*(.*)$`).FindAllStringSubmatch(parts[0], -1) {
		for _, s := range strings.Fields(m[2]) {
			symField[s] = m[1]
		}
	}
	rs := []rune(parts[1])
	baseLine := strings.Count(parts[0], "\n") + 2
	lineAt := func(i int) int { return baseLine + strings.Count(string(rs[:i]), "\n") }
	i := 0
	skip := func() {
		for i < len(rs) && (rs[i] == ' ' || rs[i] == '\t' || rs[i] == '\n' || rs[i] == '\r') {
			i++
		}
	}
	word := func() string {
		j := i
		if i < len(rs) && rs[i] == '\'' {
			i++
			for i < len(rs) && rs[i] != '\'' {
				if rs[i] == '\\' {
					i++
				}
				i++
			}
			i++
			return string(rs[j:i])
		}
		for i < len(rs) && (rs[i] == '_' || rs[i] == '%' || rs[i] >= 'a' && rs[i] <= 'z' || rs[i] >= 'A' && rs[i] <= 'Z' || rs[i] >= '0' && rs[i] <= '9') {
			i++
		}
		return string(rs[j:i])
	}
	action := func() string {
		j, depth := i, 0
		for i < len(rs) {
			switch rs[i] {
			case '{':
				depth++
			case '}':
				depth--
				if depth == 0 {
					i++
					return string(rs[j:i])
				}
			case '"', '`':
				q := rs[i]
				i++
				for i < len(rs) && rs[i] != q {
					if rs[i] == '\\' && q == '"' {
						i++
					}
					i++
				}
			case '\'':
				i++
				for i < len(rs) && rs[i] != '\'' {
					if rs[i] == '\\' {
						i++
					}
					i++
				}
			}
			i++
		}
		fatal("parser.y: unterminated action")
		return ""
	}
	lhs := ""
	var cur *yRule
	flush := func() {
		if cur != nil {
			rules = append(rules, *cur)
			cur = nil
		}
	}
	for {
		skip()
		if i >= len(rs) {
			break
		}
		switch {
		case rs[i] == ':' || rs[i] == '|':
			flush()
			i++
			cur = &yRule{lhs: lhs, line: lineAt(i)}
		case rs[i] == ';':
			flush()
			i++
		case rs[i] == '{':
			if cur == nil {
				fatal("parser.y:%d: action outside a production", lineAt(i))
			}
			if cur.act != "" {
				fatal("parser.y:%d: mid-rule or second action (no rule)", lineAt(i))
			}
			cur.line = lineAt(i)
			cur.act = action()
		case rs[i] == '%':
			w := word()
			if w == "%prec" {
				skip()
				word()
			} else if strings.HasPrefix(w, "%%") || w == "%" {
				flush()
				return
			} else {
				fatal("parser.y:%d: directive %s in the rules section (no rule)", lineAt(i), w)
			}
		default:
			w := word()
			if w == "" {
				fatal("parser.y:%d: unexpected character %q", lineAt(i), string(rs[i]))
			}
			// a name followed by ':' starts a new nonterminal
			j := i
			skip()
			if i < len(rs) && rs[i] == ':' {
				flush()
				lhs = w
				continue
			}
			i = j
			if cur == nil || cur.act != "" {
				fatal("parser.y:%d: symbol %s outside a production", lineAt(i), w)
			}
			cur.rhs = append(cur.rhs, w)
		}
	}
	flush()
	return
}

func (ft *fieldTable) unionType(field string, union map[string]string) types.Type {
	ts, ok := union[field]
	if !ok {
		fatal("parser.y: union field %s not declared", field)
	}
	tv, err := types.Eval(fset, ft.pp.Types, token.NoPos, ts)
	if err != nil {
		fatal("parser.y: union type %s: %v", ts, err)
	}
	return tv.Type
}

func (ft *fieldTable) readGrammar(path string) {
	union, symField, rules := readY(path)
	if len(rules) < 300 {
		fatal("parser.y: only %d productions read", len(rules))
	}
	symType := func(s string) types.Type {
		if strings.HasPrefix(s, "'") {
			return ft.unionType("token", union)
		}
		f, ok := symField[s]
		if !ok {
			return nil
		}
		return ft.unionType(f, union)
	}
	// node of a symbol's value: its possible dynamic types (interface) / element types (slice of interfaces)
	symNode := func(s string) (node string, constant string) {
		t := symType(s)
		if t == nil {
			return "", dynUnknown
		}
		switch ifaceKind(t) {
		case "field":
			return "nt:" + s, ""
		case "elem":
			return "ntelem:" + s, ""
		}
		return "", typeName(t)
	}
	for _, r := range rules {
		ft.cur = fmt.Sprintf("parser.y:%d (%s)", r.line, r.lhs)
		if r.act == "" {
			// default action $$ = $1
			if len(r.rhs) > 0 {
				if n, _ := symNode(r.lhs); n != "" {
					if m, c := symNode(r.rhs[0]); m != "" {
						ft.edge(n, m)
					} else {
						ft.add(n, c)
					}
				}
			}
			continue
		}
		code := reDollarY.ReplaceAllStringFunc(r.act, func(m string) string {
			if m == "$$" {
				return "yyVAL"
			}
			return "yyD" + m[1:]
		})
		f, err := parser.ParseFile(token.NewFileSet(), "action.go", "package p\nfunc _() "+code, 0)
		if err != nil {
			fatal("parser.y:%d: action of %s: %v", r.line, r.lhs, err)
		}
		ya := &yAction{ft: ft, rule: r, symNode: symNode, symType: symType, locals: map[string][]ast.Expr{}}
		body := f.Decls[0].(*ast.FuncDecl).Body
		// locals first (flow-insensitive)
		ast.Inspect(body, func(n ast.Node) bool {
			if as, ok := n.(*ast.AssignStmt); ok && len(as.Lhs) == len(as.Rhs) {
				for i, l := range as.Lhs {
					if id, ok := l.(*ast.Ident); ok && id.Name != "yyVAL" && !strings.HasPrefix(id.Name, "yyD") {
						ya.locals[id.Name] = append(ya.locals[id.Name], as.Rhs[i])
					}
				}
			}
			return true
		})
		ast.Inspect(body, func(n ast.Node) bool {
			switch x := n.(type) {
			case *ast.AssignStmt:
				for i, l := range x.Lhs {
					if len(x.Lhs) != len(x.Rhs) {
						continue
					}
					switch lx := l.(type) {
					case *ast.Ident:
						if lx.Name == "yyVAL" {
							if n, _ := symNode(r.lhs); n != "" {
								ya.flow(n, x.Rhs[i], strings.HasPrefix(n, "ntelem:"))
							}
						}
					case *ast.SelectorExpr:
						// $k.F = e / local.F = e on a concrete parser struct
						if t := ya.staticStruct(lx.X); t != nil {
							ya.fieldStore(t, lx.Sel.Name, x.Rhs[i])
						}
					}
				}
			case *ast.CompositeLit:
				ya.literal(x)
			}
			return true
		})
	}
}

type yAction struct {
	ft      *fieldTable
	rule    yRule
	symNode func(string) (string, string)
	symType func(string) types.Type
	locals  map[string][]ast.Expr
	depth   int
}

func (ya *yAction) dollar(name string) (string, bool) {
	if !strings.HasPrefix(name, "yyD") {
		return "", false
	}
	k, err := strconv.Atoi(name[3:])
	if err != nil || k < 1 || k > len(ya.rule.rhs) {
		fatal("parser.y:%d: $%s out of range in a production of %s", ya.rule.line, name[3:], ya.rule.lhs)
	}
	return ya.rule.rhs[k-1], true
}

// staticStruct: the parser struct type of `$k` / a local built by a literal, when it is one.
func (ya *yAction) staticStruct(e ast.Expr) *types.Named {
	id, ok := unparen(e).(*ast.Ident)
	if !ok {
		return nil
	}
	if s, ok := ya.dollar(id.Name); ok {
		if t := ya.symType(s); t != nil {
			nt, _ := ya.ft.parserStruct(t)
			return nt
		}
		return nil
	}
	if id.Name == "yyVAL" {
		if t := ya.symType(ya.rule.lhs); t != nil {
			nt, _ := ya.ft.parserStruct(t)
			return nt
		}
	}
	for _, r := range ya.locals[id.Name] {
		if cl, ok := unparen(r).(*ast.CompositeLit); ok {
			if tid, ok := cl.Type.(*ast.Ident); ok {
				if o := ya.ft.pp.Types.Scope().Lookup(tid.Name); o != nil {
					nt, _ := ya.ft.parserStruct(o.Type())
					return nt
				}
			}
		}
	}
	return nil
}

// flow: node ⊇ the possible types of e (elem: node is an element set and e is a list).
func (ya *yAction) flow(node string, e ast.Expr, list bool) {
	ya.depth++
	defer func() { ya.depth-- }()
	if ya.depth > 20 {
		ya.ft.add(node, dynUnknown)
		return
	}
	e = unparen(e)
	ft := ya.ft
	switch x := e.(type) {
	case *ast.Ident:
		if x.Name == "nil" {
			if !list {
				ft.add(node, "nil")
			}
			return
		}
		if s, ok := ya.dollar(x.Name); ok {
			n, c := ya.symNode(s)
			switch {
			case n == "":
				if list {
					return // a slice of concrete values
				}
				ft.add(node, c)
			case list != strings.HasPrefix(n, "ntelem:"):
				ft.add(node, dynUnknown)
			default:
				ft.edge(node, n)
			}
			return
		}
		if x.Name == "yyVAL" {
			if n, _ := ya.symNode(ya.rule.lhs); n != "" {
				ft.edge(node, n)
				return
			}
		}
		if rs, ok := ya.locals[x.Name]; ok {
			for _, r := range rs {
				ya.flow(node, r, list)
			}
			return
		}
		// a declared but never assigned local slice (`var item1 []QueryExpression`) holds nothing
		return
	case *ast.CompositeLit:
		switch t := x.Type.(type) {
		case *ast.Ident:
			if list {
				ft.add(node, dynUnknown)
				return
			}
			ft.add(node, "parser."+t.Name)
			return
		case *ast.ArrayType:
			if !list {
				ft.add(node, dynUnknown)
				return
			}
			for _, el := range x.Elts {
				ya.flow(node, el, false)
			}
			return
		}
	case *ast.CallExpr:
		if id, ok := x.Fun.(*ast.Ident); ok {
			if id.Name == "append" && list && len(x.Args) >= 1 {
				ya.flow(node, x.Args[0], true)
				for i, a := range x.Args[1:] {
					spread := x.Ellipsis.IsValid() && i == len(x.Args)-2
					ya.flow(node, a, spread)
				}
				return
			}
			if o, ok := ft.pp.Types.Scope().Lookup(id.Name).(*types.Func); ok && !list {
				for _, c := range ft.a.dynOfFunc(o, 0) {
					ft.add(node, c)
				}
				return
			}
		}
		// pkg.F(…) of a package the grammar file imports
		if se, ok := x.Fun.(*ast.SelectorExpr); ok && !list {
			if pid, ok := se.X.(*ast.Ident); ok {
				for _, q := range ft.a.pkgs {
					if q.Types.Name() == pid.Name {
						if o, ok := q.Types.Scope().Lookup(se.Sel.Name).(*types.Func); ok {
							for _, c := range ft.a.dynOfFunc(o, 0) {
								ft.add(node, c)
							}
							return
						}
					}
				}
			}
		}
	case *ast.TypeAssertExpr:
		if id, ok := x.Type.(*ast.Ident); ok && !list {
			ft.add(node, "parser."+id.Name)
			return
		}
	case *ast.SelectorExpr:
		// $k.F of a concrete parser struct
		if nt := ya.staticStruct(x.X); nt != nil {
			st := nt.Underlying().(*types.Struct)
			for i := 0; i < st.NumFields(); i++ {
				if st.Field(i).Name() == x.Sel.Name {
					switch ifaceKind(st.Field(i).Type()) {
					case "field":
						if !list {
							ft.edge(node, "field:parser."+nt.Obj().Name()+"."+x.Sel.Name)
							return
						}
					case "elem":
						if list {
							ft.edge(node, "elem:parser."+nt.Obj().Name()+"."+x.Sel.Name)
							return
						}
					default:
						if !list {
							ft.add(node, typeName(st.Field(i).Type()))
							return
						}
					}
				}
			}
		}
	}
	ft.add(node, dynUnknown)
}

func (ya *yAction) fieldStore(nt *types.Named, field string, e ast.Expr) {
	st := nt.Underlying().(*types.Struct)
	for i := 0; i < st.NumFields(); i++ {
		f := st.Field(i)
		if f.Name() != field {
			continue
		}
		switch ifaceKind(f.Type()) {
		case "field":
			ya.flow("field:parser."+nt.Obj().Name()+"."+field, e, false)
		case "elem":
			ya.flow("elem:parser."+nt.Obj().Name()+"."+field, e, true)
		}
	}
}

func (ya *yAction) literal(cl *ast.CompositeLit) {
	id, ok := cl.Type.(*ast.Ident)
	if !ok {
		return
	}
	o := ya.ft.pp.Types.Scope().Lookup(id.Name)
	if o == nil {
		return
	}
	nt, st := ya.ft.parserStruct(o.Type())
	if nt == nil {
		return
	}
	given := map[string]bool{}
	for _, el := range cl.Elts {
		kv, ok := el.(*ast.KeyValueExpr)
		if !ok {
			fatal("parser.y:%d: %s built with positional fields (no rule)", ya.rule.line, id.Name)
		}
		k := kv.Key.(*ast.Ident).Name
		given[k] = true
		ya.fieldStore(nt, k, kv.Value)
	}
	ya.ft.zeroFields(nt, st, given)
}

// zeroFields: the interface fields a literal leaves out hold nil (also inside embedded / nested parser structs left out).
func (ft *fieldTable) zeroFields(nt *types.Named, st *types.Struct, given map[string]bool) {
	for i := 0; i < st.NumFields(); i++ {
		f := st.Field(i)
		if given[f.Name()] {
			continue
		}
		switch ifaceKind(f.Type()) {
		case "field":
			ft.add("field:parser."+nt.Obj().Name()+"."+f.Name(), "nil")
		case "":
			if n2, s2 := ft.parserStruct(f.Type()); n2 != nil {
				if _, isPtr := f.Type().(*types.Pointer); !isPtr && n2.Obj().Name() != nt.Obj().Name() {
					ft.zeroFields(n2, s2, map[string]bool{})
				}
			}
		}
	}
}

// ---------------------------------------------------------------- Go code of the module

func (ft *fieldTable) readGo() {
	a := ft.a
	for _, p := range a.pkgs {
		for _, f := range p.Files {
			if skipFile(f.Pos()) {
				// the generated parser repeats parser.y's actions
				continue
			}
			var path []ast.Node
			var encl declRef
			ast.Inspect(f, func(n ast.Node) bool {
				if n == nil {
					path = path[:len(path)-1]
					return true
				}
				path = append(path, n)
				if skipFile(n.Pos()) {
					return true
				}
				ft.cur = fmt.Sprintf("%s:%d", relFile(n.Pos()), lineOf(n.Pos()))
				switch x := n.(type) {
				case *ast.FuncDecl:
					encl = declRef{p, x}
				case *ast.CompositeLit:
					tv, ok := p.Info.Types[x]
					if !ok {
						return true
					}
					nt, st := ft.parserStruct(tv.Type)
					if nt == nil {
						return true
					}
					given := map[string]bool{}
					for i, el := range x.Elts {
						var name string
						var val ast.Expr
						if kv, ok := el.(*ast.KeyValueExpr); ok {
							name, val = kv.Key.(*ast.Ident).Name, kv.Value
						} else {
							name, val = st.Field(i).Name(), el
						}
						given[name] = true
						ft.goStore(p, encl, nt, st, name, val, path)
					}
					ft.zeroFields(nt, st, given)
				case *ast.AssignStmt:
					if len(x.Lhs) != len(x.Rhs) {
						return true
					}
					for i, l := range x.Lhs {
						se, ok := unparen(l).(*ast.SelectorExpr)
						if !ok {
							continue
						}
						sel := p.Info.Selections[se]
						if sel == nil || sel.Kind() != types.FieldVal {
							continue
						}
						nt, st := ft.parserStruct(sel.Recv())
						if nt == nil {
							continue
						}
						ft.goStore(p, encl, nt, st, se.Sel.Name, x.Rhs[i], path)
					}
				case *ast.ValueSpec:
					// var x parser.N (zero value)
					if len(x.Values) == 0 && x.Type != nil {
						if tv, ok := p.Info.Types[x.Type]; ok {
							if nt, st := ft.parserStruct(tv.Type); nt != nil {
								if _, isPtr := tv.Type.(*types.Pointer); !isPtr {
									all := true
									for _, nm := range x.Names {
										if o := p.Info.Defs[nm]; o == nil || !assignedInBothBranchesNext(p, o, path) {
											all = false
										}
									}
									if !all {
										ft.zeroFields(nt, st, map[string]bool{})
									}
								}
							}
						}
					}
				case *ast.CallExpr:
					// new(parser.N)
					if id, ok := x.Fun.(*ast.Ident); ok && id.Name == "new" && len(x.Args) == 1 {
						if tv, ok := p.Info.Types[x.Args[0]]; ok {
							if nt, st := ft.parserStruct(tv.Type); nt != nil {
								ft.zeroFields(nt, st, map[string]bool{})
							}
						}
					}
				}
				return true
			})
		}
	}
}

func (ft *fieldTable) goStore(p *Pkg, encl declRef, nt *types.Named, st *types.Struct, field string, val ast.Expr, path []ast.Node) {
	for i := 0; i < st.NumFields(); i++ {
		f := st.Field(i)
		if f.Name() != field {
			continue
		}
		kind := ifaceKind(f.Type())
		if kind == "" {
			return
		}
		node := kind + ":parser." + nt.Obj().Name() + "." + field
		if kind == "field" {
			ft.goFlow(p, encl, node, val, path)
			return
		}
		// a slice of interfaces
		ft.goFlowList(p, encl, node, val, path, 0)
	}
}

func (ft *fieldTable) goFlow(p *Pkg, encl declRef, node string, val ast.Expr, path []ast.Node) {
	val = unparen(val)
	// a copy of a field of a parser node
	if se, ok := val.(*ast.SelectorExpr); ok {
		if k, ok := ft.a.fieldKeyRaw(p, se); ok {
			ft.edge(node, k)
			return
		}
	}
	if ie, ok := val.(*ast.IndexExpr); ok {
		if k, ok := ft.a.elemKeyRaw(p, ie); ok {
			ft.edge(node, k)
			return
		}
	}
	if encl.fd == nil {
		tv := p.Info.Types[val]
		if tv.Type != nil && !isInterface(tv.Type) {
			ft.add(node, typeName(tv.Type))
		} else if isNilIdent(p, val) {
			ft.add(node, "nil")
		} else {
			ft.add(node, dynUnknown)
		}
		return
	}
	for _, c := range ft.a.dynOfExpr(encl, val, path) {
		ft.add(node, c)
	}
}

func (ft *fieldTable) goFlowList(p *Pkg, encl declRef, node string, val ast.Expr, path []ast.Node, depth int) {
	val = unparen(val)
	if depth > 10 {
		ft.add(node, dynUnknown)
		return
	}
	switch x := val.(type) {
	case *ast.Ident:
		if isNilIdent(p, x) {
			return
		}
		// a local slice: everything assigned / appended to it in the function
		o := p.Info.Uses[x]
		if v, ok := o.(*types.Var); ok && encl.fd != nil && !v.IsField() && v.Parent() != v.Pkg().Scope() {
			key := fmt.Sprintf("local:%s@%d", v.Name(), v.Pos())
			ft.edge(node, key)
			if _, done := ft.sets[key+"#seen"]; done {
				return
			}
			ft.add(key+"#seen", "x")
			isParam := false
			for _, f := range encl.fd.Type.Params.List {
				for _, nm := range f.Names {
					if p.Info.Defs[nm] == v {
						isParam = true
					}
				}
			}
			if isParam {
				ft.add(key, dynUnknown)
			}
			var p2 []ast.Node
			ast.Inspect(encl.fd, func(n ast.Node) bool {
				if n == nil {
					p2 = p2[:len(p2)-1]
					return true
				}
				p2 = append(p2, n)
				switch s := n.(type) {
				case *ast.AssignStmt:
					if len(s.Lhs) != len(s.Rhs) {
						for _, l := range s.Lhs {
							if id, ok := l.(*ast.Ident); ok && (p.Info.Uses[id] == v || p.Info.Defs[id] == v) {
								ft.add(key, dynUnknown)
							}
						}
						return true
					}
					for i, l := range s.Lhs {
						switch lx := unparen(l).(type) {
						case *ast.Ident:
							if p.Info.Uses[lx] == v || p.Info.Defs[lx] == v {
								ft.goFlowList(p, encl, key, s.Rhs[i], p2, depth+1)
							}
						case *ast.IndexExpr:
							if id, ok := unparen(lx.X).(*ast.Ident); ok && p.Info.Uses[id] == v {
								ft.goFlow(p, encl, key, s.Rhs[i], p2)
							}
						}
					}
				case *ast.RangeStmt:
					for _, l := range []ast.Expr{s.Key, s.Value} {
						if id, ok := l.(*ast.Ident); ok && (p.Info.Uses[id] == v || p.Info.Defs[id] == v) {
							ft.add(key, dynUnknown)
						}
					}
				}
				return true
			})
			return
		}
	case *ast.CompositeLit:
		if _, ok := x.Type.(*ast.ArrayType); ok {
			for _, el := range x.Elts {
				if kv, ok := el.(*ast.KeyValueExpr); ok {
					el = kv.Value
				}
				ft.goFlow(p, encl, node, el, path)
			}
			return
		}
	case *ast.CallExpr:
		if id, ok := x.Fun.(*ast.Ident); ok {
			if _, isBuiltin := p.Info.Uses[id].(*types.Builtin); isBuiltin {
				switch id.Name {
				case "append":
					ft.goFlowList(p, encl, node, x.Args[0], path, depth+1)
					for i, a := range x.Args[1:] {
						if x.Ellipsis.IsValid() && i == len(x.Args)-2 {
							ft.goFlowList(p, encl, node, a, path, depth+1)
						} else {
							ft.goFlow(p, encl, node, a, path)
						}
					}
					return
				case "make":
					return // elements are stored by index assignments (handled for locals)
				}
			}
		}
	case *ast.SelectorExpr:
		if sel := p.Info.Selections[x]; sel != nil && sel.Kind() == types.FieldVal {
			if nt, _ := ft.parserStruct(sel.Recv()); nt != nil && ifaceKind(sel.Type()) == "elem" {
				ft.edge(node, "elem:parser."+nt.Obj().Name()+"."+x.Sel.Name)
				return
			}
		}
	case *ast.SliceExpr:
		ft.goFlowList(p, encl, node, x.X, path, depth+1)
		return
	}
	ft.add(node, dynUnknown)
}

// fieldKeyRaw / elemKeyRaw: like fieldKey / elemKey, usable while the table is being built.
func (a *asrt) fieldKeyRaw(p *Pkg, se *ast.SelectorExpr) (string, bool) {
	sel := p.Info.Selections[se]
	if sel == nil || sel.Kind() != types.FieldVal {
		return "", false
	}
	nt, _ := a.fields.parserStruct(sel.Recv())
	if nt == nil || !isInterface(sel.Type()) {
		return "", false
	}
	return "field:parser." + nt.Obj().Name() + "." + se.Sel.Name, true
}

func (a *asrt) elemKeyRaw(p *Pkg, ie *ast.IndexExpr) (string, bool) {
	return a.elemKey(p, ie)
}
