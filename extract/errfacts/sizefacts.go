// sizefacts.go — "size sites" of lib/query for lean/Csvq/Gen/SizeFacts.lean (property C19).
//
// A size site is an expression whose integer operand makes the Go runtime panic when it is out of range:
//
//	strings.Repeat(s, n), bytes.Repeat(b, n)      n >= 0
//	make([]T, n[, c])                             0 <= n, n <= c
//	x[i]      with an arithmetic index (+ / -)    0 <= i, i < len(x)
//	x[a:b:c]  with a non-constant bound           0 <= a, a <= b, b <= cap(x) (len(x) for strings / arrays), b <= c
//
// For every obligation of every site the generator emits the operand as a small integer IR and the FACTS that hold
// whenever control reaches the site, read off the function the site stands in by one structured walk:
//
//   - every local variable (and every field path / len(..) under it) carries an epoch; an assignment makes a new epoch,
//     `v = e` with an integer e adds the fact v' = e (v++, v += e alike; s = a + b, make, x[a:b], literals and append add the
//     fact about the new LENGTH);
//   - `if c { A } else { B }`: A is walked under c, B under the negation of c (&&, ||, ! pushed inward; a condition that is
//     not a comparison of integers is "no information", in both polarities); a branch that ends in return / continue /
//     break / panic hands nothing on (so the statements below an early return stand under its negated condition); the
//     others are joined into ONE disjunctive fact (condition, the facts found inside, new-epoch = last epoch of the branch);
//     switch = chain of if / else if (a switch with a `break` or `fallthrough` inside forgets what its clauses assign);
//   - loops: every variable assigned in the loop gets a fresh epoch at the head and again behind the loop; the condition holds
//     in the body; a range key lies in [0, len) of the ranged slice / string / integer;
//   - function literals: walked where they stand, after every variable with more than one assignment in the enclosing function
//     got a fresh epoch; a variable assigned inside a literal but declared outside, and every variable whose address is taken,
//     never gets a fact (each read is a fresh unknown);
//   - calls: a call with a pointer / interface / struct / map variable as receiver or argument gives that variable a fresh epoch
//     (its fields and lengths are forgotten), except the length accessors (methods whose body is `return len(recv.path)`
//     or another accessor: View.RecordLen, View.FieldLen, Header.Len ...), which are replaced by the len(..) they return;
//   - recorded facts: len(..) >= 0, cap(..) >= len(..), 0 <= utf8.RuneCountInString(s) <= len(s), v >= 0 for a variable that is
//     only ever assigned non-negative constants / ++ / += of such / range keys / len(..).
//
// Integers are mathematical integers (no overflow), `a / b`, `a % b`, shifts, products of two variables and every call
// without a rule are fresh unknowns.  The facts of a site are cut down to the ones that share a variable (transitively) with
// the obligation.  Nothing here decides whether an obligation holds: that is `size_sites_nonneg` in Lean (omega, for ALL
// valuations); what is not provable from these facts has to be listed, with a reason, in Csvq/Props/C19Sizes.lean.
package main

import (
	"encoding/json"
	"fmt"
	"go/ast"
	gconst "go/constant"
	"go/token"
	"go/types"
	"os"
	"path/filepath"
	"sort"
	"strings"
)

// ---------------------------------------------------------------- IR

type szExpr struct {
	op   string // "c" | "v" | "+" | "-" | "*" (k * a) | "neg"
	k    int64
	name string
	a, b *szExpr
}

type szCond struct {
	op   string // "tt" | "le" | "lt" | "eq" | "ne" | "and" | "or"
	a, b *szExpr
	l, r *szCond
}

func szC(k int64) *szExpr       { return &szExpr{op: "c", k: k} }
func szV(name string) *szExpr   { return &szExpr{op: "v", name: name} }
func szBin(op string, a, b *szExpr) *szExpr {
	if a.op == "c" && b.op == "c" {
		switch op {
		case "+":
			return szC(a.k + b.k)
		case "-":
			return szC(a.k - b.k)
		}
	}
	return &szExpr{op: op, a: a, b: b}
}

var szTT = &szCond{op: "tt"}

func szCmp(op string, a, b *szExpr) *szCond { return &szCond{op: op, a: a, b: b} }
func szAnd(l, r *szCond) *szCond {
	if l.op == "tt" {
		return r
	}
	if r.op == "tt" {
		return l
	}
	return &szCond{op: "and", l: l, r: r}
}
func szOr(l, r *szCond) *szCond {
	if l.op == "tt" || r.op == "tt" {
		return szTT
	}
	return &szCond{op: "or", l: l, r: r}
}
func szAll(cs []*szCond) *szCond {
	out := szTT
	for i := len(cs) - 1; i >= 0; i-- {
		out = szAnd(cs[i], out)
	}
	return out
}

func (e *szExpr) vars(m map[string]bool) {
	switch e.op {
	case "v":
		m[e.name] = true
	case "c":
	default:
		if e.a != nil {
			e.a.vars(m)
		}
		if e.b != nil {
			e.b.vars(m)
		}
	}
}

func (c *szCond) vars(m map[string]bool) {
	switch c.op {
	case "tt":
	case "and", "or":
		c.l.vars(m)
		c.r.vars(m)
	default:
		c.a.vars(m)
		c.b.vars(m)
	}
}

func (e *szExpr) lean(idx map[string]int) string {
	switch e.op {
	case "c":
		if e.k < 0 {
			return fmt.Sprintf("(.c (%d))", e.k)
		}
		return fmt.Sprintf("(.c %d)", e.k)
	case "v":
		return fmt.Sprintf("(.v %d)", idx[e.name])
	case "+":
		return "(.add " + e.a.lean(idx) + " " + e.b.lean(idx) + ")"
	case "-":
		return "(.sub " + e.a.lean(idx) + " " + e.b.lean(idx) + ")"
	case "*":
		if e.k < 0 {
			return fmt.Sprintf("(.mul (%d) %s)", e.k, e.a.lean(idx))
		}
		return fmt.Sprintf("(.mul %d %s)", e.k, e.a.lean(idx))
	case "neg":
		return "(.neg " + e.a.lean(idx) + ")"
	}
	fatal("sizefacts: unknown expression node %q", e.op)
	return ""
}

func (c *szCond) lean(idx map[string]int) string {
	switch c.op {
	case "tt":
		return ".tt"
	case "and":
		return "(.and " + c.l.lean(idx) + " " + c.r.lean(idx) + ")"
	case "or":
		return "(.or " + c.l.lean(idx) + " " + c.r.lean(idx) + ")"
	case "le", "lt", "eq", "ne":
		return "(." + c.op + " " + c.a.lean(idx) + " " + c.b.lean(idx) + ")"
	}
	fatal("sizefacts: unknown condition node %q", c.op)
	return ""
}

func (e *szExpr) text() string {
	switch e.op {
	case "c":
		return fmt.Sprint(e.k)
	case "v":
		return e.name
	case "+":
		return "(" + e.a.text() + " + " + e.b.text() + ")"
	case "-":
		return "(" + e.a.text() + " - " + e.b.text() + ")"
	case "*":
		return fmt.Sprintf("%d*%s", e.k, e.a.text())
	case "neg":
		return "-" + e.a.text()
	}
	return "?"
}

func (c *szCond) text() string {
	switch c.op {
	case "tt":
		return "true"
	case "and":
		return "(" + c.l.text() + " && " + c.r.text() + ")"
	case "or":
		return "(" + c.l.text() + " || " + c.r.text() + ")"
	}
	sym := map[string]string{"le": "<=", "lt": "<", "eq": "==", "ne": "!="}[c.op]
	return c.a.text() + " " + sym + " " + c.b.text()
}

// ---------------------------------------------------------------- state

// ekey: what carries an epoch — a local variable (f == "", !all), one field under a variable (f = position of the field's
// declaration: every path under the variable that goes through that field), or all written fields under a variable (all).
type ekey struct {
	o   types.Object
	f   string
	all bool
}

func rk(o types.Object) ekey { return ekey{o: o} }

type szState struct {
	epoch  map[ekey]int
	facts  []*szCond
	fpaths map[ekey][]ast.Expr // the field paths assigned under a field key (their values are joined at merges)
}

func newState() *szState { return &szState{epoch: map[ekey]int{}, fpaths: map[ekey][]ast.Expr{}} }

func (s *szState) clone() *szState {
	m := make(map[ekey]int, len(s.epoch))
	for k, v := range s.epoch {
		m[k] = v
	}
	fp := make(map[ekey][]ast.Expr, len(s.fpaths))
	for k, v := range s.fpaths {
		fp[k] = v[:len(v):len(v)]
	}
	return &szState{epoch: m, facts: s.facts[:len(s.facts):len(s.facts)], fpaths: fp}
}

func (s *szState) add(c *szCond) {
	if c.op == "tt" {
		return
	}
	if c.op == "and" {
		s.add(c.l)
		s.add(c.r)
		return
	}
	t := c.text()
	for _, f := range s.facts {
		if f == c || f.text() == t {
			return
		}
	}
	s.facts = append(s.facts, c)
}

type szSite struct {
	File  string   `json:"file"`
	Fn    string   `json:"fn"`
	Line  int      `json:"line"`
	Kind  string   `json:"kind"`  // repeat | make | index | slice
	Expr  string   `json:"expr"`  // the site, as source text
	What  string   `json:"what"`  // count | len | cap | low | high | order
	Goal  string   `json:"goal"`  // readable
	Vars  []string `json:"vars"`  // names of the IR variables, by index
	Conds []string `json:"conds"` // readable
	Flows []string `json:"flows_into,omitempty"`
	goal  *szCond
	conds []*szCond
}

type szWalker struct {
	p         *Pkg
	fn        string
	file      string
	init      map[types.Object]int
	volatile  map[types.Object]bool
	nonneg    map[types.Object]bool
	lower     map[types.Object]int64 // v >= lower[v] for the variables of nonneg
	elemSet   map[types.Object]bool  // an element x[i]… under this variable is assigned somewhere in the function
	volFields map[ekey]bool          // fields (or all written fields) under a variable that a function literal can change at any time
	nassign   map[types.Object]int
	counter   int
	sites     *[]szSite
	accessors map[*types.Func]string
	loops     *[]szLoop
	loopSites *[]szSite
	convs     *[]*szConv
	stack     []*szLoopCtx // the loops around the statement being walked (innermost last)
	label     string       // label of the statement about to be walked
	convOf    map[string]*szConv
}

func (w *szWalker) fresh() int { w.counter++; return w.counter }

func (w *szWalker) epochOf(o types.Object, st *szState) int {
	if e, ok := st.epoch[rk(o)]; ok {
		return e
	}
	if e, ok := w.init[o]; ok {
		return e
	}
	e := w.fresh()
	w.init[o] = e
	return e
}

func (w *szWalker) bump(o types.Object, st *szState) { st.epoch[rk(o)] = w.fresh() }

func (w *szWalker) bumpKey(k ekey, st *szState) { st.epoch[k] = w.fresh() }

// fieldEpoch: the epoch of a written field under a variable (0: never forgotten since the variable got its value)
func fieldEpoch(root types.Object, f string, st *szState) int {
	a, b := st.epoch[ekey{o: root, f: f}], st.epoch[ekey{o: root, all: true}]
	if a > b {
		return a
	}
	return b
}

func sortedKeys(m map[ekey]bool) []ekey {
	out := make([]ekey, 0, len(m))
	for k := range m {
		out = append(out, k)
	}
	sort.Slice(out, func(i, j int) bool {
		a, b := out[i], out[j]
		if a.o.Pos() != b.o.Pos() {
			return a.o.Pos() < b.o.Pos()
		}
		if a.o.Name() != b.o.Name() {
			return a.o.Name() < b.o.Name()
		}
		if a.all != b.all {
			return b.all
		}
		return a.f < b.f
	})
	return out
}

func (w *szWalker) freshVar(hint string) *szExpr {
	return szV(fmt.Sprintf("?%s#%d", hint, w.fresh()))
}

func (w *szWalker) obj(id *ast.Ident) types.Object {
	if o := w.p.Info.Uses[id]; o != nil {
		return o
	}
	return w.p.Info.Defs[id]
}

// localVar: a variable that is not package-level (parameters, results, receivers, locals).
func (w *szWalker) localVar(o types.Object) bool {
	v, ok := o.(*types.Var)
	if !ok || v.IsField() {
		return false
	}
	return v.Parent() != nil && v.Parent() != w.p.Types.Scope() && v.Pkg() == w.p.Types
}

// rootObj: the local variable a path expression (x, x.f.g, *x, x[i]) starts at.
func (w *szWalker) rootObj(e ast.Expr) types.Object {
	switch x := e.(type) {
	case *ast.Ident:
		o := w.obj(x)
		if o != nil && w.localVar(o) {
			return o
		}
	case *ast.ParenExpr:
		return w.rootObj(x.X)
	case *ast.StarExpr:
		return w.rootObj(x.X)
	case *ast.SelectorExpr:
		if sel := w.p.Info.Selections[x]; sel != nil && sel.Kind() == types.FieldVal {
			return w.rootObj(x.X)
		}
	case *ast.IndexExpr:
		return w.rootObj(x.X)
	}
	return nil
}

// pureName: a name for a path expression that is the same at two places exactly when no assignment / call in between
// can have changed what it denotes.
func (w *szWalker) pureName(e ast.Expr, st *szState) (string, bool) {
	switch x := e.(type) {
	case *ast.Ident:
		o := w.obj(x)
		if o == nil || !w.localVar(o) || w.volatile[o] {
			return "", false
		}
		return fmt.Sprintf("%s#%d", x.Name, w.epochOf(o, st)), true
	case *ast.ParenExpr:
		return w.pureName(x.X, st)
	case *ast.StarExpr:
		n, ok := w.pureName(x.X, st)
		return "*" + n, ok
	case *ast.SelectorExpr:
		if sel := w.p.Info.Selections[x]; sel != nil && sel.Kind() == types.FieldVal {
			n, ok := w.pureName(x.X, st)
			if !ok {
				return "", false
			}
			name := n + "." + x.Sel.Name
			if fv, isVar := sel.Obj().(*types.Var); isVar && szMutable[fieldKey(fv)] {
				if root := w.rootObj(x); root != nil {
					if w.volFields[ekey{o: root, f: fieldKey(fv)}] || w.volFields[ekey{o: root, all: true}] {
						return "", false
					}
					if e := fieldEpoch(root, fieldKey(fv), st); e > 0 {
						name += fmt.Sprintf("@%d", e)
					}
				}
			}
			return name, true
		}
	case *ast.IndexExpr:
		if o := w.rootObj(x.X); o != nil && w.elemSet[o] {
			return "", false
		}
		n, ok := w.pureName(x.X, st)
		if !ok {
			return "", false
		}
		if tv, has := w.p.Info.Types[x.Index]; has && tv.Value != nil {
			return n + "[" + tv.Value.ExactString() + "]", true
		}
		if in, ok2 := w.pureName(x.Index, st); ok2 {
			return n + "[" + in + "]", true
		}
	}
	return "", false
}

func isIntType(t types.Type) bool {
	if t == nil {
		return false
	}
	b, ok := t.Underlying().(*types.Basic)
	return ok && b.Info()&types.IsInteger != 0
}

func (w *szWalker) typeOf(e ast.Expr) types.Type {
	if tv, ok := w.p.Info.Types[e]; ok {
		return tv.Type
	}
	if id, ok := e.(*ast.Ident); ok {
		if o := w.obj(id); o != nil {
			return o.Type()
		}
	}
	return nil
}

func (w *szWalker) isBuiltin(fun ast.Expr, name string) bool {
	id, ok := ast.Unparen(fun).(*ast.Ident)
	if !ok || id.Name != name {
		return false
	}
	_, isB := w.obj(id).(*types.Builtin)
	return isB
}

// pkgFunc: fun is <pkg>.<name> of the standard library package with that import path.
func (w *szWalker) pkgFunc(fun ast.Expr, path, name string) bool {
	sel, ok := ast.Unparen(fun).(*ast.SelectorExpr)
	if !ok || sel.Sel.Name != name {
		return false
	}
	id, ok := sel.X.(*ast.Ident)
	if !ok {
		return false
	}
	pn, ok := w.obj(id).(*types.PkgName)
	return ok && pn.Imported().Path() == path
}

// lenAtom: the IR variable for len(x) / cap(x) with the recorded facts.
func (w *szWalker) lenAtom(x ast.Expr, st *szState) *szExpr {
	if tv, ok := w.p.Info.Types[x]; ok && tv.Value != nil && tv.Value.Kind() == gconst.String {
		return szC(int64(len(gconst.StringVal(tv.Value))))
	}
	if n, ok := w.pureName(x, st); ok {
		v := szV("len(" + n + ")")
		st.add(szCmp("le", szC(0), v))
		return v
	}
	v := w.freshVar("len")
	st.add(szCmp("le", szC(0), v))
	return v
}

func (w *szWalker) capAtom(x ast.Expr, st *szState) *szExpr {
	l := w.lenAtom(x, st)
	if _, isSlice := w.typeOf(x).Underlying().(*types.Slice); !isSlice {
		return l
	}
	var v *szExpr
	if n, ok := w.pureName(x, st); ok {
		v = szV("cap(" + n + ")")
	} else {
		v = w.freshVar("cap")
	}
	st.add(szCmp("le", l, v))
	return v
}

// intExpr: the IR of an integer expression (a fresh unknown where there is no rule).
func (w *szWalker) intExpr(e ast.Expr, st *szState) *szExpr {
	if tv, ok := w.p.Info.Types[e]; ok && tv.Value != nil && tv.Value.Kind() == gconst.Int {
		if k, exact := gconst.Int64Val(tv.Value); exact {
			return szC(k)
		}
		return w.freshVar("big")
	}
	switch x := e.(type) {
	case *ast.ParenExpr:
		return w.intExpr(x.X, st)
	case *ast.Ident, *ast.SelectorExpr, *ast.StarExpr, *ast.IndexExpr:
		if !isIntType(w.typeOf(e)) {
			return w.freshVar("nonint")
		}
		if n, ok := w.pureName(e, st); ok {
			v := szV(n)
			if id, isId := e.(*ast.Ident); isId && w.nonneg[w.obj(id)] {
				st.add(szCmp("le", szC(w.lower[w.obj(id)]), v))
			}
			return v
		}
		v := w.freshVar("read")
		if id, isId := e.(*ast.Ident); isId && w.nonneg[w.obj(id)] {
			st.add(szCmp("le", szC(w.lower[w.obj(id)]), v))
		}
		return v
	case *ast.UnaryExpr:
		switch x.Op {
		case token.SUB:
			return &szExpr{op: "neg", a: w.intExpr(x.X, st)}
		case token.ADD:
			return w.intExpr(x.X, st)
		}
	case *ast.BinaryExpr:
		switch x.Op {
		case token.ADD:
			return szBin("+", w.intExpr(x.X, st), w.intExpr(x.Y, st))
		case token.SUB:
			return szBin("-", w.intExpr(x.X, st), w.intExpr(x.Y, st))
		case token.MUL:
			a, b := w.intExpr(x.X, st), w.intExpr(x.Y, st)
			if a.op == "c" {
				return &szExpr{op: "*", k: a.k, a: b}
			}
			if b.op == "c" {
				return &szExpr{op: "*", k: b.k, a: a}
			}
		case token.QUO, token.REM:
			// a / c, a % c with a positive constant c: truncated division, linearised
			b := w.intExpr(x.Y, st)
			if b.op != "c" || b.k <= 0 || b.k > 1<<31 {
				break
			}
			a := w.intExpr(x.X, st)
			q := w.freshVar("quo")
			cq := &szExpr{op: "*", k: b.k, a: q}
			st.add(szOr(
				szAnd(szCmp("le", szC(0), a), szAnd(szCmp("le", cq, a), szCmp("lt", a, szBin("+", cq, szC(b.k))))),
				szAnd(szCmp("lt", a, szC(0)), szAnd(szCmp("le", a, cq), szCmp("lt", szBin("-", cq, szC(b.k)), a)))))
			if x.Op == token.QUO {
				return q
			}
			return szBin("-", a, cq)
		}
	case *ast.CallExpr:
		if len(x.Args) == 1 && w.isBuiltin(x.Fun, "len") {
			return w.lenAtom(x.Args[0], st)
		}
		if len(x.Args) == 1 && w.isBuiltin(x.Fun, "cap") {
			return w.capAtom(x.Args[0], st)
		}
		if tv, ok := w.p.Info.Types[x.Fun]; ok && tv.IsType() && len(x.Args) == 1 { // conversion
			if isIntType(tv.Type) {
				return w.conversion(x, tv.Type, st)
			}
			return w.freshVar("conv")
		}
		if len(x.Args) == 1 && (w.pkgFunc(x.Fun, "unicode/utf8", "RuneCountInString") || w.pkgFunc(x.Fun, "unicode/utf8", "RuneCount")) {
			var v *szExpr
			if n, ok := w.pureName(x.Args[0], st); ok {
				v = szV("runes(" + n + ")")
			} else {
				v = w.freshVar("runes")
			}
			st.add(szCmp("le", szC(0), v))
			st.add(szCmp("le", v, w.lenAtom(x.Args[0], st)))
			return v
		}
		if sel, ok := x.Fun.(*ast.SelectorExpr); ok && len(x.Args) == 0 {
			if s := w.p.Info.Selections[sel]; s != nil && s.Kind() == types.MethodVal {
				if szLenContracts[s.Obj().(*types.Func).FullName()] {
					v := w.freshVar("len")
					st.add(szCmp("le", szC(0), v))
					return v
				}
				if suffix, isAcc := w.accessors[s.Obj().(*types.Func)]; isAcc {
					if n, ok := w.pureName(sel.X, st); ok {
						v := szV("len(" + n + suffix + ")")
						st.add(szCmp("le", szC(0), v))
						return v
					}
					v := w.freshVar("len")
					st.add(szCmp("le", szC(0), v))
					return v
				}
			}
		}
	}
	return w.freshVar("expr")
}

var szFlip = map[token.Token]token.Token{token.EQL: token.NEQ, token.NEQ: token.EQL, token.LSS: token.GEQ, token.GEQ: token.LSS, token.GTR: token.LEQ, token.LEQ: token.GTR}

// cond: what is known when e evaluated to `pos`.
func (w *szWalker) cond(e ast.Expr, st *szState, pos bool) *szCond {
	switch x := e.(type) {
	case *ast.ParenExpr:
		return w.cond(x.X, st, pos)
	case *ast.UnaryExpr:
		if x.Op == token.NOT {
			return w.cond(x.X, st, !pos)
		}
	case *ast.BinaryExpr:
		switch x.Op {
		case token.LAND:
			if pos {
				return szAnd(w.cond(x.X, st, true), w.cond(x.Y, st, true))
			}
			return szOr(w.cond(x.X, st, false), w.cond(x.Y, st, false))
		case token.LOR:
			if pos {
				return szOr(w.cond(x.X, st, true), w.cond(x.Y, st, true))
			}
			return szAnd(w.cond(x.X, st, false), w.cond(x.Y, st, false))
		case token.EQL, token.NEQ, token.LSS, token.LEQ, token.GTR, token.GEQ:
			if !isIntType(w.typeOf(x.X)) || !isIntType(w.typeOf(x.Y)) {
				if isFloatType(w.typeOf(x.X)) || isFloatType(w.typeOf(x.Y)) {
					return w.floatCond(x, st, pos)
				}
				return szTT
			}
			op := x.Op
			if !pos {
				op = szFlip[op]
			}
			a, b := w.intExpr(x.X, st), w.intExpr(x.Y, st)
			switch op {
			case token.EQL:
				return szCmp("eq", a, b)
			case token.NEQ:
				return szCmp("ne", a, b)
			case token.LSS:
				return szCmp("lt", a, b)
			case token.LEQ:
				return szCmp("le", a, b)
			case token.GTR:
				return szCmp("lt", b, a)
			case token.GEQ:
				return szCmp("le", b, a)
			}
		}
	}
	if c, ok := e.(*ast.CallExpr); ok && len(c.Args) == 1 && w.pkgFunc(c.Fun, "math", "IsNaN") {
		f := w.floatExpr(c.Args[0], st)
		if pos {
			return szCmp("eq", f.nan, szC(1))
		}
		return szCmp("eq", f.nan, szC(0))
	}
	return szTT
}

// ---------------------------------------------------------------- sites

func (w *szWalker) emit(pos token.Pos, kind, expr, what string, goal *szCond, st *szState) {
	if goal.a.op == "c" && goal.b.op == "c" {
		ok := false
		switch goal.op {
		case "le":
			ok = goal.a.k <= goal.b.k
		case "lt":
			ok = goal.a.k < goal.b.k
		}
		if ok {
			return
		}
	}
	*w.sites = append(*w.sites, w.mkSite(pos, kind, expr, what, goal, st.facts))
}

// cone: the facts that share a variable, transitively, with the goal.
func cone(goal *szCond, facts []*szCond) ([]bool, map[string]bool) {
	vs := map[string]bool{}
	goal.vars(vs)
	used := make([]bool, len(facts))
	fvs := make([]map[string]bool, len(facts))
	for i, f := range facts {
		fvs[i] = map[string]bool{}
		f.vars(fvs[i])
	}
	for changed := true; changed; {
		changed = false
		for i := range facts {
			if used[i] {
				continue
			}
			hit := false
			for v := range fvs[i] {
				if vs[v] {
					hit = true
					break
				}
			}
			if hit {
				used[i] = true
				changed = true
				for v := range fvs[i] {
					vs[v] = true
				}
			}
		}
	}
	return used, vs
}

func arithmetic(e ast.Expr) bool {
	switch x := e.(type) {
	case *ast.ParenExpr:
		return arithmetic(x.X)
	case *ast.UnaryExpr:
		return x.Op == token.SUB || arithmetic(x.X)
	case *ast.BinaryExpr:
		return x.Op == token.ADD || x.Op == token.SUB || arithmetic(x.X) || arithmetic(x.Y)
	}
	return false
}

func (w *szWalker) isConst(e ast.Expr) bool {
	tv, ok := w.p.Info.Types[e]
	return ok && tv.Value != nil
}

// seqLen: the upper bound of an index (len) and of a slice bound (cap for slices, len otherwise); nil = not a sequence.
func (w *szWalker) seqKind(x ast.Expr) string {
	t := w.typeOf(x)
	if t == nil {
		return ""
	}
	switch u := t.Underlying().(type) {
	case *types.Slice:
		return "slice"
	case *types.Array:
		return "array"
	case *types.Basic:
		if u.Info()&types.IsString != 0 {
			return "string"
		}
	case *types.Pointer:
		if _, ok := u.Elem().Underlying().(*types.Array); ok {
			return "array"
		}
	}
	return ""
}

func (w *szWalker) siteIndex(x *ast.IndexExpr, st *szState) {
	if w.seqKind(x.X) == "" || !arithmetic(x.Index) || w.isConst(x.Index) || !isIntType(w.typeOf(x.Index)) {
		return
	}
	i := w.intExpr(x.Index, st)
	l := w.lenAtom(x.X, st)
	w.emit(x.Pos(), "index", exprText(x), "low", szCmp("le", szC(0), i), st)
	w.emit(x.Pos(), "index", exprText(x), "high", szCmp("lt", i, l), st)
}

func (w *szWalker) siteSlice(x *ast.SliceExpr, st *szState) {
	kind := w.seqKind(x.X)
	if kind == "" {
		return
	}
	nonconst := false
	for _, b := range []ast.Expr{x.Low, x.High, x.Max} {
		if b != nil && !w.isConst(b) {
			nonconst = true
		}
	}
	if !nonconst {
		return
	}
	var upper *szExpr
	if kind == "slice" {
		upper = w.capAtom(x.X, st)
	} else {
		upper = w.lenAtom(x.X, st)
	}
	lo := szC(0)
	if x.Low != nil {
		lo = w.intExpr(x.Low, st)
		w.emit(x.Pos(), "slice", exprText(x), "low", szCmp("le", szC(0), lo), st)
	}
	var hi *szExpr
	if x.High != nil {
		hi = w.intExpr(x.High, st)
	} else {
		hi = w.lenAtom(x.X, st)
	}
	w.emit(x.Pos(), "slice", exprText(x), "order", szCmp("le", lo, hi), st)
	if x.Max != nil {
		mx := w.intExpr(x.Max, st)
		w.emit(x.Pos(), "slice", exprText(x), "high", szCmp("le", hi, mx), st)
		w.emit(x.Pos(), "slice", exprText(x), "max", szCmp("le", mx, upper), st)
	} else if x.High != nil {
		w.emit(x.Pos(), "slice", exprText(x), "high", szCmp("le", hi, upper), st)
	}
}

func (w *szWalker) siteCall(x *ast.CallExpr, st *szState) {
	if (w.pkgFunc(x.Fun, "strings", "Repeat") || w.pkgFunc(x.Fun, "bytes", "Repeat")) && len(x.Args) == 2 {
		w.emit(x.Pos(), "repeat", exprText(x), "count", szCmp("le", szC(0), w.intExpr(x.Args[1], st)), st)
		return
	}
	// a function of the module that hands a parameter on, unchanged and unguarded, as a Repeat count or a make length /
	// capacity (doc.Writer.WriteSpaces, NewEmptyRecord ...): the argument of every call is the size operand
	if f := w.calleeFunc(x.Fun); f != nil {
		for _, k := range szSinkParams[f.FullName()] {
			if k < len(x.Args) && !x.Ellipsis.IsValid() {
				w.emit(x.Pos(), "call", exprText(x), fmt.Sprintf("arg%d", k), szCmp("le", szC(0), w.intExpr(x.Args[k], st)), st)
			}
		}
	}
	if w.isBuiltin(x.Fun, "make") && len(x.Args) >= 2 {
		t := w.typeOf(x.Args[0])
		if t == nil {
			return
		}
		switch t.Underlying().(type) {
		case *types.Slice, *types.Chan:
		default:
			return
		}
		n := w.intExpr(x.Args[1], st)
		w.emit(x.Pos(), "make", exprText(x), "len", szCmp("le", szC(0), n), st)
		if len(x.Args) == 3 {
			w.emit(x.Pos(), "make", exprText(x), "cap", szCmp("le", n, w.intExpr(x.Args[2], st)), st)
		}
	}
}

// callEffects: a call forgets the fields its callee can write (writes.go) under every pointer / interface / struct / map
// variable it gets as receiver or argument — everything written anywhere when the callee is a function value.
func (w *szWalker) callEffects(x *ast.CallExpr, st *szState) {
	if tv, ok := w.p.Info.Types[x.Fun]; ok && (tv.IsType() || tv.IsBuiltin()) {
		if w.isBuiltin(x.Fun, "copy") || w.isBuiltin(x.Fun, "delete") || w.isBuiltin(x.Fun, "clear") {
			// contents change, lengths of slices do not; a map's length does
			for _, a := range x.Args {
				if o := w.rootObj(a); o != nil {
					if _, isMap := w.typeOf(a).Underlying().(*types.Map); isMap {
						w.bump(o, st)
					}
				}
			}
		}
		return
	}
	fields, anything := writesOf(w.p.Info, x)
	var names []string
	for f := range fields {
		names = append(names, f)
	}
	sort.Strings(names)
	forget := func(o types.Object) {
		if anything {
			w.bumpKey(ekey{o: o, all: true}, st)
			return
		}
		for _, f := range names {
			w.bumpKey(ekey{o: o, f: f}, st)
		}
	}
	touch := func(e ast.Expr) {
		if u, ok := e.(*ast.UnaryExpr); ok && u.Op == token.AND {
			if o := w.rootObj(u.X); o != nil {
				w.bump(o, st)
			}
			return
		}
		o := w.rootObj(e)
		if o == nil {
			return
		}
		// what the callee can reach through the value it gets
		t := w.typeOf(e)
		if t == nil {
			w.bump(o, st)
			return
		}
		switch t.Underlying().(type) {
		case *types.Basic:
			return
		case *types.Slice:
			// elements may change; the caller's length and capacity cannot
			return
		case *types.Map, *types.Chan:
			w.bump(o, st) // len changes
			return
		}
		forget(o)
	}
	if sel, ok := x.Fun.(*ast.SelectorExpr); ok {
		if s := w.p.Info.Selections[sel]; s != nil && s.Kind() == types.MethodVal {
			if o := w.rootObj(sel.X); o != nil {
				switch w.typeOf(sel.X).Underlying().(type) {
				case *types.Slice, *types.Basic:
					// a method of a named slice / basic type: a pointer receiver can replace the value itself
					if sig, ok := s.Obj().Type().(*types.Signature); ok && sig.Recv() != nil {
						if _, ptr := sig.Recv().Type().(*types.Pointer); ptr {
							w.bump(o, st)
						}
					}
				case *types.Map, *types.Chan:
					w.bump(o, st)
				default:
					forget(o)
				}
			}
		}
	}
	for _, a := range x.Args {
		touch(a)
	}
}

// scan: every expression is visited once, in evaluation order, with the facts that hold there.
func (w *szWalker) scan(e ast.Expr, st *szState) {
	switch x := e.(type) {
	case nil:
	case *ast.BadExpr, *ast.Ident, *ast.BasicLit, *ast.Ellipsis,
		*ast.ArrayType, *ast.StructType, *ast.FuncType, *ast.InterfaceType, *ast.MapType, *ast.ChanType:
	case *ast.FuncLit:
		w.funcLit(x, st)
	case *ast.CompositeLit:
		for _, el := range x.Elts {
			w.scan(el, st)
		}
	case *ast.ParenExpr:
		w.scan(x.X, st)
	case *ast.SelectorExpr:
		w.scan(x.X, st)
	case *ast.IndexExpr:
		w.scan(x.X, st)
		w.scan(x.Index, st)
		w.siteIndex(x, st)
	case *ast.IndexListExpr:
		w.scan(x.X, st)
	case *ast.SliceExpr:
		w.scan(x.X, st)
		w.scan(x.Low, st)
		w.scan(x.High, st)
		w.scan(x.Max, st)
		w.siteSlice(x, st)
	case *ast.TypeAssertExpr:
		w.scan(x.X, st)
	case *ast.CallExpr:
		w.scan(x.Fun, st)
		for _, a := range x.Args {
			w.scan(a, st)
		}
		w.siteCall(x, st)
		w.callEffects(x, st)
	case *ast.StarExpr:
		w.scan(x.X, st)
	case *ast.UnaryExpr:
		w.scan(x.X, st)
	case *ast.BinaryExpr:
		if x.Op == token.LAND || x.Op == token.LOR {
			w.scan(x.X, st)
			st2 := st.clone()
			st2.add(w.cond(x.X, st2, x.Op == token.LAND))
			w.scan(x.Y, st2)
			st.epoch = st2.epoch
			return
		}
		w.scan(x.X, st)
		w.scan(x.Y, st)
	case *ast.KeyValueExpr:
		w.scan(x.Key, st)
		w.scan(x.Value, st)
	default:
		fatal("sizefacts: %s:%d: expression %T without a rule", relFile(e.Pos()), lineOf(e.Pos()), e)
	}
}

// fieldTarget: lhs is a pure field path x.a.b (no index on the way): its variable and its last field
func (w *szWalker) fieldTarget(lhs ast.Expr) (types.Object, string, bool) {
	sel, ok := ast.Unparen(lhs).(*ast.SelectorExpr)
	if !ok {
		return nil, "", false
	}
	s := w.p.Info.Selections[sel]
	if s == nil || s.Kind() != types.FieldVal {
		return nil, "", false
	}
	fv, isVar := s.Obj().(*types.Var)
	if !isVar {
		return nil, "", false
	}
	// everything in front of the last field: identifiers, fields, dereferences
	e := sel.X
	for {
		switch x := e.(type) {
		case *ast.ParenExpr:
			e = x.X
			continue
		case *ast.StarExpr:
			e = x.X
			continue
		case *ast.SelectorExpr:
			if s2 := w.p.Info.Selections[x]; s2 == nil || s2.Kind() != types.FieldVal {
				return nil, "", false
			}
			e = x.X
			continue
		case *ast.Ident:
			o := w.rootObj(x)
			if o == nil {
				return nil, "", false
			}
			return o, fieldKey(fv), true
		}
		return nil, "", false
	}
}

// assignedIn: what is assigned (or declared, or ranged over, or forgotten by a call) anywhere in the nodes, literals included.
func (w *szWalker) assignedIn(nodes ...ast.Node) map[ekey]bool {
	out := map[ekey]bool{}
	mark := func(e ast.Expr) {
		if o := w.rootObj(e); o != nil {
			if _, plain := ast.Unparen(e).(*ast.Ident); !plain {
				if isElemAssign(w, e) && w.elemSet[o] {
					return
				}
				if r, f, ok := w.fieldTarget(e); ok {
					out[ekey{o: r, f: f}] = true
					return
				}
			}
			out[rk(o)] = true
		}
	}
	for _, n := range nodes {
		if n == nil {
			continue
		}
		ast.Inspect(n, func(m ast.Node) bool {
			switch x := m.(type) {
			case *ast.AssignStmt:
				for _, l := range x.Lhs {
					mark(l)
				}
			case *ast.IncDecStmt:
				mark(x.X)
			case *ast.RangeStmt:
				if x.Key != nil {
					mark(x.Key)
				}
				if x.Value != nil {
					mark(x.Value)
				}
			case *ast.ValueSpec:
				for _, id := range x.Names {
					mark(id)
				}
			case *ast.CallExpr:
				// what the calls forget
				st := newState()
				before := w.counter
				w.callEffects(x, st)
				w.counter = before
				for k := range st.epoch {
					out[k] = true
				}
			case *ast.UnaryExpr:
				if x.Op == token.AND {
					if o := w.rootObj(x.X); o != nil {
						out[rk(o)] = true
					}
				}
			}
			return true
		})
	}
	return out
}

func sortedObjs[V any](m map[types.Object]V) []types.Object {
	out := make([]types.Object, 0, len(m))
	for o := range m {
		out = append(out, o)
	}
	sort.Slice(out, func(i, j int) bool {
		if out[i].Pos() != out[j].Pos() {
			return out[i].Pos() < out[j].Pos()
		}
		return out[i].Name() < out[j].Name()
	})
	return out
}

func (w *szWalker) funcLit(x *ast.FuncLit, st *szState) {
	in := st.clone()
	for _, o := range sortedObjs(w.nassign) {
		if w.nassign[o] > 1 {
			w.bump(o, in)
		}
	}
	// everything that hangs under a pointer may have changed by the time the literal runs (fields never written keep their value)
	forget := func(o types.Object) bool {
		if _, basic := o.Type().Underlying().(*types.Basic); basic {
			return false
		}
		_, isSlice := o.Type().Underlying().(*types.Slice)
		return !isSlice
	}
	roots := map[types.Object]bool{}
	for k := range in.epoch {
		roots[k.o] = true
	}
	for o := range w.init {
		roots[o] = true
	}
	for _, o := range sortedObjs(roots) {
		if forget(o) && w.nassign[o] <= 1 {
			switch o.Type().Underlying().(type) {
			case *types.Map, *types.Chan:
				w.bump(o, in)
			default:
				w.bumpKey(ekey{o: o, all: true}, in)
			}
		}
	}
	saved, savedStack := w.fn, w.stack
	w.fn, w.stack = saved+"/func", nil
	w.block(x.Body.List, in)
	w.fn, w.stack = saved, savedStack
	for _, k := range sortedKeys(w.assignedIn(x.Body)) {
		w.bumpKey(k, st)
	}
}

// ---------------------------------------------------------------- statements

func (w *szWalker) lenOfRHS(rhs ast.Expr, pre *szState) *szExpr {
	// pre: the state the right-hand side is read in
	switch x := ast.Unparen(rhs).(type) {
	case *ast.BasicLit:
		if x.Kind == token.STRING {
			if tv, ok := w.p.Info.Types[x]; ok && tv.Value != nil {
				return szC(int64(len(gconst.StringVal(tv.Value))))
			}
		}
	case *ast.BinaryExpr:
		if x.Op == token.ADD && w.seqKind(x) == "string" {
			var sum *szExpr
			var parts []ast.Expr
			var flat func(e ast.Expr)
			flat = func(e ast.Expr) {
				if b, ok := ast.Unparen(e).(*ast.BinaryExpr); ok && b.Op == token.ADD {
					flat(b.X)
					flat(b.Y)
					return
				}
				parts = append(parts, e)
			}
			flat(x)
			for _, p := range parts {
				pl := w.lenAtom(p, pre)
				if sum == nil {
					sum = pl
				} else {
					sum = szBin("+", sum, pl)
				}
			}
			return sum
		}
	case *ast.CallExpr:
		if w.isBuiltin(x.Fun, "make") && len(x.Args) >= 2 {
			if _, ok := w.typeOf(x.Args[0]).Underlying().(*types.Slice); ok {
				return w.intExpr(x.Args[1], pre)
			}
		} else if w.isBuiltin(x.Fun, "append") && len(x.Args) >= 1 && !x.Ellipsis.IsValid() {
			return szBin("+", w.lenAtom(x.Args[0], pre), szC(int64(len(x.Args)-1)))
		}
	case *ast.CompositeLit:
		if _, ok := w.typeOf(x).Underlying().(*types.Slice); ok {
			for _, el := range x.Elts {
				if _, kv := el.(*ast.KeyValueExpr); kv {
					return nil
				}
			}
			return szC(int64(len(x.Elts)))
		}
	case *ast.SliceExpr:
		if w.seqKind(x.X) != "" && x.Max == nil {
			lo := szC(0)
			if x.Low != nil {
				lo = w.intExpr(x.Low, pre)
			}
			var hi *szExpr
			if x.High != nil {
				hi = w.intExpr(x.High, pre)
			} else {
				hi = w.lenAtom(x.X, pre)
			}
			return szBin("-", hi, lo)
		}
	}
	return nil
}

// isElemAssign: the assigned location lies behind an index into a slice / array (x[i] = v, x.f[i].g = v): no length at or
// above the indexed container changes; what is read through an index under the same variable is never given a name
// (pureName) once the function holds such an assignment.
func isElemAssign(w *szWalker, lhs ast.Expr) bool {
	// walk from the outside in; remember the index step closest to the root
	var first *ast.IndexExpr
	e := lhs
	for {
		switch x := e.(type) {
		case *ast.ParenExpr:
			e = x.X
			continue
		case *ast.StarExpr:
			e = x.X
			continue
		case *ast.SelectorExpr:
			e = x.X
			continue
		case *ast.IndexExpr:
			first = x
			e = x.X
			continue
		}
		break
	}
	if first == nil {
		return false
	}
	k := w.seqKind(first.X)
	return k == "slice" || k == "array"
}

// assignField: x.a.b = rhs on a pure field path: only that field (under x) gets a new epoch; an integer / float value and a
// string / slice length are remembered under the new name.
func (w *szWalker) assignField(lhs, rhs ast.Expr, op token.Token, st *szState) bool {
	r, f, ok := w.fieldTarget(lhs)
	if !ok || w.volatile[r] {
		return false
	}
	pre := st.clone()
	t := w.typeOf(lhs)
	var val *szExpr
	var fval *szFloat
	var ln *szExpr
	if rhs != nil {
		switch {
		case isIntType(t):
			switch op {
			case token.ASSIGN, token.DEFINE:
				val = w.intExpr(rhs, pre)
			case token.ADD_ASSIGN:
				val = szBin("+", w.intExpr(lhs, pre), w.intExpr(rhs, pre))
			case token.SUB_ASSIGN:
				val = szBin("-", w.intExpr(lhs, pre), w.intExpr(rhs, pre))
			case token.INC:
				val = szBin("+", w.intExpr(lhs, pre), szC(1))
			case token.DEC:
				val = szBin("-", w.intExpr(lhs, pre), szC(1))
			}
		case isFloatType(t) && op == token.ASSIGN:
			fval = w.floatExpr(rhs, pre)
		case op == token.ASSIGN:
			if k := w.seqKind(lhs); k == "string" || k == "slice" {
				ln = w.lenOfRHS(rhs, pre)
			}
		}
	}
	k := ekey{o: r, f: f}
	w.bumpKey(k, st)
	addPath(st, k, lhs)
	name, named := w.pureName(lhs, st)
	if !named {
		return true
	}
	st.facts = pre.facts[:len(pre.facts):len(pre.facts)]
	switch {
	case val != nil:
		st.add(szCmp("eq", szV(name), val))
	case fval != nil:
		nv := w.floatVars(name, st)
		st.add(szCmp("eq", nv.nan, fval.nan))
		st.add(szCmp("eq", nv.fl, fval.fl))
	case ln != nil:
		v := szV("len(" + name + ")")
		st.add(szCmp("le", szC(0), v))
		st.add(szCmp("eq", v, ln))
	}
	return true
}

// assign: lhs = rhs (rhs == nil: unknown value).  `pre` is the state before the statement.
func (w *szWalker) assignOne(lhs ast.Expr, rhs ast.Expr, op token.Token, st *szState) {
	if id, ok := lhs.(*ast.Ident); ok && id.Name == "_" {
		return
	}
	o := w.rootObj(lhs)
	if o == nil {
		return
	}
	if _, plain := ast.Unparen(lhs).(*ast.Ident); !plain || w.volatile[o] {
		if !plain && isElemAssign(w, lhs) && w.elemSet[o] {
			return
		}
		if !plain && w.assignField(lhs, rhs, op, st) {
			return
		}
		w.bump(o, st)
		return
	}
	pre := st.clone()
	var val *szExpr
	if isIntType(o.Type()) && rhs != nil {
		switch op {
		case token.ASSIGN, token.DEFINE:
			val = w.intExpr(rhs, pre)
		case token.ADD_ASSIGN:
			val = szBin("+", w.intExpr(lhs, pre), w.intExpr(rhs, pre))
		case token.SUB_ASSIGN:
			val = szBin("-", w.intExpr(lhs, pre), w.intExpr(rhs, pre))
		}
	}
	var fval *szFloat
	if isFloatType(o.Type()) && rhs != nil && (op == token.ASSIGN || op == token.DEFINE) {
		fval = w.floatExpr(rhs, pre)
	}
	w.bump(o, st)
	name, _ := w.pureName(lhs, st)
	if fval != nil {
		st.facts = pre.facts[:len(pre.facts):len(pre.facts)]
		nv := w.floatVars(name, st)
		st.add(szCmp("eq", nv.nan, fval.nan))
		st.add(szCmp("eq", nv.fl, fval.fl))
		return
	}
	if val != nil {
		st.facts = pre.facts[:len(pre.facts):len(pre.facts)]
		st.add(szCmp("eq", szV(name), val))
		if w.nonneg[o] {
			st.add(szCmp("le", szC(w.lower[o]), szV(name)))
		}
		return
	}
	if rhs != nil && (op == token.ASSIGN || op == token.DEFINE) {
		switch w.seqKind(lhs) {
		case "string", "slice":
			if l := w.lenOfRHS(rhs, pre); l != nil {
				st.facts = pre.facts[:len(pre.facts):len(pre.facts)]
				v := szV("len(" + name + ")")
				st.add(szCmp("le", szC(0), v))
				st.add(szCmp("eq", v, l))
			}
		}
	}
}

func (w *szWalker) block(list []ast.Stmt, st *szState) (*szState, bool) {
	for _, s := range list {
		var term bool
		st, term = w.stmt(s, st)
		if term {
			return st, true
		}
	}
	return st, false
}

// relevant: the facts of a list that share a variable, transitively, with the named one.
func relevant(facts []*szCond, name string) []*szCond {
	used, _ := cone(szCmp("le", szV(name), szV(name)), facts)
	var out []*szCond
	for i, f := range facts {
		if used[i] {
			out = append(out, f)
		}
	}
	return out
}

// merge: the state behind a branching statement whose open ends are `ends` (all started as clones of pre).
func addPath(st *szState, k ekey, e ast.Expr) {
	t := exprText(e)
	for _, p := range st.fpaths[k] {
		if exprText(p) == t {
			return
		}
	}
	st.fpaths[k] = append(st.fpaths[k][:len(st.fpaths[k]):len(st.fpaths[k])], e)
}

func (w *szWalker) merge(node ast.Node, pre *szState, ends []*szState) (*szState, bool) {
	if len(ends) == 0 {
		return pre, true
	}
	if len(ends) == 1 {
		return ends[0], false
	}
	out := pre.clone()
	changed := map[ekey]bool{}
	for _, b := range ends {
		for k, e := range b.epoch {
			if k.o.Pos() >= node.Pos() && k.o.Pos() <= node.End() {
				continue // declared inside: out of scope behind the statement
			}
			was := pre.epoch[k]
			if k.f == "" && !k.all {
				was = w.epochOf(k.o, pre)
			}
			if was != e {
				changed[k] = true
			}
		}
		for k, ps := range b.fpaths {
			for _, pe := range ps {
				addPath(out, k, pe)
			}
		}
	}
	// what is joined: a variable, or a field path assigned under a changed field key; each with its name in a given state
	type item struct {
		nameIn func(st *szState) (string, bool)
		typ    types.Type
		obj    types.Object // the variable itself (nil for a path)
	}
	var items []item
	for _, k := range sortedKeys(changed) {
		out.epoch[k] = w.fresh()
		switch {
		case k.all:
		case k.f != "":
			for _, pe := range out.fpaths[k] {
				pe := pe
				items = append(items, item{nameIn: func(st *szState) (string, bool) { return w.pureName(pe, st) }, typ: w.typeOf(pe)})
			}
		default:
			if w.volatile[k.o] {
				continue
			}
			o := k.o
			items = append(items, item{nameIn: func(st *szState) (string, bool) { return fmt.Sprintf("%s#%d", o.Name(), w.epochOf(o, st)), true }, typ: o.Type(), obj: o})
		}
	}
	// one disjunctive fact per joined value: in every open end, the facts found inside that end which share a variable
	// (transitively) with the value's last name there, and new name = last name
	for _, it := range items {
		if it.typ == nil {
			continue
		}
		var wraps []string
		switch {
		case isIntType(it.typ):
			wraps = []string{""}
		case isFloatType(it.typ):
			wraps = []string{"nan", "fl"}
		default:
			switch u := it.typ.Underlying().(type) {
			case *types.Slice:
				wraps = []string{"len"}
			case *types.Basic:
				if u.Info()&types.IsString != 0 {
					wraps = []string{"len"}
				}
			}
		}
		newBase, ok := it.nameIn(out)
		if !ok {
			continue
		}
		for _, wr := range wraps {
			wrap := func(n string) string {
				if wr == "" {
					return n
				}
				return wr + "(" + n + ")"
			}
			newName := wrap(newBase)
			var disj *szCond
			usable := true
			for _, b := range ends {
				ob, ok := it.nameIn(b)
				if !ok {
					usable = false
					break
				}
				oldName := wrap(ob)
				c := szAll(append(relevant(b.facts[len(pre.facts):], oldName), szCmp("eq", szV(newName), szV(oldName))))
				if disj == nil {
					disj = c
				} else {
					disj = szOr(disj, c)
				}
			}
			if !usable || disj == nil {
				continue
			}
			out.add(disj)
			switch wr {
			case "len":
				out.add(szCmp("le", szC(0), szV(newName)))
			case "nan":
				out.add(szCmp("le", szC(0), szV(newName)))
				out.add(szCmp("le", szV(newName), szC(1)))
			case "":
				if it.obj != nil && w.nonneg[it.obj] {
					out.add(szCmp("le", szC(w.lower[it.obj]), szV(newName)))
				}
			}
		}
	}
	return out, false
}

// havoc: the state behind a statement that is not followed branch by branch.
func (w *szWalker) havoc(pre *szState, nodes ...ast.Node) *szState {
	out := pre.clone()
	for _, k := range sortedKeys(w.assignedIn(nodes...)) {
		w.bumpKey(k, out)
	}
	return out
}

// breaksOut: an unlabelled break / a fallthrough that belongs to this switch / select body, or any labelled branch.
func breaksOut(body *ast.BlockStmt) bool {
	found := false
	var walk func(n ast.Node, inner bool)
	walk = func(n ast.Node, inner bool) {
		ast.Inspect(n, func(m ast.Node) bool {
			if m == nil || found {
				return false
			}
			if m == n {
				return true
			}
			switch x := m.(type) {
			case *ast.FuncLit:
				return false
			case *ast.ForStmt, *ast.RangeStmt, *ast.SwitchStmt, *ast.TypeSwitchStmt, *ast.SelectStmt:
				walk(m, true)
				return false
			case *ast.BranchStmt:
				switch {
				case x.Tok == token.GOTO:
					found = true
				case x.Label != nil && x.Tok == token.BREAK:
					found = true
				case !inner && (x.Tok == token.BREAK || x.Tok == token.FALLTHROUGH):
					found = true
				}
			}
			return true
		})
	}
	walk(body, false)
	return found
}

func isTerminatorCall(w *szWalker, e ast.Expr) bool {
	c, ok := e.(*ast.CallExpr)
	if !ok {
		return false
	}
	return w.isBuiltin(c.Fun, "panic") || w.pkgFunc(c.Fun, "os", "Exit")
}

func (w *szWalker) stmt(s ast.Stmt, st *szState) (*szState, bool) {
	switch x := s.(type) {
	case nil, *ast.EmptyStmt:
		return st, false
	case *ast.ExprStmt:
		w.scan(x.X, st)
		return st, isTerminatorCall(w, x.X)
	case *ast.SendStmt:
		w.scan(x.Chan, st)
		w.scan(x.Value, st)
		return st, false
	case *ast.GoStmt:
		w.scan(x.Call, st)
		return st, false
	case *ast.DeferStmt:
		w.scan(x.Call, st)
		return st, false
	case *ast.LabeledStmt:
		w.label = x.Label.Name
		out, t := w.stmt(x.Stmt, st)
		w.label = ""
		return out, t
	case *ast.ReturnStmt:
		for _, r := range x.Results {
			w.scan(r, st)
		}
		return st, true
	case *ast.BranchStmt:
		if x.Tok == token.GOTO {
			fatal("sizefacts: %s:%d: goto has no rule", relFile(x.Pos()), lineOf(x.Pos()))
		}
		if x.Tok == token.CONTINUE {
			w.noteContinue(x, st)
		}
		return st, true
	case *ast.BlockStmt:
		return w.block(x.List, st)
	case *ast.IncDecStmt:
		w.scan(x.X, st)
		o := w.rootObj(x.X)
		if o == nil {
			return st, false
		}
		if _, plain := ast.Unparen(x.X).(*ast.Ident); plain && isIntType(o.Type()) && !w.volatile[o] {
			old := w.intExpr(x.X, st)
			w.bump(o, st)
			name, _ := w.pureName(x.X, st)
			d := int64(1)
			if x.Tok == token.DEC {
				d = -1
			}
			st.add(szCmp("eq", szV(name), szBin("+", old, szC(d))))
			if w.nonneg[o] {
				st.add(szCmp("le", szC(w.lower[o]), szV(name)))
			}
		} else if !(isElemAssign(w, x.X) && w.elemSet[o]) {
			if !w.assignField(x.X, x.X, x.Tok, st) {
				w.bump(o, st)
			}
		}
		return st, false
	case *ast.DeclStmt:
		gd, ok := x.Decl.(*ast.GenDecl)
		if !ok || gd.Tok != token.VAR {
			return st, false
		}
		for _, sp := range gd.Specs {
			vs := sp.(*ast.ValueSpec)
			for _, v := range vs.Values {
				w.scan(v, st)
			}
			for i, id := range vs.Names {
				var rhs ast.Expr
				if len(vs.Values) == len(vs.Names) {
					rhs = vs.Values[i]
				}
				if rhs == nil && len(vs.Values) == 0 {
					// zero value
					o := w.obj(id)
					if o != nil && w.localVar(o) && !w.volatile[o] && id.Name != "_" {
						w.bump(o, st)
						name, _ := w.pureName(id, st)
						if isIntType(o.Type()) {
							st.add(szCmp("eq", szV(name), szC(0)))
						} else if k := w.seqKind(id); k == "string" || k == "slice" {
							st.add(szCmp("eq", szV("len("+name+")"), szC(0)))
						}
					}
					continue
				}
				w.assignOne(id, rhs, token.DEFINE, st)
			}
		}
		return st, false
	case *ast.AssignStmt:
		for _, r := range x.Rhs {
			w.scan(r, st)
		}
		for _, l := range x.Lhs {
			if _, plain := l.(*ast.Ident); !plain {
				w.scan(l, st)
			}
		}
		if len(x.Lhs) == len(x.Rhs) {
			if len(x.Lhs) == 1 {
				w.assignOne(x.Lhs[0], x.Rhs[0], x.Tok, st)
			} else {
				// parallel assignment: all right-hand sides are read first
				pre := st.clone()
				type pend struct {
					l   ast.Expr
					val *szExpr
				}
				var ps []pend
				for i, l := range x.Lhs {
					var val *szExpr
					if o := w.rootObj(l); o != nil && isIntType(o.Type()) {
						if _, plain := ast.Unparen(l).(*ast.Ident); plain && (x.Tok == token.ASSIGN || x.Tok == token.DEFINE) {
							val = w.intExpr(x.Rhs[i], pre)
						}
					}
					ps = append(ps, pend{l, val})
				}
				st.facts = pre.facts[:len(pre.facts):len(pre.facts)]
				for _, p := range ps {
					if id, ok := p.l.(*ast.Ident); ok && id.Name == "_" {
						continue
					}
					o := w.rootObj(p.l)
					if o == nil {
						continue
					}
					if _, plain := ast.Unparen(p.l).(*ast.Ident); !plain {
						if isElemAssign(w, p.l) && w.elemSet[o] {
							continue
						}
						if w.assignField(p.l, nil, x.Tok, st) {
							continue
						}
					}
					w.bump(o, st)
					if p.val != nil && !w.volatile[o] {
						name, _ := w.pureName(p.l, st)
						st.add(szCmp("eq", szV(name), p.val))
					}
				}
			}
		} else {
			for _, l := range x.Lhs {
				w.assignOne(l, nil, x.Tok, st)
			}
		}
		return st, false
	case *ast.IfStmt:
		if x.Init != nil {
			st, _ = w.stmt(x.Init, st)
		}
		w.scan(x.Cond, st)
		a := st.clone()
		a.add(w.cond(x.Cond, a, true))
		b := st.clone()
		b.add(w.cond(x.Cond, b, false))
		var ends []*szState
		ea, ta := w.block(x.Body.List, a)
		if !ta {
			ends = append(ends, ea)
		}
		if x.Else != nil {
			eb, tb := w.stmt(x.Else, b)
			if !tb {
				ends = append(ends, eb)
			}
		} else {
			ends = append(ends, b)
		}
		return w.merge(x, st, ends)
	case *ast.SwitchStmt:
		if x.Init != nil {
			st, _ = w.stmt(x.Init, st)
		}
		w.scan(x.Tag, st)
		return w.switchLike(x, x.Body, st, func(cc *ast.CaseClause, s *szState, pos bool) *szCond {
			// the condition under which this clause is chosen (pos) / not chosen (!pos), earlier clauses aside
			var c *szCond
			for _, e := range cc.List {
				var one *szCond
				if x.Tag == nil {
					one = w.cond(e, s, pos)
				} else if isIntType(w.typeOf(x.Tag)) && isIntType(w.typeOf(e)) {
					op := "eq"
					if !pos {
						op = "ne"
					}
					one = szCmp(op, w.intExpr(x.Tag, s), w.intExpr(e, s))
				} else {
					one = szTT
				}
				if c == nil {
					c = one
				} else if pos {
					c = szOr(c, one)
				} else {
					c = szAnd(c, one)
				}
			}
			if c == nil {
				return szTT
			}
			return c
		})
	case *ast.TypeSwitchStmt:
		if x.Init != nil {
			st, _ = w.stmt(x.Init, st)
		}
		switch a := x.Assign.(type) {
		case *ast.ExprStmt:
			w.scan(a.X, st)
		case *ast.AssignStmt:
			for _, r := range a.Rhs {
				w.scan(r, st)
			}
		}
		return w.switchLike(x, x.Body, st, func(cc *ast.CaseClause, s *szState, pos bool) *szCond { return szTT })
	case *ast.SelectStmt:
		if breaksOut(x.Body) {
			for _, c := range x.Body.List {
				cc := c.(*ast.CommClause)
				b := w.havoc(st, x)
				if cc.Comm != nil {
					b, _ = w.stmt(cc.Comm, b)
				}
				w.block(cc.Body, b)
			}
			return w.havoc(st, x), false
		}
		var ends []*szState
		for _, c := range x.Body.List {
			cc := c.(*ast.CommClause)
			b := st.clone()
			if cc.Comm != nil {
				b, _ = w.stmt(cc.Comm, b)
			}
			e, t := w.block(cc.Body, b)
			if !t {
				ends = append(ends, e)
			}
		}
		return w.merge(x, st, ends)
	case *ast.ForStmt:
		label := w.label
		w.label = ""
		if x.Init != nil {
			st, _ = w.stmt(x.Init, st)
		}
		head := w.havoc(st, x.Cond, x.Body, x.Post)
		if x.Cond != nil {
			w.scan(x.Cond, head)
		}
		ctx := &szLoopCtx{node: x, label: label}
		// the measures are read at the head (their variables have the epochs of the start of one iteration)
		cands := w.loopMeasures(x, head)
		body := head.clone()
		if x.Cond != nil {
			body.add(w.cond(x.Cond, body, true))
		}
		w.stack = append(w.stack, ctx)
		end, t := w.block(x.Body.List, body)
		w.stack = w.stack[:len(w.stack)-1]
		// the back edges: the end of the body and every `continue`, each followed by the post statement
		var edges []*szState
		if !t {
			edges = append(edges, end)
		}
		edges = append(edges, ctx.continues...)
		for i, e := range edges {
			if x.Post != nil {
				edges[i], _ = w.stmt(x.Post, e)
			}
		}
		w.emitLoop(x, cands, edges)
		out := w.havoc(st, x.Cond, x.Body, x.Post)
		return out, false
	case *ast.RangeStmt:
		w.scan(x.X, st)
		var bound *szExpr
		switch w.seqKind(x.X) {
		case "slice", "string", "array":
			bound = w.lenAtom(x.X, st)
		default:
			if isIntType(w.typeOf(x.X)) {
				bound = w.intExpr(x.X, st)
			}
		}
		head := w.havoc(st, x.Body)
				for _, kv := range []ast.Expr{x.Key, x.Value} {
			if kv == nil {
				continue
			}
			if o := w.rootObj(kv); o != nil {
				w.bump(o, head)
			}
		}
		if x.Key != nil && bound != nil {
			if id, ok := x.Key.(*ast.Ident); ok && id.Name != "_" {
				if o := w.obj(id); o != nil && !w.volatile[o] && w.localVar(o) {
					name, _ := w.pureName(id, head)
					head.add(szCmp("le", szC(0), szV(name)))
					head.add(szCmp("lt", szV(name), bound))
				}
			}
		}
		w.stack = append(w.stack, &szLoopCtx{node: x, label: w.label})
		w.label = ""
		w.block(x.Body.List, head.clone())
		w.stack = w.stack[:len(w.stack)-1]
		out := w.havoc(st, x.Body)
		for _, kv := range []ast.Expr{x.Key, x.Value} {
			if kv != nil {
				if o := w.rootObj(kv); o != nil {
					w.bump(o, out)
				}
			}
		}
				return out, false
	}
	fatal("sizefacts: %s:%d: statement %T without a rule", relFile(s.Pos()), lineOf(s.Pos()), s)
	return st, false
}

func (w *szWalker) switchLike(node ast.Node, body *ast.BlockStmt, st *szState, clauseCond func(*ast.CaseClause, *szState, bool) *szCond) (*szState, bool) {
	if breaksOut(body) {
		for _, c := range body.List {
			cc := c.(*ast.CaseClause)
			for _, e := range cc.List {
				w.scan(e, st)
			}
			w.block(cc.Body, w.havoc(st, node))
		}
		return w.havoc(st, node), false
	}
	var ends []*szState
	var negs []*szCond // the negations of the clauses seen so far (default aside)
	var def *ast.CaseClause
	var clauses []*ast.CaseClause
	for _, c := range body.List {
		cc := c.(*ast.CaseClause)
		if cc.List == nil {
			def = cc
			continue
		}
		clauses = append(clauses, cc)
	}
	for _, cc := range clauses {
		for _, e := range cc.List {
			w.scan(e, st)
		}
		b := st.clone()
		for _, n := range negs {
			b.add(n)
		}
		b.add(clauseCond(cc, b, true))
		e, t := w.block(cc.Body, b)
		if !t {
			ends = append(ends, e)
		}
		tmp := st.clone()
		n := clauseCond(cc, tmp, false)
		negs = append(negs, tmp.facts[len(st.facts):]...)
		negs = append(negs, n)
	}
	b := st.clone()
	for _, n := range negs {
		b.add(n)
	}
	if def != nil {
		e, t := w.block(def.Body, b)
		if !t {
			ends = append(ends, e)
		}
	} else {
		ends = append(ends, b)
	}
	return w.merge(node, st, ends)
}

// ---------------------------------------------------------------- per function

// lengthAccessors: methods without parameters whose body is `return len(recv.path)` or `return recv.path.Accessor()`.
func lengthAccessors(p *Pkg) map[*types.Func]string {
	out := map[*types.Func]string{}
	suffixOf := func(recv string, e ast.Expr) (string, bool) {
		var parts []string
		for {
			switch x := e.(type) {
			case *ast.Ident:
				if x.Name != recv {
					return "", false
				}
				s := ""
				for i := len(parts) - 1; i >= 0; i-- {
					s += "." + parts[i]
				}
				return s, true
			case *ast.SelectorExpr:
				parts = append(parts, x.Sel.Name)
				e = x.X
			default:
				return "", false
			}
		}
	}
	for changed := true; changed; {
		changed = false
		for _, f := range p.Files {
			for _, d := range f.Decls {
				fd, ok := d.(*ast.FuncDecl)
				if !ok || fd.Recv == nil || fd.Body == nil || len(fd.Recv.List) != 1 || len(fd.Recv.List[0].Names) != 1 || fd.Type.Params.NumFields() != 0 || len(fd.Body.List) != 1 {
					continue
				}
				fn, _ := p.Info.Defs[fd.Name].(*types.Func)
				if fn == nil {
					continue
				}
				if _, done := out[fn]; done {
					continue
				}
				ret, ok := fd.Body.List[0].(*ast.ReturnStmt)
				if !ok || len(ret.Results) != 1 {
					continue
				}
				call, ok := ret.Results[0].(*ast.CallExpr)
				if !ok {
					continue
				}
				recv := fd.Recv.List[0].Names[0].Name
				if id, isId := call.Fun.(*ast.Ident); isId && id.Name == "len" && len(call.Args) == 1 {
					if _, isB := p.Info.Uses[id].(*types.Builtin); isB {
						if s, ok := suffixOf(recv, call.Args[0]); ok {
							out[fn] = s
							changed = true
						}
					}
					continue
				}
				if sel, isSel := call.Fun.(*ast.SelectorExpr); isSel && len(call.Args) == 0 {
					if s := p.Info.Selections[sel]; s != nil && s.Kind() == types.MethodVal {
						if inner, known := out[s.Obj().(*types.Func)]; known {
							if pre, ok := suffixOf(recv, sel.X); ok {
								out[fn] = pre + inner
								changed = true
							}
						}
					}
				}
			}
		}
	}
	return out
}

// monotone counters: local integer variables only ever assigned non-negative constants, ++, += non-negative constant,
// len(..), or used as range keys.
func (w *szWalker) classify(fd *ast.FuncDecl) {
	bad := map[types.Object]bool{}
	seen := map[types.Object]bool{}
	count := func(e ast.Expr) types.Object {
		o := w.rootObj(e)
		if o != nil {
			w.nassign[o]++
		}
		return o
	}
	low := map[types.Object]int64{}
	note := func(o types.Object, k int64) {
		if o == nil {
			return
		}
		if cur, ok := low[o]; !ok || k < cur {
			low[o] = k
		}
	}
	var okObj types.Object
	okRHS := func(e ast.Expr) bool {
		if tv, ok := w.p.Info.Types[e]; ok && tv.Value != nil && tv.Value.Kind() == gconst.Int {
			if k, exact := gconst.Int64Val(tv.Value); exact && k >= 0 {
				note(okObj, k)
				return true
			}
			return false
		}
		if c, ok := ast.Unparen(e).(*ast.CallExpr); ok && len(c.Args) == 1 && (w.isBuiltin(c.Fun, "len") || w.isBuiltin(c.Fun, "cap")) {
			note(okObj, 0)
			return true
		}
		return false
	}
	// parameters count as one assignment
	if fd.Type.Params != nil {
		for _, f := range fd.Type.Params.List {
			for _, n := range f.Names {
				if o := w.p.Info.Defs[n]; o != nil {
					w.nassign[o]++
					bad[o] = true
				}
			}
		}
	}
	if fd.Type.Results != nil {
		for _, f := range fd.Type.Results.List {
			for _, n := range f.Names {
				if o := w.p.Info.Defs[n]; o != nil {
					w.nassign[o] += 2
					bad[o] = true
				}
			}
		}
	}
	var lits []*ast.FuncLit
	ast.Inspect(fd.Body, func(n ast.Node) bool {
		switch x := n.(type) {
		case *ast.FuncLit:
			lits = append(lits, x)
			for _, f := range x.Type.Params.List {
				for _, nm := range f.Names {
					if o := w.p.Info.Defs[nm]; o != nil {
						w.nassign[o] += 2
						bad[o] = true
					}
				}
			}
		case *ast.AssignStmt:
			for i, l := range x.Lhs {
				_, plain := ast.Unparen(l).(*ast.Ident)
				if !plain && isElemAssign(w, l) {
					if o := w.rootObj(l); o != nil {
						w.elemSet[o] = true
					}
					continue
				}
				if !plain {
					if _, _, isField := w.fieldTarget(l); isField {
						continue // the variable keeps its value; the field gets its own epoch
					}
				}
				o := count(l)
				if o == nil {
					continue
				}
				seen[o] = true
				okObj = o
				if x.Tok == token.ADD_ASSIGN {
					okObj = nil // v += k (k >= 0) keeps the bound the other assignments give
				}
				good := plain && len(x.Lhs) == len(x.Rhs) && (x.Tok == token.ASSIGN || x.Tok == token.DEFINE || x.Tok == token.ADD_ASSIGN) && okRHS(x.Rhs[i])
				if !good && plain && x.Tok == token.ASSIGN && len(x.Lhs) == len(x.Rhs) {
					// v = v + k (k >= 0) is v += k
					if be, ok := ast.Unparen(x.Rhs[i]).(*ast.BinaryExpr); ok && be.Op == token.ADD {
						if id, ok := ast.Unparen(be.X).(*ast.Ident); ok && w.obj(id) == o {
							okObj = nil
							good = okRHS(be.Y)
						}
					}
				}

				if !good {
					bad[o] = true
				}
			}
		case *ast.IncDecStmt:
			if _, plain := ast.Unparen(x.X).(*ast.Ident); !plain && isElemAssign(w, x.X) {
				if o := w.rootObj(x.X); o != nil {
					w.elemSet[o] = true
				}
			} else if o := count(x.X); o != nil {
				seen[o] = true
				if x.Tok != token.INC {
					bad[o] = true
				}
			}
		case *ast.RangeStmt:
			if x.Key != nil {
				if o := count(x.Key); o != nil {
					seen[o] = true
					note(o, 0)
				}
			}
			if x.Value != nil {
				if o := count(x.Value); o != nil {
					bad[o] = true
				}
			}
		case *ast.ValueSpec:
			for i, id := range x.Names {
				o := count(id)
				if o == nil {
					continue
				}
				seen[o] = true
				if len(x.Values) == 0 {
					note(o, 0)
					continue // zero
				}
				okObj = o
				if len(x.Values) != len(x.Names) || !okRHS(x.Values[i]) {
					bad[o] = true
				}
			}
		case *ast.UnaryExpr:
			if x.Op == token.AND {
				if o := w.rootObj(x.X); o != nil {
					w.volatile[o] = true
				}
			}
		}
		return true
	})
	for o := range seen {
		if !bad[o] && isIntType(o.Type()) {
			if k, ok := low[o]; ok {
				w.nonneg[o] = true
				w.lower[o] = k
			}
		}
	}
	// assigned inside a literal, declared outside it
	for _, l := range lits {
		for k := range w.assignedIn(l.Body) {
			if k.o.Pos() < l.Pos() || k.o.Pos() > l.End() {
				if k.f == "" && !k.all {
					w.volatile[k.o] = true
				} else {
					w.volFields[k] = true
				}
			}
		}
	}
	for o := range w.volatile {
		delete(w.nonneg, o)
	}
}

// length accessors of types outside the module (their source is not walked): the result is a len(..), so it is not negative
var szLenContracts = map[string]bool{"(*github.com/mithrandie/go-text/json.Object).Len": true}

// szSinkParams: FullName of a function of the module -> indices of its int parameters that are never assigned in its body and
// appear bare as the count of strings.Repeat / bytes.Repeat or as a length / capacity of make (computeSinkParams).  Keyed by
// name: every package is type-checked on its own, so the object of an imported function is not the object of its declaration.
var szSinkParams = map[string][]int{}

func (w *szWalker) calleeFunc(fun ast.Expr) *types.Func {
	switch f := ast.Unparen(fun).(type) {
	case *ast.Ident:
		if o, ok := w.obj(f).(*types.Func); ok {
			return o
		}
	case *ast.SelectorExpr:
		if sel := w.p.Info.Selections[f]; sel != nil {
			if o, ok := sel.Obj().(*types.Func); ok {
				return o
			}
			return nil
		}
		if o, ok := w.p.Info.Uses[f.Sel].(*types.Func); ok {
			return o
		}
	}
	return nil
}

func computeSinkParams(pkgs []*Pkg, module string) {
	// to a fixpoint: a parameter handed on bare to a sink parameter of another function of the module is one itself
	for round := 0; round < 5; round++ {
		n := len(szSinkParams)
		computeSinkParamsOnce(pkgs, module)
		if len(szSinkParams) == n {
			return
		}
	}
}

func computeSinkParamsOnce(pkgs []*Pkg, module string) {
	for _, p := range pkgs {
		if !strings.HasPrefix(p.Path, module) {
			continue
		}
		for _, f := range p.Files {
			for _, d := range f.Decls {
				fd, ok := d.(*ast.FuncDecl)
				if !ok || fd.Body == nil || fd.Type.Params == nil {
					continue
				}
				fo, _ := p.Info.Defs[fd.Name].(*types.Func)
				if fo == nil {
					continue
				}
				params := map[types.Object]int{}
				k := 0
				for _, fl := range fd.Type.Params.List {
					if len(fl.Names) == 0 {
						k++
					}
					for _, n := range fl.Names {
						if o := p.Info.Defs[n]; o != nil && isIntType(o.Type()) {
							params[o] = k
						}
						k++
					}
				}
				if len(params) == 0 {
					continue
				}
				use := func(e ast.Expr) types.Object {
					if id, ok := ast.Unparen(e).(*ast.Ident); ok {
						if o := p.Info.Uses[id]; o != nil {
							if _, isParam := params[o]; isParam {
								return o
							}
						}
					}
					return nil
				}
				sunk := map[types.Object]bool{}
				ast.Inspect(fd.Body, func(n ast.Node) bool {
					switch x := n.(type) {
					case *ast.AssignStmt:
						for _, l := range x.Lhs {
							if o := use(l); o != nil {
								delete(params, o)
							}
						}
					case *ast.IncDecStmt:
						if o := use(x.X); o != nil {
							delete(params, o)
						}
					case *ast.UnaryExpr:
						if x.Op == token.AND {
							if o := use(x.X); o != nil {
								delete(params, o)
							}
						}
					case *ast.CallExpr:
						if sel, ok := x.Fun.(*ast.SelectorExpr); ok && sel.Sel.Name == "Repeat" && len(x.Args) == 2 {
							if id, ok := sel.X.(*ast.Ident); ok {
								if pn, ok := p.Info.Uses[id].(*types.PkgName); ok && (pn.Imported().Path() == "strings" || pn.Imported().Path() == "bytes") {
									if o := use(x.Args[1]); o != nil {
										sunk[o] = true
									}
								}
							}
						}
						var callee *types.Func
						switch f := ast.Unparen(x.Fun).(type) {
						case *ast.Ident:
							callee, _ = p.Info.Uses[f].(*types.Func)
						case *ast.SelectorExpr:
							if sel := p.Info.Selections[f]; sel != nil {
								callee, _ = sel.Obj().(*types.Func)
							} else {
								callee, _ = p.Info.Uses[f.Sel].(*types.Func)
							}
						}
						if callee != nil && !x.Ellipsis.IsValid() {
							for _, k := range szSinkParams[callee.FullName()] {
								if k < len(x.Args) {
									if o := use(x.Args[k]); o != nil {
										sunk[o] = true
									}
								}
							}
						}
						if id, ok := x.Fun.(*ast.Ident); ok && id.Name == "make" && len(x.Args) >= 2 {
							if _, isB := p.Info.Uses[id].(*types.Builtin); isB {
								// make(T, n[, c]) needs 0 <= n; make(T, 0, c) needs 0 <= c
								if o := use(x.Args[1]); o != nil {
									sunk[o] = true
								}
								if len(x.Args) == 3 {
									if lit, ok := x.Args[1].(*ast.BasicLit); ok && lit.Value == "0" {
										if o := use(x.Args[2]); o != nil {
											sunk[o] = true
										}
									}
								}
							}
						}
					}
					return true
				})
				var idx []int
				for o := range sunk {
					if k, ok := params[o]; ok {
						idx = append(idx, k)
					}
				}
				sort.Ints(idx)
				if len(idx) > 0 {
					szSinkParams[fo.FullName()] = idx
				}
			}
		}
	}
}

type szResult struct {
	Sizes     []szSite `json:"sizes"`
	LoopSites []szSite `json:"loop_edges"`
	Loops     []szLoop `json:"loops"`
	ConvSites []szSite `json:"conversions"`
	ConvAll   int      `json:"conversions_seen"`
	ConvKinds map[string]int `json:"conversions_seen_by_kind"`
}

// generated by goyacc (their source is the grammar; goto / table loops): not walked
// and the interactive shell's line editor (build-tagged readline files of lib/terminal: not run by a query)
var szSkipFiles = map[string]bool{"lib/json/path_parser.go": true, "lib/json/query_parser.go": true,
	"lib/terminal/completer_readline.go": true, "lib/terminal/terminal_readline.go": true}

func pathTail(path string) string {
	if i := strings.Index(path, "/lib/"); i >= 0 {
		return path[i+1:]
	}
	return path
}

// szGroup: one set of generated files.  sizePkgs: packages whose size obligations are kept; loopPkgs: packages whose loops are.
// The package lists are parameters: ERRFACTS_LIB_SIZE_PKGS / ERRFACTS_LIB_LOOP_PKGS (comma-separated lib/<name>) replace the
// defaults of the second group.
type szGroup struct {
	sizePkgs, loopPkgs []string
}

var szCoreGroup = szGroup{sizePkgs: []string{"lib/query"}, loopPkgs: []string{"lib/query", "lib/value", "lib/json"}}

// every other non-test package of the module that runs at query time (lib/parser is goyacc output + a hand scanner: C18's)
var szLibGroup = szGroup{
	sizePkgs: []string{"lib/action", "lib/cli", "lib/doc", "lib/excmd", "lib/file", "lib/json", "lib/option", "lib/syntax", "lib/terminal", "lib/value"},
	loopPkgs: []string{"lib/action", "lib/cli", "lib/doc", "lib/excmd", "lib/file", "lib/option", "lib/syntax", "lib/terminal"},
}

func envList(name string, def []string) []string {
	if v := os.Getenv(name); v != "" {
		return strings.Split(v, ",")
	}
	return def
}

func walkGroup(pkgs []*Pkg, g szGroup) *szResult {
	res := &szResult{ConvKinds: map[string]int{}}
	all := map[string][2]bool{}
	var order []string
	for _, n := range g.sizePkgs {
		all[n] = [2]bool{true, false}
		order = append(order, n)
	}
	for _, n := range g.loopPkgs {
		if v, ok := all[n]; ok {
			all[n] = [2]bool{v[0], true}
		} else {
			all[n] = [2]bool{false, true}
			order = append(order, n)
		}
	}
	// the historical order of the first group: sizes package first, then the loop-only packages as listed
	for _, n := range order {
		walkPackage(findPkg(pkgs, "/"+n), res, all[n][0], all[n][1])
	}
	return res
}

func walkPackage(p *Pkg, res *szResult, sizes, loops bool) {
	acc := lengthAccessors(p)
	for _, f := range p.Files {
		if szSkipFiles[pathTail(p.Path)+"/"+filepath.Base(fset.PositionFor(f.Package, false).Filename)] {
			continue
		}
		for _, d := range f.Decls {
			fd, ok := d.(*ast.FuncDecl)
			if !ok || fd.Body == nil {
				continue
			}
			var sz []szSite
			var convs []*szConv
			w := &szWalker{p: p, fn: funcLabel(fd), file: relFile(fd.Pos()), init: map[types.Object]int{}, volatile: map[types.Object]bool{},
				nonneg: map[types.Object]bool{}, lower: map[types.Object]int64{}, elemSet: map[types.Object]bool{}, volFields: map[ekey]bool{}, nassign: map[types.Object]int{}, sites: &sz, accessors: acc,
				loopSites: &res.LoopSites, convs: &convs, convOf: map[string]*szConv{}}
			if loops {
				w.loops = &res.Loops
			}
			w.classify(fd)
			w.block(fd.Body.List, newState())
			if !sizes {
				// only the loops of this package are kept: a conversion counts when it reaches one of them
				for _, c := range convs {
					var keep []string
					for _, fl := range c.Flows {
						if strings.Contains(fl, "back edge") {
							keep = append(keep, fl)
						}
					}
					c.Flows = keep
				}
			} else {
				res.Sizes = append(res.Sizes, sz...)
			}
			res.ConvSites = append(res.ConvSites, w.convObligations()...)
			res.ConvAll += len(convs)
			for _, c := range convs {
				res.ConvKinds[c.Kind]++
			}
		}
	}
}

// ---------------------------------------------------------------- output

func leanSites(b *strings.Builder, sites []szSite, prefix string) {
	for i := range sites {
		s := &sites[i]
		idx := map[string]int{}
		vs := map[string]bool{}
		s.goal.vars(vs)
		for _, c := range s.conds {
			c.vars(vs)
		}
		var names []string
		for v := range vs {
			names = append(names, v)
		}
		// in the order the walk defined them (the first epoch number in the name), then by name: a fact that defines a
		// variable from older ones can be checked by the driver's pruned search as soon as the variable has a value
		sort.Slice(names, func(a, b int) bool {
			ea, eb := firstEpoch(names[a]), firstEpoch(names[b])
			if ea != eb {
				return ea < eb
			}
			return names[a] < names[b]
		})
		for k, n := range names {
			idx[n] = k
		}
		s.Vars = names
		conds := make([]string, len(s.conds))
		for k, c := range s.conds {
			conds[k] = c.lean(idx)
		}
		fmt.Fprintf(b, "def %ss%d : SizeSite := ⟨%s, %s, %s, %s, %s, %d,\n  [%s],\n  %s⟩\n", prefix, i, leanStr(s.File), leanStr(s.Fn), leanStr(s.Kind), leanStr(s.Expr), leanStr(s.What), len(names),
			strings.Join(conds, ",\n   "), s.goal.lean(idx))
		fmt.Fprintf(b, "def %sp%d : Proved %ss%d.safe := by size_decide %ss%d\n\n", prefix, i, prefix, i, prefix, i)
	}
}

func firstEpoch(name string) int {
	i := strings.IndexByte(name, '#')
	if i < 0 {
		return 0
	}
	n := 0
	for j := i + 1; j < len(name) && name[j] >= '0' && name[j] <= '9'; j++ {
		n = n*10 + int(name[j]-'0')
	}
	return n
}

func leanEntries(b *strings.Builder, name, doc, prefix string, n int) {
	fmt.Fprintf(b, "/-- %s -/\ndef %s : List SizeEntry := [\n", doc, name)
	for i := 0; i < n; i++ {
		sep := ","
		if i == n-1 {
			sep = ""
		}
		fmt.Fprintf(b, "  ⟨%ss%d, %sp%d⟩%s\n", prefix, i, prefix, i, sep)
	}
	b.WriteString("]\n\n")
}

func writeFile(path, text string) {
	if err := os.WriteFile(path, []byte(text), 0o644); err != nil {
		fatal("%v", err)
	}
}

// writeSizeFacts: for the first group (lib/query; loops also of lib/value, lib/json) Csvq/Gen/SizeFacts.lean, LoopFacts.lean,
// IntConvFacts.lean and sizefacts.json into dir; for the second group (every other package that runs at query time)
// LibSizeFacts.lean, LibLoopFacts.lean, LibIntConvFacts.lean and libsizefacts.json.
func writeSizeFacts(pkgs []*Pkg, dir string) {
	computeWrites(pkgs, modulePath(repoRoot()))
	computeSinkParams(pkgs, modulePath(repoRoot()))
	core := walkGroup(pkgs, szCoreGroup)
	if len(core.Sizes) < 50 || len(core.Loops) < 20 {
		fatal("sizefacts: only %d size obligations / %d loops found", len(core.Sizes), len(core.Loops))
	}
	emitGroup(core, dir, "", "", "every function of lib/query", "lib/query, lib/value, lib/json")
	lg := szGroup{sizePkgs: envList("ERRFACTS_LIB_SIZE_PKGS", szLibGroup.sizePkgs), loopPkgs: envList("ERRFACTS_LIB_LOOP_PKGS", szLibGroup.loopPkgs)}
	lib := walkGroup(pkgs, lg)
	if len(lib.Sizes) < 20 || len(lib.Loops) < 5 {
		fatal("sizefacts: only %d size obligations / %d loops found in %v", len(lib.Sizes), len(lib.Loops), lg.sizePkgs)
	}
	emitGroup(lib, dir, "Lib", "lib", "every function of "+strings.Join(lg.sizePkgs, ", "), strings.Join(lg.loopPkgs, ", "))
}

// emitGroup: the three Lean files (<P>SizeFacts, <P>LoopFacts, <P>IntConvFacts; namespaces Csvq.Gen.<P>Size / <P>Loop / <P>IntConv)
// and <p>sizefacts.json of one group.
func emitGroup(res *szResult, dir, P, pj, sizeOf, loopOf string) {
	var b strings.Builder
	b.WriteString("-- GENERATED by /verif/extract/errfacts (sizefacts.go) from " + sizeOf + " — do not edit.\n")
	b.WriteString("-- One entry per obligation of a size site (strings.Repeat / bytes.Repeat count, make length and capacity, arithmetic\n")
	b.WriteString("-- index, slice bounds): the operand as integer IR, the facts that hold when control reaches the site, and the result of\n")
	b.WriteString("-- the uniform tactic `size_decide` (unfold the evaluator, omega): `Proved.yes h` with h a proof for ALL valuations, or `Proved.no`.\n")
	b.WriteString("import Csvq.Model.SizeFacts\nnamespace Csvq.Gen." + P + "Size\nopen Csvq.SizeFacts\n\n")
	leanSites(&b, res.Sizes, "")
	leanEntries(&b, "sizeEntries", "every obligation with what the tactic found", "", len(res.Sizes))
	b.WriteString("end Csvq.Gen." + P + "Size\n")
	writeFile(dir+"/"+P+"SizeFacts.lean", b.String())

	b.Reset()
	b.WriteString("-- GENERATED by /verif/extract/errfacts (loopfacts.go) from every for statement (range loops aside) of " + loopOf + "\n")
	b.WriteString("-- (the goyacc output of lib/json aside) — do not edit.  One entry per (measure, back edge): under the facts of that path of one\n")
	b.WriteString("-- iteration, measure' < measure and 0 <= measure; `loopSites`: per loop its candidate measures with the numbers of their entries.\n")
	b.WriteString("import Csvq.Model.SizeFacts\nnamespace Csvq.Gen." + P + "Loop\nopen Csvq.SizeFacts\n\n")
	leanSites(&b, res.LoopSites, "")
	leanEntries(&b, "loopEntries", "every (measure, back edge) obligation with what the tactic found", "", len(res.LoopSites))
	b.WriteString("/-- every loop: file, function, header, number of back edges, candidate measures (text, entries of its back edges) -/\ndef loopSites : List LoopSite := [\n")
	for i, l := range res.Loops {
		var ms []string
		for _, m := range l.Measures {
			var es []string
			for _, e := range m.Edges {
				es = append(es, fmt.Sprint(e))
			}
			ms = append(ms, fmt.Sprintf("(%s, [%s])", leanStr(m.Text), strings.Join(es, ", ")))
		}
		sep := ","
		if i == len(res.Loops)-1 {
			sep = ""
		}
		fmt.Fprintf(&b, "  ⟨%s, %s, %s, %d, [%s]⟩%s\n", leanStr(l.File), leanStr(l.Fn), leanStr(l.Header), l.Edges, strings.Join(ms, ", "), sep)
	}
	b.WriteString("]\n\nend Csvq.Gen." + P + "Loop\n")
	writeFile(dir+"/"+P+"LoopFacts.lean", b.String())

	b.Reset()
	b.WriteString("-- GENERATED by /verif/extract/errfacts (loopfacts.go) — do not edit.  One entry per float -> integer or narrowing integer\n")
	b.WriteString("-- conversion whose result reaches a size obligation or a loop obligation of the same function: under the facts at the\n")
	b.WriteString("-- conversion, the operand is a number (nan = 0) inside the range of the target type.\n")
	b.WriteString("import Csvq.Model.SizeFacts\nnamespace Csvq.Gen." + P + "IntConv\nopen Csvq.SizeFacts\n\n")
	leanSites(&b, res.ConvSites, "")
	leanEntries(&b, "convEntries", "every conversion obligation with what the tactic found", "", len(res.ConvSites))
	b.WriteString("end Csvq.Gen." + P + "IntConv\n")
	writeFile(dir+"/"+P+"IntConvFacts.lean", b.String())

	js, err := json.MarshalIndent(res, "", " ")
	if err != nil {
		fatal("%v", err)
	}
	writeFile(dir+"/"+pj+"sizefacts.json", string(js))
}
