// sizefacts.go — "size sites" of lib/query for lean/Csvq/Gen/SizeFacts.lean (property C19).
//
// A size site is an expression whose integer operand makes the Go runtime panic when it is out of range:
//
//	strings.Repeat(s, n), bytes.Repeat(b, n)      n >= 0
//	make([]T, n[, c])                             0 <= n, n <= c
//	x[i]      with an arithmetic index (+ / -)    0 <= i, i < len(x)
//	x[a:b:c]  with a non-constant bound           0 <= a, a <= b, b <= cap(x) (len(x) for strings / arrays), b <= c
//
// For every obligation of every site the generator emits the operand as a small integer IR and the FACTS that hold
// whenever control reaches the site, read off the function the site stands in by one structured walk:
//
//   - every local variable (and every field path / len(..) under it) carries an epoch; an assignment makes a new epoch,
//     `v = e` with an integer e adds the fact v' = e (v++, v += e alike; s = a + b, make, x[a:b], literals and append add the
//     fact about the new LENGTH);
//   - `if c { A } else { B }`: A is walked under c, B under the negation of c (&&, ||, ! pushed inward; a condition that is
//     not a comparison of integers is "no information", in both polarities); a branch that ends in return / continue /
//     break / panic hands nothing on (so the statements below an early return stand under its negated condition); the
//     others are joined into ONE disjunctive fact (condition, the facts found inside, new-epoch = last epoch of the branch);
//     switch = chain of if / else if (a switch with a `break` or `fallthrough` inside forgets what its clauses assign);
//   - loops: every variable assigned in the loop gets a fresh epoch at the head and again behind the loop; the condition holds
//     in the body; a range key lies in [0, len) of the ranged slice / string / integer;
//   - function literals: walked where they stand, after every variable with more than one assignment in the enclosing function
//     got a fresh epoch; a variable assigned inside a literal but declared outside, and every variable whose address is taken,
//     never gets a fact (each read is a fresh unknown);
//   - calls: a call with a pointer / interface / struct / map variable as receiver or argument gives that variable a fresh epoch
//     (its fields and lengths are forgotten), except the length accessors (methods whose body is `return len(recv.path)`
//     or another accessor: View.RecordLen, View.FieldLen, Header.Len ...), which are replaced by the len(..) they return;
//   - recorded facts: len(..) >= 0, cap(..) >= len(..), 0 <= utf8.RuneCountInString(s) <= len(s), v >= 0 for a variable that is
//     only ever assigned non-negative constants / ++ / += of such / range keys / len(..).
//
// Integers are mathematical integers (no overflow), `a / b`, `a % b`, shifts, products of two variables and every call
// without a rule are fresh unknowns.  The facts of a site are cut down to the ones that share a variable (transitively) with
// the obligation.  Nothing here decides whether an obligation holds: that is `size_sites_nonneg` in Lean (omega, for ALL
// valuations); what is not provable from these facts has to be listed, with a reason, in Csvq/Props/C19Sizes.lean.
package main

import (
	"encoding/json"
	"fmt"
	"go/ast"
	gconst "go/constant"
	"go/token"
	"go/types"
	"os"
	"sort"
	"strings"
)

// ---------------------------------------------------------------- IR

type szExpr struct {
	op   string // "c" | "v" | "+" | "-" | "*" (k * a) | "neg"
	k    int64
	name string
	a, b *szExpr
}

type szCond struct {
	op   string // "tt" | "le" | "lt" | "eq" | "ne" | "and" | "or"
	a, b *szExpr
	l, r *szCond
}

func szC(k int64) *szExpr       { return &szExpr{op: "c", k: k} }
func szV(name string) *szExpr   { return &szExpr{op: "v", name: name} }
func szBin(op string, a, b *szExpr) *szExpr {
	if a.op == "c" && b.op == "c" {
		switch op {
		case "+":
			return szC(a.k + b.k)
		case "-":
			return szC(a.k - b.k)
		}
	}
	return &szExpr{op: op, a: a, b: b}
}

var szTT = &szCond{op: "tt"}

func szCmp(op string, a, b *szExpr) *szCond { return &szCond{op: op, a: a, b: b} }
func szAnd(l, r *szCond) *szCond {
	if l.op == "tt" {
		return r
	}
	if r.op == "tt" {
		return l
	}
	return &szCond{op: "and", l: l, r: r}
}
func szOr(l, r *szCond) *szCond {
	if l.op == "tt" || r.op == "tt" {
		return szTT
	}
	return &szCond{op: "or", l: l, r: r}
}
func szAll(cs []*szCond) *szCond {
	out := szTT
	for i := len(cs) - 1; i >= 0; i-- {
		out = szAnd(cs[i], out)
	}
	return out
}

func (e *szExpr) vars(m map[string]bool) {
	switch e.op {
	case "v":
		m[e.name] = true
	case "c":
	default:
		if e.a != nil {
			e.a.vars(m)
		}
		if e.b != nil {
			e.b.vars(m)
		}
	}
}

func (c *szCond) vars(m map[string]bool) {
	switch c.op {
	case "tt":
	case "and", "or":
		c.l.vars(m)
		c.r.vars(m)
	default:
		c.a.vars(m)
		c.b.vars(m)
	}
}

func (e *szExpr) lean(idx map[string]int) string {
	switch e.op {
	case "c":
		if e.k < 0 {
			return fmt.Sprintf("(.c (%d))", e.k)
		}
		return fmt.Sprintf("(.c %d)", e.k)
	case "v":
		return fmt.Sprintf("(.v %d)", idx[e.name])
	case "+":
		return "(.add " + e.a.lean(idx) + " " + e.b.lean(idx) + ")"
	case "-":
		return "(.sub " + e.a.lean(idx) + " " + e.b.lean(idx) + ")"
	case "*":
		if e.k < 0 {
			return fmt.Sprintf("(.mul (%d) %s)", e.k, e.a.lean(idx))
		}
		return fmt.Sprintf("(.mul %d %s)", e.k, e.a.lean(idx))
	case "neg":
		return "(.neg " + e.a.lean(idx) + ")"
	}
	fatal("sizefacts: unknown expression node %q", e.op)
	return ""
}

func (c *szCond) lean(idx map[string]int) string {
	switch c.op {
	case "tt":
		return ".tt"
	case "and":
		return "(.and " + c.l.lean(idx) + " " + c.r.lean(idx) + ")"
	case "or":
		return "(.or " + c.l.lean(idx) + " " + c.r.lean(idx) + ")"
	case "le", "lt", "eq", "ne":
		return "(." + c.op + " " + c.a.lean(idx) + " " + c.b.lean(idx) + ")"
	}
	fatal("sizefacts: unknown condition node %q", c.op)
	return ""
}

func (e *szExpr) text() string {
	switch e.op {
	case "c":
		return fmt.Sprint(e.k)
	case "v":
		return e.name
	case "+":
		return "(" + e.a.text() + " + " + e.b.text() + ")"
	case "-":
		return "(" + e.a.text() + " - " + e.b.text() + ")"
	case "*":
		return fmt.Sprintf("%d*%s", e.k, e.a.text())
	case "neg":
		return "-" + e.a.text()
	}
	return "?"
}

func (c *szCond) text() string {
	switch c.op {
	case "tt":
		return "true"
	case "and":
		return "(" + c.l.text() + " && " + c.r.text() + ")"
	case "or":
		return "(" + c.l.text() + " || " + c.r.text() + ")"
	}
	sym := map[string]string{"le": "<=", "lt": "<", "eq": "==", "ne": "!="}[c.op]
	return c.a.text() + " " + sym + " " + c.b.text()
}

// ---------------------------------------------------------------- state

type szState struct {
	epoch map[types.Object]int
	facts []*szCond
}

func (s *szState) clone() *szState {
	m := make(map[types.Object]int, len(s.epoch))
	for k, v := range s.epoch {
		m[k] = v
	}
	return &szState{epoch: m, facts: s.facts[:len(s.facts):len(s.facts)]}
}

func (s *szState) add(c *szCond) {
	if c.op == "tt" {
		return
	}
	if c.op == "and" {
		s.add(c.l)
		s.add(c.r)
		return
	}
	t := c.text()
	for _, f := range s.facts {
		if f == c || f.text() == t {
			return
		}
	}
	s.facts = append(s.facts, c)
}

type szSite struct {
	File  string   `json:"file"`
	Fn    string   `json:"fn"`
	Line  int      `json:"line"`
	Kind  string   `json:"kind"`  // repeat | make | index | slice
	Expr  string   `json:"expr"`  // the site, as source text
	What  string   `json:"what"`  // count | len | cap | low | high | order
	Goal  string   `json:"goal"`  // readable
	Vars  []string `json:"vars"`  // names of the IR variables, by index
	Conds []string `json:"conds"` // readable
	goal  *szCond
	conds []*szCond
}

type szWalker struct {
	p         *Pkg
	fn        string
	file      string
	init      map[types.Object]int
	volatile  map[types.Object]bool
	nonneg    map[types.Object]bool
	lower     map[types.Object]int64 // v >= lower[v] for the variables of nonneg
	elemSet   map[types.Object]bool  // an element x[i]… under this variable is assigned somewhere in the function
	nassign   map[types.Object]int
	counter   int
	sites     *[]szSite
	accessors map[*types.Func]string
}

func (w *szWalker) fresh() int { w.counter++; return w.counter }

func (w *szWalker) epochOf(o types.Object, st *szState) int {
	if e, ok := st.epoch[o]; ok {
		return e
	}
	if e, ok := w.init[o]; ok {
		return e
	}
	e := w.fresh()
	w.init[o] = e
	return e
}

func (w *szWalker) bump(o types.Object, st *szState) { st.epoch[o] = w.fresh() }

func (w *szWalker) freshVar(hint string) *szExpr {
	return szV(fmt.Sprintf("?%s#%d", hint, w.fresh()))
}

func (w *szWalker) obj(id *ast.Ident) types.Object {
	if o := w.p.Info.Uses[id]; o != nil {
		return o
	}
	return w.p.Info.Defs[id]
}

// localVar: a variable that is not package-level (parameters, results, receivers, locals).
func (w *szWalker) localVar(o types.Object) bool {
	v, ok := o.(*types.Var)
	if !ok || v.IsField() {
		return false
	}
	return v.Parent() != nil && v.Parent() != w.p.Types.Scope() && v.Pkg() == w.p.Types
}

// rootObj: the local variable a path expression (x, x.f.g, *x, x[i]) starts at.
func (w *szWalker) rootObj(e ast.Expr) types.Object {
	switch x := e.(type) {
	case *ast.Ident:
		o := w.obj(x)
		if o != nil && w.localVar(o) {
			return o
		}
	case *ast.ParenExpr:
		return w.rootObj(x.X)
	case *ast.StarExpr:
		return w.rootObj(x.X)
	case *ast.SelectorExpr:
		if sel := w.p.Info.Selections[x]; sel != nil && sel.Kind() == types.FieldVal {
			return w.rootObj(x.X)
		}
	case *ast.IndexExpr:
		return w.rootObj(x.X)
	}
	return nil
}

// pureName: a name for a path expression that is the same at two places exactly when no assignment / call in between
// can have changed what it denotes.
func (w *szWalker) pureName(e ast.Expr, st *szState) (string, bool) {
	switch x := e.(type) {
	case *ast.Ident:
		o := w.obj(x)
		if o == nil || !w.localVar(o) || w.volatile[o] {
			return "", false
		}
		return fmt.Sprintf("%s#%d", x.Name, w.epochOf(o, st)), true
	case *ast.ParenExpr:
		return w.pureName(x.X, st)
	case *ast.StarExpr:
		n, ok := w.pureName(x.X, st)
		return "*" + n, ok
	case *ast.SelectorExpr:
		if sel := w.p.Info.Selections[x]; sel != nil && sel.Kind() == types.FieldVal {
			n, ok := w.pureName(x.X, st)
			return n + "." + x.Sel.Name, ok
		}
	case *ast.IndexExpr:
		if o := w.rootObj(x.X); o != nil && w.elemSet[o] {
			return "", false
		}
		n, ok := w.pureName(x.X, st)
		if !ok {
			return "", false
		}
		if tv, has := w.p.Info.Types[x.Index]; has && tv.Value != nil {
			return n + "[" + tv.Value.ExactString() + "]", true
		}
		if in, ok2 := w.pureName(x.Index, st); ok2 {
			return n + "[" + in + "]", true
		}
	}
	return "", false
}

func isIntType(t types.Type) bool {
	if t == nil {
		return false
	}
	b, ok := t.Underlying().(*types.Basic)
	return ok && b.Info()&types.IsInteger != 0
}

func (w *szWalker) typeOf(e ast.Expr) types.Type {
	if tv, ok := w.p.Info.Types[e]; ok {
		return tv.Type
	}
	if id, ok := e.(*ast.Ident); ok {
		if o := w.obj(id); o != nil {
			return o.Type()
		}
	}
	return nil
}

func (w *szWalker) isBuiltin(fun ast.Expr, name string) bool {
	id, ok := ast.Unparen(fun).(*ast.Ident)
	if !ok || id.Name != name {
		return false
	}
	_, isB := w.obj(id).(*types.Builtin)
	return isB
}

// pkgFunc: fun is <pkg>.<name> of the standard library package with that import path.
func (w *szWalker) pkgFunc(fun ast.Expr, path, name string) bool {
	sel, ok := ast.Unparen(fun).(*ast.SelectorExpr)
	if !ok || sel.Sel.Name != name {
		return false
	}
	id, ok := sel.X.(*ast.Ident)
	if !ok {
		return false
	}
	pn, ok := w.obj(id).(*types.PkgName)
	return ok && pn.Imported().Path() == path
}

// lenAtom: the IR variable for len(x) / cap(x) with the recorded facts.
func (w *szWalker) lenAtom(x ast.Expr, st *szState) *szExpr {
	if tv, ok := w.p.Info.Types[x]; ok && tv.Value != nil && tv.Value.Kind() == gconst.String {
		return szC(int64(len(gconst.StringVal(tv.Value))))
	}
	if n, ok := w.pureName(x, st); ok {
		v := szV("len(" + n + ")")
		st.add(szCmp("le", szC(0), v))
		return v
	}
	v := w.freshVar("len")
	st.add(szCmp("le", szC(0), v))
	return v
}

func (w *szWalker) capAtom(x ast.Expr, st *szState) *szExpr {
	l := w.lenAtom(x, st)
	if _, isSlice := w.typeOf(x).Underlying().(*types.Slice); !isSlice {
		return l
	}
	var v *szExpr
	if n, ok := w.pureName(x, st); ok {
		v = szV("cap(" + n + ")")
	} else {
		v = w.freshVar("cap")
	}
	st.add(szCmp("le", l, v))
	return v
}

// intExpr: the IR of an integer expression (a fresh unknown where there is no rule).
func (w *szWalker) intExpr(e ast.Expr, st *szState) *szExpr {
	if tv, ok := w.p.Info.Types[e]; ok && tv.Value != nil && tv.Value.Kind() == gconst.Int {
		if k, exact := gconst.Int64Val(tv.Value); exact {
			return szC(k)
		}
		return w.freshVar("big")
	}
	switch x := e.(type) {
	case *ast.ParenExpr:
		return w.intExpr(x.X, st)
	case *ast.Ident, *ast.SelectorExpr, *ast.StarExpr, *ast.IndexExpr:
		if !isIntType(w.typeOf(e)) {
			return w.freshVar("nonint")
		}
		if n, ok := w.pureName(e, st); ok {
			v := szV(n)
			if id, isId := e.(*ast.Ident); isId && w.nonneg[w.obj(id)] {
				st.add(szCmp("le", szC(w.lower[w.obj(id)]), v))
			}
			return v
		}
		v := w.freshVar("read")
		if id, isId := e.(*ast.Ident); isId && w.nonneg[w.obj(id)] {
			st.add(szCmp("le", szC(w.lower[w.obj(id)]), v))
		}
		return v
	case *ast.UnaryExpr:
		switch x.Op {
		case token.SUB:
			return &szExpr{op: "neg", a: w.intExpr(x.X, st)}
		case token.ADD:
			return w.intExpr(x.X, st)
		}
	case *ast.BinaryExpr:
		switch x.Op {
		case token.ADD:
			return szBin("+", w.intExpr(x.X, st), w.intExpr(x.Y, st))
		case token.SUB:
			return szBin("-", w.intExpr(x.X, st), w.intExpr(x.Y, st))
		case token.MUL:
			a, b := w.intExpr(x.X, st), w.intExpr(x.Y, st)
			if a.op == "c" {
				return &szExpr{op: "*", k: a.k, a: b}
			}
			if b.op == "c" {
				return &szExpr{op: "*", k: b.k, a: a}
			}
		}
	case *ast.CallExpr:
		if len(x.Args) == 1 && w.isBuiltin(x.Fun, "len") {
			return w.lenAtom(x.Args[0], st)
		}
		if len(x.Args) == 1 && w.isBuiltin(x.Fun, "cap") {
			return w.capAtom(x.Args[0], st)
		}
		if tv, ok := w.p.Info.Types[x.Fun]; ok && tv.IsType() && len(x.Args) == 1 { // conversion
			if isIntType(tv.Type) && isIntType(w.typeOf(x.Args[0])) {
				return w.intExpr(x.Args[0], st)
			}
			return w.freshVar("conv")
		}
		if len(x.Args) == 1 && (w.pkgFunc(x.Fun, "unicode/utf8", "RuneCountInString") || w.pkgFunc(x.Fun, "unicode/utf8", "RuneCount")) {
			var v *szExpr
			if n, ok := w.pureName(x.Args[0], st); ok {
				v = szV("runes(" + n + ")")
			} else {
				v = w.freshVar("runes")
			}
			st.add(szCmp("le", szC(0), v))
			st.add(szCmp("le", v, w.lenAtom(x.Args[0], st)))
			return v
		}
		if sel, ok := x.Fun.(*ast.SelectorExpr); ok && len(x.Args) == 0 {
			if s := w.p.Info.Selections[sel]; s != nil && s.Kind() == types.MethodVal {
				if suffix, isAcc := w.accessors[s.Obj().(*types.Func)]; isAcc {
					if n, ok := w.pureName(sel.X, st); ok {
						v := szV("len(" + n + suffix + ")")
						st.add(szCmp("le", szC(0), v))
						return v
					}
					v := w.freshVar("len")
					st.add(szCmp("le", szC(0), v))
					return v
				}
			}
		}
	}
	return w.freshVar("expr")
}

var szFlip = map[token.Token]token.Token{token.EQL: token.NEQ, token.NEQ: token.EQL, token.LSS: token.GEQ, token.GEQ: token.LSS, token.GTR: token.LEQ, token.LEQ: token.GTR}

// cond: what is known when e evaluated to `pos`.
func (w *szWalker) cond(e ast.Expr, st *szState, pos bool) *szCond {
	switch x := e.(type) {
	case *ast.ParenExpr:
		return w.cond(x.X, st, pos)
	case *ast.UnaryExpr:
		if x.Op == token.NOT {
			return w.cond(x.X, st, !pos)
		}
	case *ast.BinaryExpr:
		switch x.Op {
		case token.LAND:
			if pos {
				return szAnd(w.cond(x.X, st, true), w.cond(x.Y, st, true))
			}
			return szOr(w.cond(x.X, st, false), w.cond(x.Y, st, false))
		case token.LOR:
			if pos {
				return szOr(w.cond(x.X, st, true), w.cond(x.Y, st, true))
			}
			return szAnd(w.cond(x.X, st, false), w.cond(x.Y, st, false))
		case token.EQL, token.NEQ, token.LSS, token.LEQ, token.GTR, token.GEQ:
			if !isIntType(w.typeOf(x.X)) || !isIntType(w.typeOf(x.Y)) {
				return szTT
			}
			op := x.Op
			if !pos {
				op = szFlip[op]
			}
			a, b := w.intExpr(x.X, st), w.intExpr(x.Y, st)
			switch op {
			case token.EQL:
				return szCmp("eq", a, b)
			case token.NEQ:
				return szCmp("ne", a, b)
			case token.LSS:
				return szCmp("lt", a, b)
			case token.LEQ:
				return szCmp("le", a, b)
			case token.GTR:
				return szCmp("lt", b, a)
			case token.GEQ:
				return szCmp("le", b, a)
			}
		}
	}
	return szTT
}

// ---------------------------------------------------------------- sites

func (w *szWalker) emit(pos token.Pos, kind, expr, what string, goal *szCond, st *szState) {
	if goal.a.op == "c" && goal.b.op == "c" {
		ok := false
		switch goal.op {
		case "le":
			ok = goal.a.k <= goal.b.k
		case "lt":
			ok = goal.a.k < goal.b.k
		}
		if ok {
			return
		}
	}
	// cone of influence
	vs := map[string]bool{}
	goal.vars(vs)
	used := make([]bool, len(st.facts))
	for changed := true; changed; {
		changed = false
		for i, f := range st.facts {
			if used[i] {
				continue
			}
			fv := map[string]bool{}
			f.vars(fv)
			hit := false
			for v := range fv {
				if vs[v] {
					hit = true
					break
				}
			}
			if hit {
				used[i] = true
				changed = true
				for v := range fv {
					vs[v] = true
				}
			}
		}
	}
	s := szSite{File: w.file, Fn: w.fn, Line: lineOf(pos), Kind: kind, Expr: expr, What: what, goal: goal, Goal: goal.text()}
	seen := map[string]bool{}
	for i, f := range st.facts {
		if used[i] && !seen[f.text()] {
			seen[f.text()] = true
			s.conds = append(s.conds, f)
			s.Conds = append(s.Conds, f.text())
		}
	}
	*w.sites = append(*w.sites, s)
}

func arithmetic(e ast.Expr) bool {
	switch x := e.(type) {
	case *ast.ParenExpr:
		return arithmetic(x.X)
	case *ast.UnaryExpr:
		return x.Op == token.SUB || arithmetic(x.X)
	case *ast.BinaryExpr:
		return x.Op == token.ADD || x.Op == token.SUB || arithmetic(x.X) || arithmetic(x.Y)
	}
	return false
}

func (w *szWalker) isConst(e ast.Expr) bool {
	tv, ok := w.p.Info.Types[e]
	return ok && tv.Value != nil
}

// seqLen: the upper bound of an index (len) and of a slice bound (cap for slices, len otherwise); nil = not a sequence.
func (w *szWalker) seqKind(x ast.Expr) string {
	t := w.typeOf(x)
	if t == nil {
		return ""
	}
	switch u := t.Underlying().(type) {
	case *types.Slice:
		return "slice"
	case *types.Array:
		return "array"
	case *types.Basic:
		if u.Info()&types.IsString != 0 {
			return "string"
		}
	case *types.Pointer:
		if _, ok := u.Elem().Underlying().(*types.Array); ok {
			return "array"
		}
	}
	return ""
}

func (w *szWalker) siteIndex(x *ast.IndexExpr, st *szState) {
	if w.seqKind(x.X) == "" || !arithmetic(x.Index) || w.isConst(x.Index) || !isIntType(w.typeOf(x.Index)) {
		return
	}
	i := w.intExpr(x.Index, st)
	l := w.lenAtom(x.X, st)
	w.emit(x.Pos(), "index", exprText(x), "low", szCmp("le", szC(0), i), st)
	w.emit(x.Pos(), "index", exprText(x), "high", szCmp("lt", i, l), st)
}

func (w *szWalker) siteSlice(x *ast.SliceExpr, st *szState) {
	kind := w.seqKind(x.X)
	if kind == "" {
		return
	}
	nonconst := false
	for _, b := range []ast.Expr{x.Low, x.High, x.Max} {
		if b != nil && !w.isConst(b) {
			nonconst = true
		}
	}
	if !nonconst {
		return
	}
	var upper *szExpr
	if kind == "slice" {
		upper = w.capAtom(x.X, st)
	} else {
		upper = w.lenAtom(x.X, st)
	}
	lo := szC(0)
	if x.Low != nil {
		lo = w.intExpr(x.Low, st)
		w.emit(x.Pos(), "slice", exprText(x), "low", szCmp("le", szC(0), lo), st)
	}
	var hi *szExpr
	if x.High != nil {
		hi = w.intExpr(x.High, st)
	} else {
		hi = w.lenAtom(x.X, st)
	}
	w.emit(x.Pos(), "slice", exprText(x), "order", szCmp("le", lo, hi), st)
	if x.Max != nil {
		mx := w.intExpr(x.Max, st)
		w.emit(x.Pos(), "slice", exprText(x), "high", szCmp("le", hi, mx), st)
		w.emit(x.Pos(), "slice", exprText(x), "max", szCmp("le", mx, upper), st)
	} else if x.High != nil {
		w.emit(x.Pos(), "slice", exprText(x), "high", szCmp("le", hi, upper), st)
	}
}

func (w *szWalker) siteCall(x *ast.CallExpr, st *szState) {
	if (w.pkgFunc(x.Fun, "strings", "Repeat") || w.pkgFunc(x.Fun, "bytes", "Repeat")) && len(x.Args) == 2 {
		w.emit(x.Pos(), "repeat", exprText(x), "count", szCmp("le", szC(0), w.intExpr(x.Args[1], st)), st)
		return
	}
	if w.isBuiltin(x.Fun, "make") && len(x.Args) >= 2 {
		t := w.typeOf(x.Args[0])
		if t == nil {
			return
		}
		switch t.Underlying().(type) {
		case *types.Slice, *types.Chan:
		default:
			return
		}
		n := w.intExpr(x.Args[1], st)
		w.emit(x.Pos(), "make", exprText(x), "len", szCmp("le", szC(0), n), st)
		if len(x.Args) == 3 {
			w.emit(x.Pos(), "make", exprText(x), "cap", szCmp("le", n, w.intExpr(x.Args[2], st)), st)
		}
	}
}

// callEffects: a call may change what hangs under a pointer / interface / struct / map variable it gets.
func (w *szWalker) callEffects(x *ast.CallExpr, st *szState) {
	if tv, ok := w.p.Info.Types[x.Fun]; ok && (tv.IsType() || tv.IsBuiltin()) {
		if w.isBuiltin(x.Fun, "copy") || w.isBuiltin(x.Fun, "delete") || w.isBuiltin(x.Fun, "clear") {
			// contents change, lengths of slices do not; a map's length does
			for _, a := range x.Args {
				if o := w.rootObj(a); o != nil {
					if _, isMap := w.typeOf(a).Underlying().(*types.Map); isMap {
						w.bump(o, st)
					}
				}
			}
		}
		return
	}
	touch := func(e ast.Expr) {
		if u, ok := e.(*ast.UnaryExpr); ok && u.Op == token.AND {
			if o := w.rootObj(u.X); o != nil {
				w.bump(o, st)
			}
			return
		}
		o := w.rootObj(e)
		if o == nil {
			return
		}
		// what the callee can reach through the value it gets
		t := w.typeOf(e)
		if t == nil {
			w.bump(o, st)
			return
		}
		switch t.Underlying().(type) {
		case *types.Basic:
			return
		case *types.Slice:
			// elements may change; the caller's length and capacity cannot — unless the slice is a field reached through a pointer
			// root that the callee also holds; the root itself is what was passed only if e is the root
			return
		}
		w.bump(o, st)
	}
	if sel, ok := x.Fun.(*ast.SelectorExpr); ok {
		if s := w.p.Info.Selections[sel]; s != nil && s.Kind() == types.MethodVal {
			if _, isAcc := w.accessors[s.Obj().(*types.Func)]; !isAcc {
				// a method: its receiver (pointer receivers are taken by address implicitly)
				if o := w.rootObj(sel.X); o != nil {
					w.bump(o, st)
				}
			}
		}
	}
	for _, a := range x.Args {
		touch(a)
	}
}

// scan: every expression is visited once, in evaluation order, with the facts that hold there.
func (w *szWalker) scan(e ast.Expr, st *szState) {
	switch x := e.(type) {
	case nil:
	case *ast.BadExpr, *ast.Ident, *ast.BasicLit, *ast.Ellipsis,
		*ast.ArrayType, *ast.StructType, *ast.FuncType, *ast.InterfaceType, *ast.MapType, *ast.ChanType:
	case *ast.FuncLit:
		w.funcLit(x, st)
	case *ast.CompositeLit:
		for _, el := range x.Elts {
			w.scan(el, st)
		}
	case *ast.ParenExpr:
		w.scan(x.X, st)
	case *ast.SelectorExpr:
		w.scan(x.X, st)
	case *ast.IndexExpr:
		w.scan(x.X, st)
		w.scan(x.Index, st)
		w.siteIndex(x, st)
	case *ast.IndexListExpr:
		w.scan(x.X, st)
	case *ast.SliceExpr:
		w.scan(x.X, st)
		w.scan(x.Low, st)
		w.scan(x.High, st)
		w.scan(x.Max, st)
		w.siteSlice(x, st)
	case *ast.TypeAssertExpr:
		w.scan(x.X, st)
	case *ast.CallExpr:
		w.scan(x.Fun, st)
		for _, a := range x.Args {
			w.scan(a, st)
		}
		w.siteCall(x, st)
		w.callEffects(x, st)
	case *ast.StarExpr:
		w.scan(x.X, st)
	case *ast.UnaryExpr:
		w.scan(x.X, st)
	case *ast.BinaryExpr:
		if x.Op == token.LAND || x.Op == token.LOR {
			w.scan(x.X, st)
			st2 := st.clone()
			st2.add(w.cond(x.X, st2, x.Op == token.LAND))
			w.scan(x.Y, st2)
			st.epoch = st2.epoch
			return
		}
		w.scan(x.X, st)
		w.scan(x.Y, st)
	case *ast.KeyValueExpr:
		w.scan(x.Key, st)
		w.scan(x.Value, st)
	default:
		fatal("sizefacts: %s:%d: expression %T without a rule", relFile(e.Pos()), lineOf(e.Pos()), e)
	}
}

// assignedIn: the local variables assigned (or declared, or ranged over) anywhere in the nodes, literals included.
func (w *szWalker) assignedIn(nodes ...ast.Node) map[types.Object]bool {
	out := map[types.Object]bool{}
	mark := func(e ast.Expr) {
		if o := w.rootObj(e); o != nil {
			if _, plain := ast.Unparen(e).(*ast.Ident); !plain && isElemAssign(w, e) && w.elemSet[o] {
				return
			}
			out[o] = true
		}
	}
	for _, n := range nodes {
		if n == nil {
			continue
		}
		ast.Inspect(n, func(m ast.Node) bool {
			switch x := m.(type) {
			case *ast.AssignStmt:
				for _, l := range x.Lhs {
					mark(l)
				}
			case *ast.IncDecStmt:
				mark(x.X)
			case *ast.RangeStmt:
				if x.Key != nil {
					mark(x.Key)
				}
				if x.Value != nil {
					mark(x.Value)
				}
			case *ast.ValueSpec:
				for _, id := range x.Names {
					mark(id)
				}
			case *ast.CallExpr:
				// calls forget what hangs under their receiver / pointer arguments: a loop with such a call changes them
				st := &szState{epoch: map[types.Object]int{}}
				before := w.counter
				w.callEffects(x, st)
				w.counter = before
				for o := range st.epoch {
					out[o] = true
				}
			case *ast.UnaryExpr:
				if x.Op == token.AND {
					mark(x.X)
				}
			}
			return true
		})
	}
	return out
}

func sortedObjs[V any](m map[types.Object]V) []types.Object {
	out := make([]types.Object, 0, len(m))
	for o := range m {
		out = append(out, o)
	}
	sort.Slice(out, func(i, j int) bool {
		if out[i].Pos() != out[j].Pos() {
			return out[i].Pos() < out[j].Pos()
		}
		return out[i].Name() < out[j].Name()
	})
	return out
}

func (w *szWalker) funcLit(x *ast.FuncLit, st *szState) {
	in := st.clone()
	for _, o := range sortedObjs(w.nassign) {
		if w.nassign[o] > 1 {
			w.bump(o, in)
		}
	}
	// everything that hangs under a pointer may have changed by the time the literal runs
	forget := func(o types.Object) bool {
		if _, basic := o.Type().Underlying().(*types.Basic); basic {
			return false
		}
		_, isSlice := o.Type().Underlying().(*types.Slice)
		return !isSlice
	}
	for _, o := range sortedObjs(in.epoch) {
		if forget(o) {
			w.bump(o, in)
		}
	}
	for _, o := range sortedObjs(w.init) {
		if _, done := in.epoch[o]; !done && forget(o) {
			w.bump(o, in)
		}
	}
	saved := w.fn
	w.fn = saved + "/func"
	w.block(x.Body.List, in)
	w.fn = saved
	for _, o := range sortedObjs(w.assignedIn(x.Body)) {
		w.bump(o, st)
	}
}

// ---------------------------------------------------------------- statements

func (w *szWalker) lenOfRHS(rhs ast.Expr, pre *szState) *szExpr {
	// pre: the state the right-hand side is read in
	switch x := ast.Unparen(rhs).(type) {
	case *ast.BasicLit:
		if x.Kind == token.STRING {
			if tv, ok := w.p.Info.Types[x]; ok && tv.Value != nil {
				return szC(int64(len(gconst.StringVal(tv.Value))))
			}
		}
	case *ast.BinaryExpr:
		if x.Op == token.ADD && w.seqKind(x) == "string" {
			var sum *szExpr
			var parts []ast.Expr
			var flat func(e ast.Expr)
			flat = func(e ast.Expr) {
				if b, ok := ast.Unparen(e).(*ast.BinaryExpr); ok && b.Op == token.ADD {
					flat(b.X)
					flat(b.Y)
					return
				}
				parts = append(parts, e)
			}
			flat(x)
			for _, p := range parts {
				pl := w.lenAtom(p, pre)
				if sum == nil {
					sum = pl
				} else {
					sum = szBin("+", sum, pl)
				}
			}
			return sum
		}
	case *ast.CallExpr:
		if w.isBuiltin(x.Fun, "make") && len(x.Args) >= 2 {
			if _, ok := w.typeOf(x.Args[0]).Underlying().(*types.Slice); ok {
				return w.intExpr(x.Args[1], pre)
			}
		} else if w.isBuiltin(x.Fun, "append") && len(x.Args) >= 1 && !x.Ellipsis.IsValid() {
			return szBin("+", w.lenAtom(x.Args[0], pre), szC(int64(len(x.Args)-1)))
		}
	case *ast.CompositeLit:
		if _, ok := w.typeOf(x).Underlying().(*types.Slice); ok {
			for _, el := range x.Elts {
				if _, kv := el.(*ast.KeyValueExpr); kv {
					return nil
				}
			}
			return szC(int64(len(x.Elts)))
		}
	case *ast.SliceExpr:
		if w.seqKind(x.X) != "" && x.Max == nil {
			lo := szC(0)
			if x.Low != nil {
				lo = w.intExpr(x.Low, pre)
			}
			var hi *szExpr
			if x.High != nil {
				hi = w.intExpr(x.High, pre)
			} else {
				hi = w.lenAtom(x.X, pre)
			}
			return szBin("-", hi, lo)
		}
	}
	return nil
}

// isElemAssign: the assigned location lies behind an index into a slice / array (x[i] = v, x.f[i].g = v): no length at or
// above the indexed container changes; what is read through an index under the same variable is never given a name
// (pureName) once the function holds such an assignment.
func isElemAssign(w *szWalker, lhs ast.Expr) bool {
	// walk from the outside in; remember the index step closest to the root
	var first *ast.IndexExpr
	e := lhs
	for {
		switch x := e.(type) {
		case *ast.ParenExpr:
			e = x.X
			continue
		case *ast.StarExpr:
			e = x.X
			continue
		case *ast.SelectorExpr:
			e = x.X
			continue
		case *ast.IndexExpr:
			first = x
			e = x.X
			continue
		}
		break
	}
	if first == nil {
		return false
	}
	k := w.seqKind(first.X)
	return k == "slice" || k == "array"
}

// assign: lhs = rhs (rhs == nil: unknown value).  `pre` is the state before the statement.
func (w *szWalker) assignOne(lhs ast.Expr, rhs ast.Expr, op token.Token, st *szState) {
	if id, ok := lhs.(*ast.Ident); ok && id.Name == "_" {
		return
	}
	o := w.rootObj(lhs)
	if o == nil {
		return
	}
	if _, plain := ast.Unparen(lhs).(*ast.Ident); !plain || w.volatile[o] {
		if !plain && isElemAssign(w, lhs) && w.elemSet[o] {
			return
		}
		w.bump(o, st)
		return
	}
	pre := st.clone()
	var val *szExpr
	if isIntType(o.Type()) && rhs != nil {
		switch op {
		case token.ASSIGN, token.DEFINE:
			val = w.intExpr(rhs, pre)
		case token.ADD_ASSIGN:
			val = szBin("+", w.intExpr(lhs, pre), w.intExpr(rhs, pre))
		case token.SUB_ASSIGN:
			val = szBin("-", w.intExpr(lhs, pre), w.intExpr(rhs, pre))
		}
	}
	w.bump(o, st)
	name, _ := w.pureName(lhs, st)
	if val != nil {
		st.facts = pre.facts[:len(pre.facts):len(pre.facts)]
		st.add(szCmp("eq", szV(name), val))
		if w.nonneg[o] {
			st.add(szCmp("le", szC(w.lower[o]), szV(name)))
		}
		return
	}
	if rhs != nil && (op == token.ASSIGN || op == token.DEFINE) {
		switch w.seqKind(lhs) {
		case "string", "slice":
			if l := w.lenOfRHS(rhs, pre); l != nil {
				st.facts = pre.facts[:len(pre.facts):len(pre.facts)]
				v := szV("len(" + name + ")")
				st.add(szCmp("le", szC(0), v))
				st.add(szCmp("eq", v, l))
			}
		}
	}
}

func (w *szWalker) block(list []ast.Stmt, st *szState) (*szState, bool) {
	for _, s := range list {
		var term bool
		st, term = w.stmt(s, st)
		if term {
			return st, true
		}
	}
	return st, false
}

// merge: the state behind a branching statement whose open ends are `ends` (all started as clones of pre).
func (w *szWalker) merge(node ast.Node, pre *szState, ends []*szState) (*szState, bool) {
	if len(ends) == 0 {
		return pre, true
	}
	if len(ends) == 1 {
		return ends[0], false
	}
	out := pre.clone()
	changed := map[types.Object]bool{}
	for _, b := range ends {
		for o, e := range b.epoch {
			if o.Pos() >= node.Pos() && o.Pos() <= node.End() {
				continue // declared inside: out of scope behind the statement
			}
			if w.epochOf(o, pre) != e {
				changed[o] = true
			}
		}
	}
	var objs []types.Object
	for o := range changed {
		objs = append(objs, o)
	}
	sort.Slice(objs, func(i, j int) bool { return objs[i].Pos() < objs[j].Pos() })
	type eqn struct {
		o types.Object
		m int
	}
	var eqs []eqn
	for _, o := range objs {
		m := w.fresh()
		out.epoch[o] = m
		eqs = append(eqs, eqn{o, m})
	}
	// one disjunctive fact per changed variable: in every open end, the facts found inside that end which share a variable
	// (transitively) with the variable's last epoch there, and new epoch = last epoch
	for _, q := range eqs {
		if w.volatile[q.o] {
			continue
		}
		kind := ""
		if isIntType(q.o.Type()) {
			kind = "int"
		} else {
			switch u := q.o.Type().Underlying().(type) {
			case *types.Slice:
				kind = "len"
			case *types.Basic:
				if u.Info()&types.IsString != 0 {
					kind = "len"
				}
			}
		}
		if kind == "" {
			continue
		}
		var disj *szCond
		for _, b := range ends {
			oldName := fmt.Sprintf("%s#%d", q.o.Name(), w.epochOf(q.o, b))
			newName := fmt.Sprintf("%s#%d", q.o.Name(), q.m)
			if kind == "len" {
				oldName, newName = "len("+oldName+")", "len("+newName+")"
			}
			vs := map[string]bool{oldName: true}
			suffix := b.facts[len(pre.facts):]
			used := make([]bool, len(suffix))
			for again := true; again; {
				again = false
				for i, f := range suffix {
					if used[i] {
						continue
					}
					fv := map[string]bool{}
					f.vars(fv)
					for v := range fv {
						if vs[v] {
							used[i], again = true, true
							break
						}
					}
					if used[i] {
						for v := range fv {
							vs[v] = true
						}
					}
				}
			}
			var conj []*szCond
			for i, f := range suffix {
				if used[i] {
					conj = append(conj, f)
				}
			}
			conj = append(conj, szCmp("eq", szV(newName), szV(oldName)))
			c := szAll(conj)
			if disj == nil {
				disj = c
			} else {
				disj = szOr(disj, c)
			}
		}
		out.add(disj)
	}
	// lengths are non-negative whatever the branch
	for _, q := range eqs {
		switch u := q.o.Type().Underlying().(type) {
		case *types.Slice:
			out.add(szCmp("le", szC(0), szV(fmt.Sprintf("len(%s#%d)", q.o.Name(), q.m))))
		case *types.Basic:
			if u.Info()&types.IsString != 0 {
				out.add(szCmp("le", szC(0), szV(fmt.Sprintf("len(%s#%d)", q.o.Name(), q.m))))
			} else if isIntType(u) && w.nonneg[q.o] {
				out.add(szCmp("le", szC(w.lower[q.o]), szV(fmt.Sprintf("%s#%d", q.o.Name(), q.m))))
			}
		}
	}
	return out, false
}

// havoc: the state behind a statement that is not followed branch by branch.
func (w *szWalker) havoc(pre *szState, nodes ...ast.Node) *szState {
	out := pre.clone()
	objs := w.assignedIn(nodes...)
	var list []types.Object
	for o := range objs {
		list = append(list, o)
	}
	sort.Slice(list, func(i, j int) bool { return list[i].Pos() < list[j].Pos() })
	for _, o := range list {
		w.bump(o, out)
	}
	return out
}

// breaksOut: an unlabelled break / a fallthrough that belongs to this switch / select body, or any labelled branch.
func breaksOut(body *ast.BlockStmt) bool {
	found := false
	var walk func(n ast.Node, inner bool)
	walk = func(n ast.Node, inner bool) {
		ast.Inspect(n, func(m ast.Node) bool {
			if m == nil || found {
				return false
			}
			if m == n {
				return true
			}
			switch x := m.(type) {
			case *ast.FuncLit:
				return false
			case *ast.ForStmt, *ast.RangeStmt, *ast.SwitchStmt, *ast.TypeSwitchStmt, *ast.SelectStmt:
				walk(m, true)
				return false
			case *ast.BranchStmt:
				switch {
				case x.Tok == token.GOTO:
					found = true
				case x.Label != nil && x.Tok == token.BREAK:
					found = true
				case !inner && (x.Tok == token.BREAK || x.Tok == token.FALLTHROUGH):
					found = true
				}
			}
			return true
		})
	}
	walk(body, false)
	return found
}

func isTerminatorCall(w *szWalker, e ast.Expr) bool {
	c, ok := e.(*ast.CallExpr)
	if !ok {
		return false
	}
	return w.isBuiltin(c.Fun, "panic") || w.pkgFunc(c.Fun, "os", "Exit")
}

func (w *szWalker) stmt(s ast.Stmt, st *szState) (*szState, bool) {
	switch x := s.(type) {
	case nil, *ast.EmptyStmt:
		return st, false
	case *ast.ExprStmt:
		w.scan(x.X, st)
		return st, isTerminatorCall(w, x.X)
	case *ast.SendStmt:
		w.scan(x.Chan, st)
		w.scan(x.Value, st)
		return st, false
	case *ast.GoStmt:
		w.scan(x.Call, st)
		return st, false
	case *ast.DeferStmt:
		w.scan(x.Call, st)
		return st, false
	case *ast.LabeledStmt:
		return w.stmt(x.Stmt, st)
	case *ast.ReturnStmt:
		for _, r := range x.Results {
			w.scan(r, st)
		}
		return st, true
	case *ast.BranchStmt:
		if x.Tok == token.GOTO {
			fatal("sizefacts: %s:%d: goto has no rule", relFile(x.Pos()), lineOf(x.Pos()))
		}
		return st, true
	case *ast.BlockStmt:
		return w.block(x.List, st)
	case *ast.IncDecStmt:
		w.scan(x.X, st)
		o := w.rootObj(x.X)
		if o == nil {
			return st, false
		}
		if _, plain := ast.Unparen(x.X).(*ast.Ident); plain && isIntType(o.Type()) && !w.volatile[o] {
			old := w.intExpr(x.X, st)
			w.bump(o, st)
			name, _ := w.pureName(x.X, st)
			d := int64(1)
			if x.Tok == token.DEC {
				d = -1
			}
			st.add(szCmp("eq", szV(name), szBin("+", old, szC(d))))
			if w.nonneg[o] {
				st.add(szCmp("le", szC(w.lower[o]), szV(name)))
			}
		} else if !(isElemAssign(w, x.X) && w.elemSet[o]) {
			w.bump(o, st)
		}
		return st, false
	case *ast.DeclStmt:
		gd, ok := x.Decl.(*ast.GenDecl)
		if !ok || gd.Tok != token.VAR {
			return st, false
		}
		for _, sp := range gd.Specs {
			vs := sp.(*ast.ValueSpec)
			for _, v := range vs.Values {
				w.scan(v, st)
			}
			for i, id := range vs.Names {
				var rhs ast.Expr
				if len(vs.Values) == len(vs.Names) {
					rhs = vs.Values[i]
				}
				if rhs == nil && len(vs.Values) == 0 {
					// zero value
					o := w.obj(id)
					if o != nil && w.localVar(o) && !w.volatile[o] && id.Name != "_" {
						w.bump(o, st)
						name, _ := w.pureName(id, st)
						if isIntType(o.Type()) {
							st.add(szCmp("eq", szV(name), szC(0)))
						} else if k := w.seqKind(id); k == "string" || k == "slice" {
							st.add(szCmp("eq", szV("len("+name+")"), szC(0)))
						}
					}
					continue
				}
				w.assignOne(id, rhs, token.DEFINE, st)
			}
		}
		return st, false
	case *ast.AssignStmt:
		for _, r := range x.Rhs {
			w.scan(r, st)
		}
		for _, l := range x.Lhs {
			if _, plain := l.(*ast.Ident); !plain {
				w.scan(l, st)
			}
		}
		if len(x.Lhs) == len(x.Rhs) {
			if len(x.Lhs) == 1 {
				w.assignOne(x.Lhs[0], x.Rhs[0], x.Tok, st)
			} else {
				// parallel assignment: all right-hand sides are read first
				pre := st.clone()
				type pend struct {
					l   ast.Expr
					val *szExpr
				}
				var ps []pend
				for i, l := range x.Lhs {
					var val *szExpr
					if o := w.rootObj(l); o != nil && isIntType(o.Type()) {
						if _, plain := ast.Unparen(l).(*ast.Ident); plain && (x.Tok == token.ASSIGN || x.Tok == token.DEFINE) {
							val = w.intExpr(x.Rhs[i], pre)
						}
					}
					ps = append(ps, pend{l, val})
				}
				st.facts = pre.facts[:len(pre.facts):len(pre.facts)]
				for _, p := range ps {
					if id, ok := p.l.(*ast.Ident); ok && id.Name == "_" {
						continue
					}
					o := w.rootObj(p.l)
					if o == nil {
						continue
					}
					if _, plain := ast.Unparen(p.l).(*ast.Ident); !plain && isElemAssign(w, p.l) && w.elemSet[o] {
						continue
					}
					w.bump(o, st)
					if p.val != nil && !w.volatile[o] {
						name, _ := w.pureName(p.l, st)
						st.add(szCmp("eq", szV(name), p.val))
					}
				}
			}
		} else {
			for _, l := range x.Lhs {
				w.assignOne(l, nil, x.Tok, st)
			}
		}
		return st, false
	case *ast.IfStmt:
		if x.Init != nil {
			st, _ = w.stmt(x.Init, st)
		}
		w.scan(x.Cond, st)
		a := st.clone()
		a.add(w.cond(x.Cond, a, true))
		b := st.clone()
		b.add(w.cond(x.Cond, b, false))
		var ends []*szState
		ea, ta := w.block(x.Body.List, a)
		if !ta {
			ends = append(ends, ea)
		}
		if x.Else != nil {
			eb, tb := w.stmt(x.Else, b)
			if !tb {
				ends = append(ends, eb)
			}
		} else {
			ends = append(ends, b)
		}
		return w.merge(x, st, ends)
	case *ast.SwitchStmt:
		if x.Init != nil {
			st, _ = w.stmt(x.Init, st)
		}
		w.scan(x.Tag, st)
		return w.switchLike(x, x.Body, st, func(cc *ast.CaseClause, s *szState, pos bool) *szCond {
			// the condition under which this clause is chosen (pos) / not chosen (!pos), earlier clauses aside
			var c *szCond
			for _, e := range cc.List {
				var one *szCond
				if x.Tag == nil {
					one = w.cond(e, s, pos)
				} else if isIntType(w.typeOf(x.Tag)) && isIntType(w.typeOf(e)) {
					op := "eq"
					if !pos {
						op = "ne"
					}
					one = szCmp(op, w.intExpr(x.Tag, s), w.intExpr(e, s))
				} else {
					one = szTT
				}
				if c == nil {
					c = one
				} else if pos {
					c = szOr(c, one)
				} else {
					c = szAnd(c, one)
				}
			}
			if c == nil {
				return szTT
			}
			return c
		})
	case *ast.TypeSwitchStmt:
		if x.Init != nil {
			st, _ = w.stmt(x.Init, st)
		}
		switch a := x.Assign.(type) {
		case *ast.ExprStmt:
			w.scan(a.X, st)
		case *ast.AssignStmt:
			for _, r := range a.Rhs {
				w.scan(r, st)
			}
		}
		return w.switchLike(x, x.Body, st, func(cc *ast.CaseClause, s *szState, pos bool) *szCond { return szTT })
	case *ast.SelectStmt:
		if breaksOut(x.Body) {
			for _, c := range x.Body.List {
				cc := c.(*ast.CommClause)
				b := w.havoc(st, x)
				if cc.Comm != nil {
					b, _ = w.stmt(cc.Comm, b)
				}
				w.block(cc.Body, b)
			}
			return w.havoc(st, x), false
		}
		var ends []*szState
		for _, c := range x.Body.List {
			cc := c.(*ast.CommClause)
			b := st.clone()
			if cc.Comm != nil {
				b, _ = w.stmt(cc.Comm, b)
			}
			e, t := w.block(cc.Body, b)
			if !t {
				ends = append(ends, e)
			}
		}
		return w.merge(x, st, ends)
	case *ast.ForStmt:
		if x.Init != nil {
			st, _ = w.stmt(x.Init, st)
		}
		head := w.havoc(st, x.Cond, x.Body, x.Post)
		w.nonnegFacts(head)
		if x.Cond != nil {
			w.scan(x.Cond, head)
		}
		body := head.clone()
		if x.Cond != nil {
			body.add(w.cond(x.Cond, body, true))
		}
		end, t := w.block(x.Body.List, body)
		if !t && x.Post != nil {
			w.stmt(x.Post, end)
		} else if x.Post != nil {
			// reached by `continue`: the post statement runs in an unknown state of the loop's variables
			w.stmt(x.Post, w.havoc(head, x.Body))
		}
		out := w.havoc(st, x.Cond, x.Body, x.Post)
		w.nonnegFacts(out)
		return out, false
	case *ast.RangeStmt:
		w.scan(x.X, st)
		var bound *szExpr
		switch w.seqKind(x.X) {
		case "slice", "string", "array":
			bound = w.lenAtom(x.X, st)
		default:
			if isIntType(w.typeOf(x.X)) {
				bound = w.intExpr(x.X, st)
			}
		}
		head := w.havoc(st, x.Body)
		w.nonnegFacts(head)
		for _, kv := range []ast.Expr{x.Key, x.Value} {
			if kv == nil {
				continue
			}
			if o := w.rootObj(kv); o != nil {
				w.bump(o, head)
			}
		}
		if x.Key != nil && bound != nil {
			if id, ok := x.Key.(*ast.Ident); ok && id.Name != "_" {
				if o := w.obj(id); o != nil && !w.volatile[o] && w.localVar(o) {
					name, _ := w.pureName(id, head)
					head.add(szCmp("le", szC(0), szV(name)))
					head.add(szCmp("lt", szV(name), bound))
				}
			}
		}
		w.block(x.Body.List, head.clone())
		out := w.havoc(st, x.Body)
		for _, kv := range []ast.Expr{x.Key, x.Value} {
			if kv != nil {
				if o := w.rootObj(kv); o != nil {
					w.bump(o, out)
				}
			}
		}
		w.nonnegFacts(out)
		return out, false
	}
	fatal("sizefacts: %s:%d: statement %T without a rule", relFile(s.Pos()), lineOf(s.Pos()), s)
	return st, false
}

// nonnegFacts: nothing to add eagerly — the fact v >= 0 of a monotone counter is added where the variable is read (intExpr).
func (w *szWalker) nonnegFacts(st *szState) {}

func (w *szWalker) switchLike(node ast.Node, body *ast.BlockStmt, st *szState, clauseCond func(*ast.CaseClause, *szState, bool) *szCond) (*szState, bool) {
	if breaksOut(body) {
		for _, c := range body.List {
			cc := c.(*ast.CaseClause)
			for _, e := range cc.List {
				w.scan(e, st)
			}
			w.block(cc.Body, w.havoc(st, node))
		}
		return w.havoc(st, node), false
	}
	var ends []*szState
	var negs []*szCond // the negations of the clauses seen so far (default aside)
	var def *ast.CaseClause
	var clauses []*ast.CaseClause
	for _, c := range body.List {
		cc := c.(*ast.CaseClause)
		if cc.List == nil {
			def = cc
			continue
		}
		clauses = append(clauses, cc)
	}
	for _, cc := range clauses {
		for _, e := range cc.List {
			w.scan(e, st)
		}
		b := st.clone()
		for _, n := range negs {
			b.add(n)
		}
		b.add(clauseCond(cc, b, true))
		e, t := w.block(cc.Body, b)
		if !t {
			ends = append(ends, e)
		}
		tmp := st.clone()
		n := clauseCond(cc, tmp, false)
		negs = append(negs, tmp.facts[len(st.facts):]...)
		negs = append(negs, n)
	}
	b := st.clone()
	for _, n := range negs {
		b.add(n)
	}
	if def != nil {
		e, t := w.block(def.Body, b)
		if !t {
			ends = append(ends, e)
		}
	} else {
		ends = append(ends, b)
	}
	return w.merge(node, st, ends)
}

// ---------------------------------------------------------------- per function

// lengthAccessors: methods without parameters whose body is `return len(recv.path)` or `return recv.path.Accessor()`.
func lengthAccessors(p *Pkg) map[*types.Func]string {
	out := map[*types.Func]string{}
	suffixOf := func(recv string, e ast.Expr) (string, bool) {
		var parts []string
		for {
			switch x := e.(type) {
			case *ast.Ident:
				if x.Name != recv {
					return "", false
				}
				s := ""
				for i := len(parts) - 1; i >= 0; i-- {
					s += "." + parts[i]
				}
				return s, true
			case *ast.SelectorExpr:
				parts = append(parts, x.Sel.Name)
				e = x.X
			default:
				return "", false
			}
		}
	}
	for changed := true; changed; {
		changed = false
		for _, f := range p.Files {
			for _, d := range f.Decls {
				fd, ok := d.(*ast.FuncDecl)
				if !ok || fd.Recv == nil || fd.Body == nil || len(fd.Recv.List) != 1 || len(fd.Recv.List[0].Names) != 1 || fd.Type.Params.NumFields() != 0 || len(fd.Body.List) != 1 {
					continue
				}
				fn, _ := p.Info.Defs[fd.Name].(*types.Func)
				if fn == nil {
					continue
				}
				if _, done := out[fn]; done {
					continue
				}
				ret, ok := fd.Body.List[0].(*ast.ReturnStmt)
				if !ok || len(ret.Results) != 1 {
					continue
				}
				call, ok := ret.Results[0].(*ast.CallExpr)
				if !ok {
					continue
				}
				recv := fd.Recv.List[0].Names[0].Name
				if id, isId := call.Fun.(*ast.Ident); isId && id.Name == "len" && len(call.Args) == 1 {
					if _, isB := p.Info.Uses[id].(*types.Builtin); isB {
						if s, ok := suffixOf(recv, call.Args[0]); ok {
							out[fn] = s
							changed = true
						}
					}
					continue
				}
				if sel, isSel := call.Fun.(*ast.SelectorExpr); isSel && len(call.Args) == 0 {
					if s := p.Info.Selections[sel]; s != nil && s.Kind() == types.MethodVal {
						if inner, known := out[s.Obj().(*types.Func)]; known {
							if pre, ok := suffixOf(recv, sel.X); ok {
								out[fn] = pre + inner
								changed = true
							}
						}
					}
				}
			}
		}
	}
	return out
}

// monotone counters: local integer variables only ever assigned non-negative constants, ++, += non-negative constant,
// len(..), or used as range keys.
func (w *szWalker) classify(fd *ast.FuncDecl) {
	bad := map[types.Object]bool{}
	seen := map[types.Object]bool{}
	count := func(e ast.Expr) types.Object {
		o := w.rootObj(e)
		if o != nil {
			w.nassign[o]++
		}
		return o
	}
	low := map[types.Object]int64{}
	note := func(o types.Object, k int64) {
		if o == nil {
			return
		}
		if cur, ok := low[o]; !ok || k < cur {
			low[o] = k
		}
	}
	var okObj types.Object
	okRHS := func(e ast.Expr) bool {
		if tv, ok := w.p.Info.Types[e]; ok && tv.Value != nil && tv.Value.Kind() == gconst.Int {
			if k, exact := gconst.Int64Val(tv.Value); exact && k >= 0 {
				note(okObj, k)
				return true
			}
			return false
		}
		if c, ok := ast.Unparen(e).(*ast.CallExpr); ok && len(c.Args) == 1 && (w.isBuiltin(c.Fun, "len") || w.isBuiltin(c.Fun, "cap")) {
			note(okObj, 0)
			return true
		}
		return false
	}
	// parameters count as one assignment
	if fd.Type.Params != nil {
		for _, f := range fd.Type.Params.List {
			for _, n := range f.Names {
				if o := w.p.Info.Defs[n]; o != nil {
					w.nassign[o]++
					bad[o] = true
				}
			}
		}
	}
	if fd.Type.Results != nil {
		for _, f := range fd.Type.Results.List {
			for _, n := range f.Names {
				if o := w.p.Info.Defs[n]; o != nil {
					w.nassign[o] += 2
					bad[o] = true
				}
			}
		}
	}
	var lits []*ast.FuncLit
	ast.Inspect(fd.Body, func(n ast.Node) bool {
		switch x := n.(type) {
		case *ast.FuncLit:
			lits = append(lits, x)
			for _, f := range x.Type.Params.List {
				for _, nm := range f.Names {
					if o := w.p.Info.Defs[nm]; o != nil {
						w.nassign[o] += 2
						bad[o] = true
					}
				}
			}
		case *ast.AssignStmt:
			for i, l := range x.Lhs {
				_, plain := ast.Unparen(l).(*ast.Ident)
				if !plain && isElemAssign(w, l) {
					if o := w.rootObj(l); o != nil {
						w.elemSet[o] = true
					}
					continue
				}
				o := count(l)
				if o == nil {
					continue
				}
				seen[o] = true
				okObj = o
				if x.Tok == token.ADD_ASSIGN {
					okObj = nil // v += k (k >= 0) keeps the bound the other assignments give
				}
				good := plain && len(x.Lhs) == len(x.Rhs) && (x.Tok == token.ASSIGN || x.Tok == token.DEFINE || x.Tok == token.ADD_ASSIGN) && okRHS(x.Rhs[i])

				if !good {
					bad[o] = true
				}
			}
		case *ast.IncDecStmt:
			if _, plain := ast.Unparen(x.X).(*ast.Ident); !plain && isElemAssign(w, x.X) {
				if o := w.rootObj(x.X); o != nil {
					w.elemSet[o] = true
				}
			} else if o := count(x.X); o != nil {
				seen[o] = true
				if x.Tok != token.INC {
					bad[o] = true
				}
			}
		case *ast.RangeStmt:
			if x.Key != nil {
				if o := count(x.Key); o != nil {
					seen[o] = true
					note(o, 0)
				}
			}
			if x.Value != nil {
				if o := count(x.Value); o != nil {
					bad[o] = true
				}
			}
		case *ast.ValueSpec:
			for i, id := range x.Names {
				o := count(id)
				if o == nil {
					continue
				}
				seen[o] = true
				if len(x.Values) == 0 {
					note(o, 0)
					continue // zero
				}
				okObj = o
				if len(x.Values) != len(x.Names) || !okRHS(x.Values[i]) {
					bad[o] = true
				}
			}
		case *ast.UnaryExpr:
			if x.Op == token.AND {
				if o := w.rootObj(x.X); o != nil {
					w.volatile[o] = true
				}
			}
		}
		return true
	})
	for o := range seen {
		if !bad[o] && isIntType(o.Type()) {
			if k, ok := low[o]; ok {
				w.nonneg[o] = true
				w.lower[o] = k
			}
		}
	}
	// assigned inside a literal, declared outside it
	for _, l := range lits {
		for o := range w.assignedIn(l.Body) {
			if o.Pos() < l.Pos() || o.Pos() > l.End() {
				w.volatile[o] = true
			}
		}
	}
	for o := range w.volatile {
		delete(w.nonneg, o)
	}
}

func sizeSites(p *Pkg) []szSite {
	var sites []szSite
	acc := lengthAccessors(p)
	for _, f := range p.Files {
		for _, d := range f.Decls {
			fd, ok := d.(*ast.FuncDecl)
			if !ok || fd.Body == nil {
				continue
			}
			w := &szWalker{p: p, fn: funcLabel(fd), file: relFile(fd.Pos()), init: map[types.Object]int{}, volatile: map[types.Object]bool{},
				nonneg: map[types.Object]bool{}, lower: map[types.Object]int64{}, elemSet: map[types.Object]bool{}, nassign: map[types.Object]int{}, sites: &sites, accessors: acc}
			w.classify(fd)
			w.block(fd.Body.List, &szState{epoch: map[types.Object]int{}})
		}
	}
	if len(sites) < 50 {
		fatal("sizefacts: only %d size obligations found in %s", len(sites), p.Path)
	}
	return sites
}

// ---------------------------------------------------------------- output

func writeSizeFacts(p *Pkg, leanPath, jsonPath string) {
	sites := sizeSites(p)
	var b strings.Builder
	b.WriteString("-- GENERATED by /verif/extract/errfacts (sizefacts.go) from every function of lib/query — do not edit.\n")
	b.WriteString("-- One entry per obligation of a size site (strings.Repeat / bytes.Repeat count, make length and capacity, arithmetic\n")
	b.WriteString("-- index, slice bounds): the operand as integer IR, the facts that hold when control reaches the site, and the result of\n")
	b.WriteString("-- the uniform tactic `size_decide` (unfold the evaluator, omega): `Proved.yes h` with h a proof for ALL valuations, or `Proved.no`.\n")
	b.WriteString("import Csvq.Model.SizeFacts\nnamespace Csvq.Gen.Size\nopen Csvq.SizeFacts\n\n")
	for i := range sites {
		s := &sites[i]
		idx := map[string]int{}
		vs := map[string]bool{}
		s.goal.vars(vs)
		for _, c := range s.conds {
			c.vars(vs)
		}
		var names []string
		for v := range vs {
			names = append(names, v)
		}
		sort.Strings(names)
		for k, n := range names {
			idx[n] = k
		}
		// stable, readable names: epochs renumbered in order of appearance
		s.Vars = names
		conds := make([]string, len(s.conds))
		for k, c := range s.conds {
			conds[k] = c.lean(idx)
		}
		fmt.Fprintf(&b, "def s%d : SizeSite := ⟨%s, %s, %s, %s, %s, %d,\n  [%s],\n  %s⟩\n", i, leanStr(s.File), leanStr(s.Fn), leanStr(s.Kind), leanStr(s.Expr), leanStr(s.What), len(names),
			strings.Join(conds, ",\n   "), s.goal.lean(idx))
		fmt.Fprintf(&b, "def p%d : Proved s%d.safe := by size_decide s%d\n\n", i, i, i)
	}
	b.WriteString("/-- every obligation with what the tactic found -/\ndef sizeEntries : List SizeEntry := [\n")
	for i := range sites {
		sep := ","
		if i == len(sites)-1 {
			sep = ""
		}
		fmt.Fprintf(&b, "  ⟨s%d, p%d⟩%s\n", i, i, sep)
	}
	b.WriteString("]\n\nend Csvq.Gen.Size\n")
	if err := os.WriteFile(leanPath, []byte(b.String()), 0o644); err != nil {
		fatal("%v", err)
	}
	js, err := json.MarshalIndent(sites, "", " ")
	if err != nil {
		fatal("%v", err)
	}
	if err := os.WriteFile(jsonPath, js, 0o644); err != nil {
		fatal("%v", err)
	}
}
