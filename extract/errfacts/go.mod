module errfacts

go 1.23
