// loopfacts.go — two more classes of obligations read off the same walk as the size sites (sizefacts.go):
//
// LOOPS.  Every `for` statement that is not a range: the exit condition gives candidate measures
// (`i < n` gives n - i, `a <= b` gives b - a + 1, `i != n` gives both differences; `for {}` takes the conditions of the
// `if c { break / return }` statements of its body), each measure is read at the head of the loop (epochs of the start of
// an iteration) and again at every back edge (end of the body and every `continue`, each followed by the post statement);
// one obligation per back edge: under the facts of that path of ONE iteration, measure' < measure and 0 <= measure.
// A loop is proved when all back edges of ONE of its measures are proved (loop_sites_terminate in Lean); a loop without a
// back edge ends after one pass.  Loops driven by an iterator / scanner / channel have no integer measure and are reviewed.
//
// CONVERSIONS.  int(f) / int64(f) … of a float and narrowing or sign-changing integer conversions give an unknown `?conv#n`
// whose value is known only when the operand is in range (NaN and out-of-range floats convert to a platform-defined value).
// A float expression is carried as two integer unknowns: nan(f) in {0,1} and fl(f) = floor(f) (infinities behave like integers
// beyond every constant); a comparison that is TRUE says both operands are numbers and orders the floors, a comparison that is
// FALSE says so only if neither operand is NaN; math.IsNaN decides nan(f); float64(n), math.Ceil / Floor / Trunc / Round / Abs /
// Min / Max have rules, products / quotients / calls are unknown.  A conversion whose unknown reaches (through the facts) a
// size obligation or a loop obligation of the same function gets the obligation float_to_size_guarded: under the facts at the
// conversion, the operand is a number inside the range of the target type.
package main

import (
	"fmt"
	"go/ast"
	gconst "go/constant"
	"go/token"
	"go/types"
	"math"
	"strings"
)

type szLoopCtx struct {
	node      ast.Stmt
	label     string
	continues []*szState
}

type szMeasure struct {
	Text  string `json:"text"`
	Edges []int  `json:"edges"` // indices into the loop obligations
	lhs   ast.Expr
	rhs   ast.Expr
	plus  int64
	head  *szExpr
}

type szLoop struct {
	File     string      `json:"file"`
	Fn       string      `json:"fn"`
	Line     int         `json:"line"`
	Header   string      `json:"header"`
	Edges    int         `json:"back_edges"`
	Measures []szMeasure `json:"measures"`
}

type szConv struct {
	File  string   `json:"file"`
	Fn    string   `json:"fn"`
	Line  int      `json:"line"`
	Kind  string   `json:"kind"` // float | narrow
	Expr  string   `json:"expr"`
	Flows []string `json:"flows_into"`
	name  string
	goal  *szCond
	facts []*szCond
	pos   token.Pos
}

func (w *szWalker) mkSite(pos token.Pos, kind, expr, what string, goal *szCond, facts []*szCond) szSite {
	used, vs := cone(goal, facts)
	w.noteFlows(vs, fmt.Sprintf("%s:%d %s [%s]", w.file, lineOf(pos), expr, what))
	s := szSite{File: w.file, Fn: w.fn, Line: lineOf(pos), Kind: kind, Expr: expr, What: what, goal: goal, Goal: goal.text()}
	seen := map[string]bool{}
	for i, f := range facts {
		if used[i] && !seen[f.text()] {
			seen[f.text()] = true
			s.conds = append(s.conds, f)
			s.Conds = append(s.Conds, f.text())
		}
	}
	return s
}

func (w *szWalker) noteFlows(vs map[string]bool, into string) {
	for v := range vs {
		if c := w.convOf[v]; c != nil {
			dup := false
			for _, f := range c.Flows {
				if f == into {
					dup = true
				}
			}
			if !dup {
				c.Flows = append(c.Flows, into)
			}
		}
	}
}

func (w *szWalker) noteContinue(x *ast.BranchStmt, st *szState) {
	for i := len(w.stack) - 1; i >= 0; i-- {
		c := w.stack[i]
		if x.Label == nil || x.Label.Name == c.label {
			c.continues = append(c.continues, st.clone())
			return
		}
	}
}

// conjuncts of what holds while the loop goes on
func (w *szWalker) goOn(e ast.Expr, pos bool, out *[]*ast.BinaryExpr, flips *[]bool) {
	switch x := e.(type) {
	case *ast.ParenExpr:
		w.goOn(x.X, pos, out, flips)
	case *ast.UnaryExpr:
		if x.Op == token.NOT {
			w.goOn(x.X, !pos, out, flips)
		}
	case *ast.BinaryExpr:
		switch {
		case x.Op == token.LAND && pos, x.Op == token.LOR && !pos:
			w.goOn(x.X, pos, out, flips)
			w.goOn(x.Y, pos, out, flips)
		case x.Op == token.LSS || x.Op == token.LEQ || x.Op == token.GTR || x.Op == token.GEQ || x.Op == token.NEQ || x.Op == token.EQL:
			if isIntType(w.typeOf(x.X)) && isIntType(w.typeOf(x.Y)) {
				*out = append(*out, x)
				*flips = append(*flips, !pos)
			}
		}
	}
}

// loopMeasures: candidate measures of a for statement, read in the state of the head.
func (w *szWalker) loopMeasures(x *ast.ForStmt, head *szState) []szMeasure {
	var cmps []*ast.BinaryExpr
	var flips []bool
	if x.Cond != nil {
		w.goOn(x.Cond, true, &cmps, &flips)
	}
	// exits of the body: `if c { break }` / `if c { return … }` at the top level of the body: the loop goes on under !c
	for _, s := range x.Body.List {
		is, ok := s.(*ast.IfStmt)
		if !ok || is.Else != nil || is.Init != nil || len(is.Body.List) == 0 {
			continue
		}
		switch last := is.Body.List[len(is.Body.List)-1].(type) {
		case *ast.ReturnStmt:
			w.goOn(is.Cond, false, &cmps, &flips)
		case *ast.BranchStmt:
			if last.Tok == token.BREAK && last.Label == nil {
				w.goOn(is.Cond, false, &cmps, &flips)
			}
		}
	}
	var out []szMeasure
	add := func(lo, hi ast.Expr, plus int64) {
		m := szMeasure{lhs: lo, rhs: hi, plus: plus}
		m.Text = exprText(hi) + " - " + exprText(lo)
		if plus != 0 {
			m.Text += fmt.Sprintf(" + %d", plus)
		}
		for _, o := range out {
			if o.Text == m.Text {
				return
			}
		}
		m.head = w.measureAt(&m, head)
		out = append(out, m)
	}
	for i, c := range cmps {
		op := c.Op
		if flips[i] {
			op = szFlip[op]
		}
		switch op {
		case token.LSS:
			add(c.X, c.Y, 0)
		case token.LEQ:
			add(c.X, c.Y, 1)
		case token.GTR:
			add(c.Y, c.X, 0)
		case token.GEQ:
			add(c.Y, c.X, 1)
		case token.NEQ:
			add(c.X, c.Y, 0)
			add(c.Y, c.X, 0)
		}
	}
	return out
}

func (w *szWalker) measureAt(m *szMeasure, st *szState) *szExpr {
	e := szBin("-", w.intExpr(m.rhs, st), w.intExpr(m.lhs, st))
	if m.plus != 0 {
		e = szBin("+", e, szC(m.plus))
	}
	return e
}

func (w *szWalker) loopHeader(x *ast.ForStmt) string {
	var b strings.Builder
	b.WriteString("for ")
	if x.Init != nil || x.Post != nil {
		if a, ok := x.Init.(*ast.AssignStmt); ok && len(a.Lhs) == 1 && len(a.Rhs) == 1 {
			b.WriteString(exprText(a.Lhs[0]) + " " + a.Tok.String() + " " + exprText(a.Rhs[0]))
		}
		b.WriteString("; ")
		if x.Cond != nil {
			b.WriteString(exprText(x.Cond))
		}
		b.WriteString("; ")
		switch p := x.Post.(type) {
		case *ast.IncDecStmt:
			b.WriteString(exprText(p.X) + p.Tok.String())
		case *ast.AssignStmt:
			if len(p.Lhs) == 1 && len(p.Rhs) == 1 {
				b.WriteString(exprText(p.Lhs[0]) + " " + p.Tok.String() + " " + exprText(p.Rhs[0]))
			}
		}
	} else if x.Cond != nil {
		b.WriteString(exprText(x.Cond))
	}
	return strings.TrimSpace(b.String())
}

func (w *szWalker) emitLoop(x *ast.ForStmt, cands []szMeasure, edges []*szState) {
	if w.loops == nil {
		return
	}
	l := szLoop{File: w.file, Fn: w.fn, Line: lineOf(x.Pos()), Header: w.loopHeader(x), Edges: len(edges)}
	for _, m := range cands {
		m.Edges = []int{}
		for k, e := range edges {
			now := w.measureAt(&m, e)
			goal := &szCond{op: "and", l: szCmp("lt", now, m.head), r: szCmp("le", szC(0), m.head)}
			s := w.mkSite(x.Pos(), "loop", l.Header, fmt.Sprintf("%s, back edge %d of %d", m.Text, k+1, len(edges)), goal, e.facts)
			m.Edges = append(m.Edges, len(*w.loopSites))
			*w.loopSites = append(*w.loopSites, s)
		}
		l.Measures = append(l.Measures, m)
	}
	if l.Measures == nil {
		l.Measures = []szMeasure{}
	}
	*w.loops = append(*w.loops, l)
}

// ---------------------------------------------------------------- floats

type szFloat struct {
	nan, fl *szExpr
	exact   bool // the value is an integer (fl is the value itself)
	finite  bool // never an infinity when it is a number (a constant, float64 of an integer)
	nonzero bool // a constant other than zero
}

// bounded: the operand is not an infinity — statically, or because the facts keep its floor inside ±2^62
func (f *szFloat) unbounded() *szCond {
	if f.finite {
		return nil
	}
	const b = int64(1) << 62
	return szOrRaw(szCmp("lt", f.fl, szC(-b)), szCmp("lt", szC(b), f.fl))
}

func isFloatType(t types.Type) bool {
	if t == nil {
		return false
	}
	b, ok := t.Underlying().(*types.Basic)
	return ok && b.Info()&types.IsFloat != 0
}

func (w *szWalker) floatVars(name string, st *szState) *szFloat {
	n, f := szV("nan("+name+")"), szV("fl("+name+")")
	st.add(szCmp("le", szC(0), n))
	st.add(szCmp("le", n, szC(1)))
	return &szFloat{nan: n, fl: f}
}

func (w *szWalker) floatUnknown(st *szState) *szFloat {
	return w.floatVars(fmt.Sprintf("?float#%d", w.fresh()), st)
}

// floatExpr: a float expression as (nan, floor); never nil (an unknown where there is no rule).
func (w *szWalker) floatExpr(e ast.Expr, st *szState) *szFloat {
	if tv, ok := w.p.Info.Types[e]; ok && tv.Value != nil && (tv.Value.Kind() == gconst.Float || tv.Value.Kind() == gconst.Int) {
		v, _ := gconst.Float64Val(tv.Value)
		if math.Abs(v) < 9e18 {
			return &szFloat{nan: szC(0), fl: szC(int64(math.Floor(v))), exact: v == math.Floor(v), finite: true, nonzero: v != 0}
		}
		// a constant beyond the range of int64: only its side is known
		u := w.floatUnknown(st)
		st.add(szCmp("eq", u.nan, szC(0)))
		if v > 0 {
			st.add(szCmp("le", szC(math.MaxInt64), u.fl))
		} else {
			st.add(szCmp("le", u.fl, szC(math.MinInt64)))
		}
		return u
	}
	switch x := e.(type) {
	case *ast.ParenExpr:
		return w.floatExpr(x.X, st)
	case *ast.Ident, *ast.SelectorExpr, *ast.StarExpr, *ast.IndexExpr:
		if isFloatType(w.typeOf(e)) {
			if n, ok := w.pureName(e, st); ok {
				return w.floatVars(n, st)
			}
		}
	case *ast.UnaryExpr:
		if x.Op == token.SUB {
			a := w.floatExpr(x.X, st)
			if a.exact {
				return &szFloat{nan: a.nan, fl: &szExpr{op: "neg", a: a.fl}, exact: true}
			}
			u := w.floatUnknown(st)
			st.add(szCmp("eq", u.nan, a.nan))
			st.add(szCmp("le", szBin("-", &szExpr{op: "neg", a: a.fl}, szC(1)), u.fl))
			st.add(szCmp("le", u.fl, &szExpr{op: "neg", a: a.fl}))
			return u
		}
		if x.Op == token.ADD {
			return w.floatExpr(x.X, st)
		}
	case *ast.BinaryExpr:
		if (x.Op == token.MUL || x.Op == token.QUO) && isFloatType(w.typeOf(x)) {
			// only NaN-ness has a rule: a product of numbers is NaN only for 0 * Inf, a quotient only for 0 / 0 and Inf / Inf
			a, b := w.floatExprOf(x.X, st), w.floatExprOf(x.Y, st)
			u := w.floatUnknown(st)
			if a == nil || b == nil {
				return u
			}
			excuse := szOrRaw(szCmp("ne", a.nan, szC(0)), szCmp("ne", b.nan, szC(0)))
			if x.Op == token.MUL {
				// 0 * Inf: an operand next to a finite non-zero constant may be anything; next to a finite operand that may be zero
				// it must not be an infinity
				for _, pr := range [][2]*szFloat{{a, b}, {b, a}} {
					f, other := pr[0], pr[1]
					if other.finite && other.nonzero {
						continue
					}
					if c := f.unbounded(); c != nil {
						excuse = szOrRaw(excuse, c)
					}
				}
			} else {
				// the divisor is not zero, and the dividend is not an infinity
				zero := szAnd(szCmp("le", szC(0), b.fl), szCmp("le", b.fl, szC(0)))
				if b.exact {
					zero = szCmp("eq", b.fl, szC(0))
				}
				if !b.nonzero {
					excuse = szOrRaw(excuse, zero)
				}
				if !b.finite {
					// Inf / Inf
					if c := a.unbounded(); c != nil {
						excuse = szOrRaw(excuse, c)
					}
				}
			}
			st.add(szOrRaw(excuse, szCmp("eq", u.nan, szC(0))))
			return u
		}
	case *ast.CallExpr:
		if tv, ok := w.p.Info.Types[x.Fun]; ok && tv.IsType() && len(x.Args) == 1 && isFloatType(tv.Type) {
			if isIntType(w.typeOf(x.Args[0])) {
				return &szFloat{nan: szC(0), fl: w.intExpr(x.Args[0], st), exact: true, finite: true}
			}
			if isFloatType(w.typeOf(x.Args[0])) {
				return w.floatExpr(x.Args[0], st)
			}
		}
		one := func(name string) bool { return len(x.Args) == 1 && w.pkgFunc(x.Fun, "math", name) }
		switch {
		case one("Floor"):
			a := w.floatExpr(x.Args[0], st)
			return &szFloat{nan: a.nan, fl: a.fl, exact: true}
		case one("Ceil"), one("Trunc"), one("Round"), one("RoundToEven"):
			a := w.floatExpr(x.Args[0], st)
			if a.exact {
				return a
			}
			u := w.floatUnknown(st)
			st.add(szCmp("eq", u.nan, a.nan))
			st.add(szCmp("le", a.fl, u.fl))
			st.add(szCmp("le", u.fl, szBin("+", a.fl, szC(1))))
			u.exact = true
			return u
		case one("Abs"):
			a := w.floatExpr(x.Args[0], st)
			u := w.floatUnknown(st)
			st.add(szCmp("eq", u.nan, a.nan))
			st.add(szCmp("le", szC(0), u.fl))
			neg := &szExpr{op: "neg", a: a.fl}
			st.add(szOr(szAnd(szCmp("le", szC(0), a.fl), szCmp("eq", u.fl, a.fl)),
				szAnd(szCmp("lt", a.fl, szC(0)), szAnd(szCmp("le", szBin("-", neg, szC(1)), u.fl), szCmp("le", u.fl, neg)))))
			u.exact = a.exact
			return u
		case len(x.Args) == 2 && (w.pkgFunc(x.Fun, "math", "Min") || w.pkgFunc(x.Fun, "math", "Max")):
			a, b := w.floatExpr(x.Args[0], st), w.floatExpr(x.Args[1], st)
			u := w.floatUnknown(st)
			// a number when both are numbers
			st.add(szOr(szOr(szCmp("ne", a.nan, szC(0)), szCmp("ne", b.nan, szC(0))), szCmp("eq", u.nan, szC(0))))
			both := szAnd(szCmp("eq", a.nan, szC(0)), szCmp("eq", b.nan, szC(0)))
			var rel *szCond
			if w.pkgFunc(x.Fun, "math", "Min") {
				rel = szAnd(szAnd(szCmp("le", u.fl, a.fl), szCmp("le", u.fl, b.fl)), szOr(szCmp("eq", u.fl, a.fl), szCmp("eq", u.fl, b.fl)))
			} else {
				rel = szAnd(szAnd(szCmp("le", a.fl, u.fl), szCmp("le", b.fl, u.fl)), szOr(szCmp("eq", u.fl, a.fl), szCmp("eq", u.fl, b.fl)))
			}
			_ = both
			st.add(szOr(szOr(szCmp("ne", a.nan, szC(0)), szCmp("ne", b.nan, szC(0))), rel))
			u.exact = a.exact && b.exact
			return u
		}
	}
	return w.floatUnknown(st)
}

// floatCond: what a comparison of floats says when it evaluated to `pos`.
func (w *szWalker) floatCond(x *ast.BinaryExpr, st *szState, pos bool) *szCond {
	a, b := w.floatExprOf(x.X, st), w.floatExprOf(x.Y, st)
	if a == nil || b == nil {
		return szTT
	}
	// the relation between the floors for each outcome
	less := func(p, q *szFloat) *szCond { // p < q
		if q.exact {
			return szCmp("lt", p.fl, q.fl)
		}
		return szCmp("le", p.fl, q.fl)
	}
	lessEq := func(p, q *szFloat) *szCond { return szCmp("le", p.fl, q.fl) } // p <= q
	var whenTrue, whenFalse *szCond
	switch x.Op {
	case token.LSS:
		whenTrue, whenFalse = less(a, b), lessEq(b, a)
	case token.LEQ:
		whenTrue, whenFalse = lessEq(a, b), less(b, a)
	case token.GTR:
		whenTrue, whenFalse = less(b, a), lessEq(a, b)
	case token.GEQ:
		whenTrue, whenFalse = lessEq(b, a), less(a, b)
	case token.EQL:
		whenTrue, whenFalse = szCmp("eq", a.fl, b.fl), szTT
		if a.exact && b.exact {
			whenFalse = szCmp("ne", a.fl, b.fl)
		}
	case token.NEQ:
		whenTrue, whenFalse = szTT, szCmp("eq", a.fl, b.fl)
		if a.exact && b.exact {
			whenTrue = szCmp("ne", a.fl, b.fl)
		}
	default:
		return szTT
	}
	numbers := szAnd(szCmp("eq", a.nan, szC(0)), szCmp("eq", b.nan, szC(0)))
	notNumbers := szOr(szCmp("ne", a.nan, szC(0)), szCmp("ne", b.nan, szC(0)))
	// ordered comparisons and == are false when an operand is NaN; != is true
	trueMeans, falseMeans := szAnd(numbers, whenTrue), szTT
	if whenFalse.op != "tt" {
		falseMeans = szOr(notNumbers, whenFalse)
	}
	if x.Op == token.NEQ {
		trueMeans = szTT
		if whenTrue.op != "tt" {
			trueMeans = szOr(notNumbers, whenTrue)
		}
		falseMeans = szAnd(numbers, whenFalse)
	}
	if pos {
		return trueMeans
	}
	return falseMeans
}

// floatExprOf: a float or integer operand of a float comparison (nil: neither)
func (w *szWalker) floatExprOf(e ast.Expr, st *szState) *szFloat {
	t := w.typeOf(e)
	switch {
	case isFloatType(t):
		return w.floatExpr(e, st)
	case isIntType(t):
		return &szFloat{nan: szC(0), fl: w.intExpr(e, st), exact: true}
	}
	if tv, ok := w.p.Info.Types[e]; ok && tv.Value != nil {
		return w.floatExpr(e, st)
	}
	return nil
}

// ---------------------------------------------------------------- conversions

func intRange(t types.Type) (lo, hi int64, ok bool) {
	b, isB := t.Underlying().(*types.Basic)
	if !isB {
		return
	}
	switch b.Kind() {
	case types.Int, types.Int64:
		return math.MinInt64, math.MaxInt64, true
	case types.Int32:
		return math.MinInt32, math.MaxInt32, true
	case types.Int16:
		return math.MinInt16, math.MaxInt16, true
	case types.Int8:
		return math.MinInt8, math.MaxInt8, true
	case types.Uint8:
		return 0, math.MaxUint8, true
	case types.Uint16:
		return 0, math.MaxUint16, true
	case types.Uint32:
		return 0, math.MaxUint32, true
	case types.Uint, types.Uint64, types.Uintptr:
		return 0, math.MaxInt64, true // the upper half is not representable in the IR: treated as out of range
	}
	return
}

// widening: every value of `from` is a value of `to`
func widening(from, to types.Type) bool {
	flo, fhi, ok1 := intRange(from)
	tlo, thi, ok2 := intRange(to)
	if !ok1 || !ok2 {
		return false
	}
	if fb := from.Underlying().(*types.Basic); fb.Kind() == types.Uint || fb.Kind() == types.Uint64 || fb.Kind() == types.Uintptr {
		tb := to.Underlying().(*types.Basic)
		return tb.Kind() == types.Uint || tb.Kind() == types.Uint64 || tb.Kind() == types.Uintptr
	}
	return tlo <= flo && fhi <= thi
}

// conversion: T(arg) with an integer T.
func (w *szWalker) conversion(x *ast.CallExpr, target types.Type, st *szState) *szExpr {
	arg := x.Args[0]
	at := w.typeOf(arg)
	lo, hi, ok := intRange(target)
	if !ok {
		return w.freshVar("conv")
	}
	mk := func(kind string, inRange *szCond, value func(v *szExpr) *szCond) *szExpr {
		name := fmt.Sprintf("?conv#%d", w.fresh())
		v := szV(name)
		st.add(szCmp("le", szC(lo), v))
		st.add(szCmp("le", v, szC(hi)))
		c := &szConv{File: w.file, Fn: w.fn, Line: lineOf(x.Pos()), Kind: kind, Expr: exprText(x), name: name, goal: inRange, pos: x.Pos()}
		c.facts = st.facts[:len(st.facts):len(st.facts)]
		// outside the range nothing is known about the result
		st.add(szOrNot(inRange, value(v)))
		if w.convs != nil {
			*w.convs = append(*w.convs, c)
			w.convOf[name] = c
		}
		return v
	}
	switch {
	case isIntType(at):
		if widening(at, target) {
			return w.intExpr(arg, st)
		}
		a := w.intExpr(arg, st)
		return mk("narrow", szAnd(szCmp("le", szC(lo), a), szCmp("le", a, szC(hi))), func(v *szExpr) *szCond { return szCmp("eq", v, a) })
	case isFloatType(at):
		f := w.floatExpr(arg, st)
		in := szAnd(szCmp("eq", f.nan, szC(0)), szAnd(szCmp("le", szC(lo), f.fl), szCmp("le", f.fl, szC(hi))))
		return mk("float", in, func(v *szExpr) *szCond {
			if f.exact {
				return szCmp("eq", v, f.fl)
			}
			// truncation toward zero: the floor for a non-negative operand, floor or floor + 1 below zero
			return szOr(szAnd(szCmp("le", szC(0), f.fl), szCmp("eq", v, f.fl)),
				szAnd(szCmp("lt", f.fl, szC(0)), szAnd(szAnd(szCmp("le", f.fl, v), szCmp("le", v, szBin("+", f.fl, szC(1)))), szCmp("le", v, szC(0)))))
		})
	}
	return w.freshVar("conv")
}

// szOrNot: ¬p ∨ q for a conjunction p of comparisons
func szOrNot(p, q *szCond) *szCond {
	var neg func(c *szCond) *szCond
	neg = func(c *szCond) *szCond {
		switch c.op {
		case "and":
			return szOrRaw(neg(c.l), neg(c.r))
		case "le":
			return szCmp("lt", c.b, c.a)
		case "lt":
			return szCmp("le", c.b, c.a)
		case "eq":
			return szCmp("ne", c.a, c.b)
		case "ne":
			return szCmp("eq", c.a, c.b)
		}
		return szTT
	}
	n := neg(p)
	if n.op == "tt" {
		return szTT
	}
	return szOrRaw(n, q)
}

func szOrRaw(l, r *szCond) *szCond {
	if l.op == "tt" || r.op == "tt" {
		return szTT
	}
	return &szCond{op: "or", l: l, r: r}
}

// convObligations: one obligation per conversion whose unknown reached a size / loop obligation of the function.
func (w *szWalker) convObligations() []szSite {
	var out []szSite
	if w.convs == nil {
		return out
	}
	for _, c := range *w.convs {
		if len(c.Flows) == 0 {
			continue
		}
		saved := w.fn
		w.fn = c.Fn
		if c.Kind == "float" && c.goal.op == "and" {
			// two obligations: the operand is a number; it is inside the range
			for _, part := range []struct {
				what string
				goal *szCond
			}{{"float: not NaN", c.goal.l}, {"float: in range", c.goal.r}} {
				s := w.mkSite(c.pos, "conv", c.Expr, part.what, part.goal, c.facts)
				s.Flows = append([]string{}, c.Flows...)
				out = append(out, s)
			}
			w.fn = saved
			continue
		}
		s := w.mkSite(c.pos, "conv", c.Expr, c.Kind, c.goal, c.facts)
		w.fn = saved
		s.Flows = append([]string{}, c.Flows...)
		out = append(out, s)
	}
	return out
}
