package main

// argfacts — the argument-slice part of lean/Csvq/Gen/ErrFacts.lean (property C19): every index / slice
// expression on a TRACKED slice with the conditions on the slice's length that dominate it.
//
// Tracked slices (each is analysed inside one function declaration, identified by the source text of the
// slice expression — `args`, `list`, `expr.Args` …):
//
//	family "args"   the slice parameters of every function value of the Functions and AggregateFunctions tables,
//	                of the functions evalFunction / evalListFunction hand the evaluated arguments to (Call, Now,
//	                ListAgg, JsonAgg, UserDefinedFunction.Execute…), and of every function that receives such a
//	                slice unchanged (followed through calls, transitively, with the caller's conditions);
//	                a re-sliced slice (`args[1:]`) that is passed on or stored in a local starts a new tracked
//	                slice; a local built by `make([]T, len(s))` has the length of s;
//	family "Args"   `<p>.Args` for every parameter p of type parser.Function / AggregateFunction / ListFunction /
//	                AnalyticFunction of lib/query (the unevaluated argument lists), followed through calls that
//	                pass p on, and through the AnalyticFunction interface with the conditions that the
//	                implementation's own CheckArgsLen establishes (Analyze calls it first; checked here).
//
//	family "const"  every `X[k]` / `X[len(X)-k]` / `X[a:b]` with constant bounds on a variable or field path X of slice or string
//	                type in lib/query, lib/action, lib/cli, lib/option, under the length conditions of the SAME function only
//	                (no flows; a condition is forgotten when X or a prefix of its path is assigned; sites of the two families
//	                above are not repeated).  Most of these are guarded by an invariant, not by a length condition: the
//	                Lean side proves the guarded ones and pins the rest.
//
// What is emitted for a site: function (with the chain of callers whose conditions it inherits), file, line,
// source text, the index (constant, len-k, a non-negative variable, a[:b] forms) and the list of dominating
// conditions, outermost first: preconditions of the call chain, enclosing `if` / `switch` / `&&` / `||`
// conditions, the NEGATION of every earlier `if … { return / continue / break / panic }` of the same block, the
// loop condition `i < len(s)` / `for i := range s`.  Conditions that say nothing about the length are dropped
// (that only weakens the fact).  A condition `i < len(s)` is forgotten as soon as i is modified.
//
// Anything without a rule: exit 1 (statement / expression kinds), or an `unknown` site (an index expression, or a
// use of the tracked slice that lets it escape the analysis) which Props/C19Args.lean must list as reviewed.

import (
	"bytes"
	"fmt"
	"go/ast"
	goconst "go/constant"
	"go/printer"
	"go/token"
	"go/types"
	"sort"
	"strings"
)

// ---------------------------------------------------------------- condition trees

// lp: nil = no information (true).
type lp struct {
	op   string // "atom" | "varlt" | "and" | "or"
	kind string // atom: ge lt eq notLt notEq
	k    int
	v    types.Object // varlt: v < len(s)
	a, b *lp
}

func lpAnd(a, b *lp) *lp {
	if a == nil {
		return b
	}
	if b == nil {
		return a
	}
	return &lp{op: "and", a: a, b: b}
}

func lpOr(a, b *lp) *lp {
	if a == nil || b == nil {
		return nil
	}
	return &lp{op: "or", a: a, b: b}
}

func atomOf(kind string, k int) *lp { return &lp{op: "atom", kind: kind, k: k} }

// forVar: the tree with every `v' < len` of another variable than v replaced by "no information".
func (c *lp) forVar(v types.Object) *lp {
	if c == nil {
		return nil
	}
	switch c.op {
	case "atom":
		return c
	case "varlt":
		if v != nil && c.v == v {
			return c
		}
		return nil
	case "and":
		return lpAnd(c.a.forVar(v), c.b.forVar(v))
	case "or":
		return lpOr(c.a.forVar(v), c.b.forVar(v))
	}
	panic("lp.op")
}

// without: the tree with every `v < len` of a variable for which drop(v) holds replaced by "no information".
func (c *lp) without(drop func(types.Object) bool) *lp {
	if c == nil {
		return nil
	}
	switch c.op {
	case "atom":
		return c
	case "varlt":
		if drop(c.v) {
			return nil
		}
		return c
	case "and":
		return lpAnd(c.a.without(drop), c.b.without(drop))
	case "or":
		return lpOr(c.a.without(drop), c.b.without(drop))
	}
	panic("lp.op")
}

func (c *lp) lean() string {
	switch c.op {
	case "atom":
		return fmt.Sprintf(".atom (.%s %d)", c.kind, c.k)
	case "varlt":
		return ".varLt"
	case "and":
		return fmt.Sprintf(".and (%s) (%s)", c.a.lean(), c.b.lean())
	case "or":
		return fmt.Sprintf(".or (%s) (%s)", c.a.lean(), c.b.lean())
	}
	panic("lp.op")
}

func (c *lp) key() string {
	if c == nil {
		return "T"
	}
	if c.op == "varlt" {
		return "varlt:" + c.v.Name() + fmt.Sprint(c.v.Pos())
	}
	if c.op == "atom" {
		return c.kind + fmt.Sprint(c.k)
	}
	return c.op + "(" + c.a.key() + "," + c.b.key() + ")"
}

func condsKey(cs []*lp) string {
	var b strings.Builder
	for _, c := range cs {
		b.WriteString(c.key())
		b.WriteByte(';')
	}
	return b.String()
}

func leanConds(cs []*lp) string {
	q := make([]string, len(cs))
	for i, c := range cs {
		q[i] = c.lean()
	}
	return "[" + strings.Join(q, ", ") + "]"
}

// ---------------------------------------------------------------- results

type argSite struct {
	family, fn, file string
	line             int
	slice, expr      string
	conds            []*lp
	idx              string // const fromEnd var sliceFrom sliceTo slice
	a, b             int
}

type argUnknown struct {
	family, fn, file string
	line             int
	slice, expr, why string
}

// countCheck: `if C { return <argument-length error> }` — C as an exact condition on the length; ctx = the
// enclosing conditions that are not conditions on the length (source text), "" when there is none.
type countCheck struct {
	fn     string
	line   int
	reject *lp
	ctx    string
}

type flow struct {
	callee *types.Func
	param  int   // index of the parameter that receives the slice / the struct
	conds  []*lp // conditions at the call (nil for a re-sliced slice: it is a new slice)
	fresh  bool  // re-sliced: a new slice
	strct  bool  // the struct holding the slice is passed, not the slice
	pos    token.Pos
	text   string
	via    string // label of the calling context
	family string
}

type argRes struct {
	sites    []argSite
	unknowns []argUnknown
	checks   map[string][]countCheck // by context label
	flows    map[string][]flow       // by context label
	locals   []localRoot
}

type localRoot struct {
	p      *Pkg
	fd     *ast.FuncDecl
	name   string
	obj    types.Object
	alias  []string
	label  string
	family string
}

// ---------------------------------------------------------------- the walker

type aw struct {
	p      *Pkg
	fd     *ast.FuncDecl
	label  string
	family string
	path   string       // source text of the tracked slice
	base   types.Object // the variable the path starts with
	alias  []string     // expressions whose length equals the tracked slice's (make([]T, len(alias)))
	res    *argRes
	ctx    []string // enclosing conditions without a length reading (for count checks)
	nonNeg map[types.Object]bool
	soft   bool // family "const": intraprocedural only — no flows, no value-use reports, only constant indices; an assignment
	// to the slice (or to a prefix of its path) forgets every condition instead of stopping the extractor
}

// assignsPath: n assigns to the tracked slice, to a prefix of its path (`a` / `a.b` for `a.b.c`), or takes their address.
func (w *aw) assignsPath(n ast.Node) bool {
	if n == nil {
		return false
	}
	found := false
	isPrefix := func(e ast.Expr) bool {
		e = unparen(e)
		switch e.(type) {
		case *ast.Ident, *ast.SelectorExpr:
		default:
			return false
		}
		t := exprText(e)
		if t != w.path && !strings.HasPrefix(w.path, t+".") {
			return false
		}
		id := leftmostIdent(e)
		return id != nil && w.objOf(id) == w.base
	}
	ast.Inspect(n, func(m ast.Node) bool {
		switch x := m.(type) {
		case *ast.AssignStmt:
			for _, l := range x.Lhs {
				if isPrefix(l) {
					found = true
				}
			}
		case *ast.RangeStmt:
			for _, l := range []ast.Expr{x.Key, x.Value} {
				if l != nil && isPrefix(l) {
					found = true
				}
			}
		case *ast.UnaryExpr:
			if x.Op == token.AND && isPrefix(x.X) {
				found = true
			}
		}
		return !found
	})
	return found
}

func (w *aw) where(pos token.Pos) string {
	return fmt.Sprintf("%s:%d (%s, slice %s)", relFile(pos), lineOf(pos), w.label, w.path)
}

func unparen(e ast.Expr) ast.Expr {
	for {
		pe, ok := e.(*ast.ParenExpr)
		if !ok {
			return e
		}
		e = pe.X
	}
}

func leftmostIdent(e ast.Expr) *ast.Ident {
	for {
		switch x := e.(type) {
		case *ast.Ident:
			return x
		case *ast.SelectorExpr:
			e = x.X
		case *ast.ParenExpr:
			e = x.X
		default:
			return nil
		}
	}
}

func (w *aw) objOf(id *ast.Ident) types.Object {
	if o := w.p.Info.Uses[id]; o != nil {
		return o
	}
	return w.p.Info.Defs[id]
}

func (w *aw) isPath(e ast.Expr) bool {
	e = unparen(e)
	switch e.(type) {
	case *ast.Ident, *ast.SelectorExpr:
	default:
		return false
	}
	if exprText(e) != w.path {
		return false
	}
	id := leftmostIdent(e)
	return id != nil && w.objOf(id) == w.base
}

func (w *aw) isBase(e ast.Expr) bool {
	id, ok := unparen(e).(*ast.Ident)
	return ok && w.objOf(id) == w.base && w.path != id.Name
}

// lenOf: e is len(path) or len(alias).
func (w *aw) isLen(e ast.Expr) bool {
	c, ok := unparen(e).(*ast.CallExpr)
	if !ok || len(c.Args) != 1 {
		return false
	}
	f, ok := c.Fun.(*ast.Ident)
	if !ok || f.Name != "len" {
		return false
	}
	if _, isBuiltin := w.p.Info.Uses[f].(*types.Builtin); !isBuiltin {
		return false
	}
	if w.isPath(c.Args[0]) {
		return true
	}
	t := exprText(unparen(c.Args[0]))
	for _, a := range w.alias {
		if a == t {
			return true
		}
	}
	return false
}

func (w *aw) isLenSource(e ast.Expr) bool { // path or alias (for `range`)
	if w.isPath(e) {
		return true
	}
	t := exprText(unparen(e))
	for _, a := range w.alias {
		if a == t {
			return true
		}
	}
	return false
}

func (w *aw) constInt(e ast.Expr) (int, bool) {
	tv, ok := w.p.Info.Types[e]
	if !ok || tv.Value == nil || tv.Value.Kind() != goconst.Int {
		return 0, false
	}
	v, exact := goconst.Int64Val(tv.Value)
	if !exact || v < 0 || v > 1<<30 {
		return 0, false
	}
	return int(v), true
}

func (w *aw) intVar(e ast.Expr) types.Object {
	id, ok := unparen(e).(*ast.Ident)
	if !ok {
		return nil
	}
	v, ok := w.objOf(id).(*types.Var)
	if !ok || v.IsField() {
		return nil
	}
	if b, ok := v.Type().Underlying().(*types.Basic); !ok || b.Info()&types.IsInteger == 0 {
		return nil
	}
	if v.Pkg() != nil && v.Parent() == v.Pkg().Scope() {
		return nil
	}
	return v
}

func flipOp(op token.Token) token.Token {
	switch op {
	case token.LSS:
		return token.GTR
	case token.LEQ:
		return token.GEQ
	case token.GTR:
		return token.LSS
	case token.GEQ:
		return token.LEQ
	}
	return op
}

func negAtom(c *lp) *lp {
	switch c.kind {
	case "ge":
		return atomOf("lt", c.k)
	case "lt":
		return atomOf("notLt", c.k)
	case "eq":
		return atomOf("notEq", c.k)
	case "notEq":
		return atomOf("eq", c.k)
	case "notLt":
		return atomOf("lt", c.k)
	}
	panic("negAtom")
}

// tr: a condition c with (e == want) ⇒ c, and whether (e == want) ⇔ c.
func (w *aw) tr(e ast.Expr, want bool) (*lp, bool) {
	e = unparen(e)
	switch x := e.(type) {
	case *ast.UnaryExpr:
		if x.Op == token.NOT {
			return w.tr(x.X, !want)
		}
	case *ast.BinaryExpr:
		switch x.Op {
		case token.LAND, token.LOR:
			a, ea := w.tr(x.X, want)
			b, eb := w.tr(x.Y, want)
			if (x.Op == token.LAND) == want {
				return lpAnd(a, b), ea && eb
			}
			return lpOr(a, b), ea && eb
		case token.LSS, token.LEQ, token.GTR, token.GEQ, token.EQL, token.NEQ:
			op := x.Op
			var other ast.Expr
			switch {
			case w.isLen(x.X):
				other = x.Y
			case w.isLen(x.Y):
				other, op = x.X, flipOp(op)
			default:
				// s == nil ⇒ len(s) = 0 (not the converse)
				if (x.Op == token.EQL || x.Op == token.NEQ) && (w.isPath(x.X) && isNilIdent(w.p, x.Y) || w.isPath(x.Y) && isNilIdent(w.p, x.X)) {
					if (x.Op == token.EQL) == want {
						return atomOf("eq", 0), false
					}
				}
				return nil, false
			}
			// len OP other
			if k, ok := w.constInt(other); ok {
				var c *lp
				switch op {
				case token.GEQ:
					c = atomOf("ge", k)
				case token.GTR:
					c = atomOf("ge", k+1)
				case token.LSS:
					c = atomOf("lt", k)
				case token.LEQ:
					c = atomOf("lt", k+1)
				case token.EQL:
					c = atomOf("eq", k)
				case token.NEQ:
					c = atomOf("notEq", k)
				}
				if !want {
					c = negAtom(c)
				}
				return c, true
			}
			if v := w.intVar(other); v != nil {
				// len > v  /  ¬(len <= v)
				if op == token.GTR && want || op == token.LEQ && !want {
					return &lp{op: "varlt", v: v}, false
				}
			}
			return nil, false
		}
	}
	return nil, false
}

func isNilIdent(p *Pkg, e ast.Expr) bool {
	id, ok := unparen(e).(*ast.Ident)
	if !ok {
		return false
	}
	_, isNilObj := p.Info.Uses[id].(*types.Nil)
	return isNilObj
}

func (w *aw) cond(e ast.Expr, want bool) []*lp {
	c, _ := w.tr(e, want)
	if c == nil {
		return nil
	}
	return []*lp{c}
}

func cat(conds []*lp, extra ...*lp) []*lp {
	out := append([]*lp{}, conds...)
	for _, e := range extra {
		if e != nil {
			out = append(out, e)
		}
	}
	return out
}

// modifies: n assigns to v (other than by declaring it).
func (w *aw) modifies(n ast.Node, v types.Object) bool {
	if n == nil {
		return false
	}
	found := false
	ast.Inspect(n, func(m ast.Node) bool {
		switch x := m.(type) {
		case *ast.AssignStmt:
			for _, l := range x.Lhs {
				if id, ok := l.(*ast.Ident); ok && w.p.Info.Uses[id] == v {
					found = true
				}
			}
		case *ast.IncDecStmt:
			if id, ok := x.X.(*ast.Ident); ok && w.p.Info.Uses[id] == v {
				found = true
			}
		case *ast.RangeStmt:
			for _, l := range []ast.Expr{x.Key, x.Value} {
				if id, ok := l.(*ast.Ident); ok && x.Tok == token.ASSIGN && w.p.Info.Uses[id] == v {
					found = true
				}
			}
		case *ast.UnaryExpr:
			if id, ok := x.X.(*ast.Ident); ok && x.Op == token.AND && w.p.Info.Uses[id] == v {
				found = true // address taken
			}
		}
		return !found
	})
	return found
}

func (w *aw) dropModified(conds []*lp, n ast.Node) []*lp {
	var out []*lp
	for _, c := range conds {
		if d := c.without(func(v types.Object) bool { return w.modifies(n, v) }); d != nil {
			out = append(out, d)
		}
	}
	return out
}

func dropVars(conds []*lp) []*lp {
	var out []*lp
	for _, c := range conds {
		if d := c.without(func(types.Object) bool { return true }); d != nil {
			out = append(out, d)
		}
	}
	return out
}

// isNonNeg: v only ever holds non-negative values: it is a range key, or every assignment to it is a
// non-negative constant, `v++` or `v += <non-negative constant>` (wrap-around of int is not considered).
func (w *aw) isNonNeg(v types.Object) bool {
	if r, ok := w.nonNeg[v]; ok {
		return r
	}
	okAll, defined := true, false
	ast.Inspect(w.fd, func(m ast.Node) bool {
		switch x := m.(type) {
		case *ast.RangeStmt:
			if id, ok := x.Key.(*ast.Ident); ok && w.objOf(id) == v {
				defined = true
			}
			if id, ok := x.Value.(*ast.Ident); ok && w.objOf(id) == v {
				okAll = false
			}
		case *ast.AssignStmt:
			for i, l := range x.Lhs {
				id, ok := l.(*ast.Ident)
				if !ok || w.objOf(id) != v {
					continue
				}
				defined = true
				if len(x.Rhs) != len(x.Lhs) {
					okAll = false
					continue
				}
				switch x.Tok {
				case token.DEFINE, token.ASSIGN, token.ADD_ASSIGN:
					if _, ok := w.constInt(x.Rhs[i]); !ok {
						okAll = false
					}
				default:
					okAll = false
				}
			}
		case *ast.ValueSpec:
			for i, id := range x.Names {
				if w.objOf(id) != v {
					continue
				}
				defined = true
				if i < len(x.Values) {
					if _, ok := w.constInt(x.Values[i]); !ok {
						okAll = false
					}
				}
			}
		case *ast.IncDecStmt:
			if id, ok := x.X.(*ast.Ident); ok && w.objOf(id) == v && x.Tok != token.INC {
				okAll = false
			}
		case *ast.UnaryExpr:
			if id, ok := x.X.(*ast.Ident); ok && x.Op == token.AND && w.objOf(id) == v {
				okAll = false
			}
		}
		return true
	})
	r := okAll && defined
	w.nonNeg[v] = r
	return r
}

func (w *aw) site(pos token.Pos, e ast.Expr, conds []*lp, idx string, a, b int, v types.Object) {
	if w.soft && idx == "var" {
		return
	}
	var cs []*lp
	for _, c := range conds {
		if d := c.forVar(v); d != nil {
			cs = append(cs, d)
		}
	}
	w.res.sites = append(w.res.sites, argSite{w.family, w.label, relFile(pos), lineOf(pos), w.path, exprText(e), cs, idx, a, b})
}

func (w *aw) unknown(pos token.Pos, text, why string) {
	if w.soft {
		return // family "const" lists constant indices only
	}
	w.res.unknowns = append(w.res.unknowns, argUnknown{w.family, w.label, relFile(pos), lineOf(pos), w.path, text, why})
}

// resolve the function a call expression calls
func (w *aw) callee(call *ast.CallExpr) (fn *types.Func, builtin string, why string) {
	switch f := unparen(call.Fun).(type) {
	case *ast.Ident:
		switch o := w.p.Info.Uses[f].(type) {
		case *types.Builtin:
			return nil, o.Name(), ""
		case *types.Func:
			return o, "", ""
		case *types.TypeName:
			return nil, "", "conversion to " + o.Name()
		case *types.Var:
			return nil, "", "function value " + o.Name()
		}
	case *ast.SelectorExpr:
		switch o := w.p.Info.Uses[f.Sel].(type) {
		case *types.Func:
			if sel := w.p.Info.Selections[f]; sel != nil && types.IsInterface(sel.Recv()) {
				return o, "", "interface"
			}
			return o, "", ""
		case *types.TypeName:
			return nil, "", "conversion to " + o.Name()
		case *types.Var:
			return nil, "", "function value " + o.Name()
		}
	}
	return nil, "", "computed function " + exprText(call.Fun)
}

func (w *aw) addFlow(call *ast.CallExpr, argIdx int, conds []*lp, fresh, strct bool) {
	fn, builtin, why := w.callee(call)
	text := exprText(call)
	if len(text) > 120 {
		text = text[:120] + "…"
	}
	if builtin != "" {
		switch builtin {
		case "len", "cap", "copy":
			return
		}
		w.unknown(call.Pos(), text, "the slice is an argument of the builtin "+builtin)
		return
	}
	if fn == nil {
		w.unknown(call.Pos(), text, "the slice is passed to a "+why)
		return
	}
	sig := fn.Type().(*types.Signature)
	pi := argIdx
	if sig.Variadic() && pi >= sig.Params().Len()-1 {
		if !(call.Ellipsis.IsValid() && pi == sig.Params().Len()-1) {
			w.unknown(call.Pos(), text, "the slice is one element of a variadic argument list")
			return
		}
	}
	if pi >= sig.Params().Len() {
		fatal("%s: argument %d of %s has no parameter", w.where(call.Pos()), argIdx, fn.FullName())
	}
	if !strct {
		if _, isSlice := sig.Params().At(pi).Type().Underlying().(*types.Slice); !isSlice {
			w.unknown(call.Pos(), text, "the slice is passed as a "+sig.Params().At(pi).Type().String())
			return
		}
	} else if types.IsInterface(sig.Params().At(pi).Type()) {
		return // the struct as an interface value (error constructors, formatters): not followed (see header)
	}
	var cs []*lp
	if !fresh {
		cs = dropVars(conds)
	}
	w.res.flows[w.label] = append(w.res.flows[w.label], flow{fn, pi, cs, fresh, strct, call.Pos(), text, w.label, w.family})
	_ = why // "interface": resolved by the driver to the implementations
}

// expr walks an expression under conds.
func (w *aw) expr(e ast.Expr, conds []*lp) {
	if e == nil {
		return
	}
	switch x := e.(type) {
	case *ast.ParenExpr:
		w.expr(x.X, conds)
	case *ast.Ident:
		if w.isPath(x) && !w.soft {
			w.unknown(x.Pos(), exprText(x), "the slice is used as a value (assigned, returned, stored): it leaves the analysis")
		}
	case *ast.BasicLit:
	case *ast.SelectorExpr:
		if w.isPath(x) {
			if !w.soft {
				w.unknown(x.Pos(), exprText(x), "the slice is used as a value (assigned, returned, stored): it leaves the analysis")
			}
			return
		}
		w.expr(x.X, conds)
	case *ast.FuncLit:
		if w.soft && w.assignsPath(w.fd) {
			conds = nil
		}
		w.stmts(x.Body.List, dropVars(conds))
	case *ast.CompositeLit:
		for _, el := range x.Elts {
			if kv, ok := el.(*ast.KeyValueExpr); ok {
				if _, isId := kv.Key.(*ast.Ident); !isId {
					w.expr(kv.Key, conds)
				}
				w.expr(kv.Value, conds)
			} else {
				w.expr(el, conds)
			}
		}
	case *ast.StarExpr:
		w.expr(x.X, conds)
	case *ast.UnaryExpr:
		w.expr(x.X, conds)
	case *ast.TypeAssertExpr:
		w.expr(x.X, conds)
	case *ast.KeyValueExpr:
		w.expr(x.Key, conds)
		w.expr(x.Value, conds)
	case *ast.BinaryExpr:
		if x.Op == token.LAND {
			w.expr(x.X, conds)
			w.expr(x.Y, cat(conds, w.cond(x.X, true)...))
			return
		}
		if x.Op == token.LOR {
			w.expr(x.X, conds)
			w.expr(x.Y, cat(conds, w.cond(x.X, false)...))
			return
		}
		if (x.Op == token.EQL || x.Op == token.NEQ) && (w.isPath(x.X) && isNilIdent(w.p, x.Y) || w.isPath(x.Y) && isNilIdent(w.p, x.X)) {
			return
		}
		w.expr(x.X, conds)
		w.expr(x.Y, conds)
	case *ast.CallExpr:
		if w.isLen(x) {
			return
		}
		w.expr(x.Fun, conds)
		for i, a := range x.Args {
			switch {
			case w.soft:
				if se, ok := unparen(a).(*ast.SliceExpr); ok && w.isPath(se.X) {
					w.sliceSite(se, conds)
					continue
				}
				if !w.isPath(a) {
					w.expr(a, conds)
				}
			case w.isPath(a):
				w.addFlow(x, i, conds, false, false)
			case w.isBase(a):
				w.addFlow(x, i, conds, false, true)
			default:
				if se, ok := unparen(a).(*ast.SliceExpr); ok && w.isPath(se.X) {
					w.sliceSite(se, conds)
					w.addFlow(x, i, nil, true, false)
					continue
				}
				w.expr(a, conds)
			}
		}
	case *ast.SliceExpr:
		if w.isPath(x.X) {
			w.sliceSite(x, conds)
			if !w.soft {
				w.unknown(x.Pos(), exprText(x), "the re-sliced slice is used as a value that is neither a call argument nor a new local: it leaves the analysis")
			}
			return
		}
		w.expr(x.X, conds)
		w.expr(x.Low, conds)
		w.expr(x.High, conds)
		w.expr(x.Max, conds)
	case *ast.IndexExpr:
		if !w.isPath(x.X) {
			w.expr(x.X, conds)
			w.expr(x.Index, conds)
			return
		}
		ix := unparen(x.Index)
		if k, ok := w.constInt(ix); ok {
			w.site(x.Pos(), x, conds, "const", k, 0, nil)
		} else if be, ok := ix.(*ast.BinaryExpr); ok && be.Op == token.SUB && w.isLen(be.X) {
			if k, ok := w.constInt(be.Y); ok {
				w.site(x.Pos(), x, conds, "fromEnd", k, 0, nil)
			} else {
				w.unknown(x.Pos(), exprText(x), "index counted from the end by a non-constant")
			}
		} else if v := w.intVar(ix); v != nil {
			if w.isNonNeg(v) {
				w.site(x.Pos(), x, conds, "var", 0, 0, v)
			} else {
				w.unknown(x.Pos(), exprText(x), "index variable "+v.Name()+" is not non-negative by construction (range key / constants / ++)")
			}
		} else {
			w.unknown(x.Pos(), exprText(x), "computed index")
			w.expr(x.Index, conds)
		}
	case *ast.IndexListExpr, *ast.ArrayType, *ast.MapType, *ast.FuncType, *ast.StructType, *ast.InterfaceType, *ast.ChanType, *ast.Ellipsis:
	default:
		fatal("%s: expression %T (no rule)", w.where(e.Pos()), e)
	}
}

func (w *aw) sliceSite(x *ast.SliceExpr, conds []*lp) {
	if x.Slice3 {
		w.unknown(x.Pos(), exprText(x), "3-index slice")
		return
	}
	lo, hi := -1, -1
	if x.Low != nil {
		k, ok := w.constInt(x.Low)
		if !ok {
			w.unknown(x.Pos(), exprText(x), "slice bound is not a constant")
			w.expr(x.Low, conds)
			w.expr(x.High, conds)
			return
		}
		lo = k
	}
	if x.High != nil {
		k, ok := w.constInt(x.High)
		if !ok {
			w.unknown(x.Pos(), exprText(x), "slice bound is not a constant")
			w.expr(x.High, conds)
			return
		}
		hi = k
	}
	switch {
	case lo >= 0 && hi >= 0:
		w.site(x.Pos(), x, conds, "slice", lo, hi, nil)
	case lo >= 0:
		w.site(x.Pos(), x, conds, "sliceFrom", lo, 0, nil)
	case hi >= 0:
		w.site(x.Pos(), x, conds, "sliceTo", hi, 0, nil)
	default: // s[:] cannot fail
	}
}

func blockTerminates(b *ast.BlockStmt) bool {
	if b == nil || len(b.List) == 0 {
		return false
	}
	return stmtTerminates(b.List[len(b.List)-1])
}

func stmtTerminates(s ast.Stmt) bool {
	switch x := s.(type) {
	case *ast.ReturnStmt:
		return true
	case *ast.BranchStmt:
		return x.Tok == token.BREAK || x.Tok == token.CONTINUE || x.Tok == token.GOTO
	case *ast.ExprStmt:
		if c, ok := x.X.(*ast.CallExpr); ok {
			if id, ok := c.Fun.(*ast.Ident); ok && id.Name == "panic" {
				return true
			}
		}
	case *ast.BlockStmt:
		return blockTerminates(x)
	case *ast.IfStmt:
		if x.Else == nil {
			return false
		}
		return blockTerminates(x.Body) && stmtTerminates(x.Else)
	}
	return false
}

// isLenErrReturn: the block is `return …` handing back an argument-length error (a call of a function
// NewFunctionArgumentLengthError…), or `true` for a boolean result named …Err of a function without error result.
func (w *aw) isLenErrReturn(b *ast.BlockStmt) bool {
	// `xErr = true; return` with a boolean result named xErr of a helper without an error result
	if len(b.List) == 2 && w.fd.Type.Results != nil {
		as, ok1 := b.List[0].(*ast.AssignStmt)
		rs, ok2 := b.List[1].(*ast.ReturnStmt)
		if ok1 && ok2 && len(rs.Results) == 0 && as.Tok == token.ASSIGN && len(as.Lhs) == 1 && len(as.Rhs) == 1 && exprText(as.Rhs[0]) == "true" {
			for _, f := range w.fd.Type.Results.List {
				if exprText(f.Type) == "error" {
					return false
				}
			}
			for _, f := range w.fd.Type.Results.List {
				for _, nm := range f.Names {
					if exprText(f.Type) == "bool" && strings.HasSuffix(nm.Name, "Err") && exprText(as.Lhs[0]) == nm.Name {
						return true
					}
				}
			}
		}
		return false
	}
	if len(b.List) != 1 {
		return false
	}
	rs, ok := b.List[0].(*ast.ReturnStmt)
	if !ok {
		return false
	}
	for _, r := range rs.Results {
		found := false
		ast.Inspect(r, func(n ast.Node) bool {
			if c, ok := n.(*ast.CallExpr); ok {
				if id, ok := c.Fun.(*ast.Ident); ok && strings.HasPrefix(id.Name, "NewFunctionArgumentLengthError") {
					found = true
				}
			}
			return true
		})
		if found {
			return true
		}
	}
	// (…, argsErr bool) of a helper without an error result
	if w.fd.Type.Results == nil {
		return false
	}
	pos := 0
	for _, f := range w.fd.Type.Results.List {
		if exprText(f.Type) == "error" {
			return false
		}
	}
	for _, f := range w.fd.Type.Results.List {
		for _, nm := range f.Names {
			if exprText(f.Type) == "bool" && strings.HasSuffix(nm.Name, "Err") && pos < len(rs.Results) {
				if id, ok := rs.Results[pos].(*ast.Ident); ok && id.Name == "true" {
					return true
				}
			}
			pos++
		}
	}
	return false
}

func (w *aw) stmts(list []ast.Stmt, conds []*lp) {
	cur := conds
	for _, s := range list {
		w.stmt(s, cur)
		if ifs, ok := s.(*ast.IfStmt); ok {
			switch {
			case blockTerminates(ifs.Body):
				cur = cat(cur, w.cond(ifs.Cond, false)...)
			case ifs.Else != nil && stmtTerminates(ifs.Else):
				cur = cat(cur, w.cond(ifs.Cond, true)...)
			}
		}
		if sw, ok := s.(*ast.SwitchStmt); ok {
			// a switch without default every clause of which ends in return / break-out: behind it every case failed
			all, hasDefault := true, false
			var negs []*lp
			for _, c := range sw.Body.List {
				cc := c.(*ast.CaseClause)
				if cc.List == nil {
					hasDefault = true
				}
				if len(cc.Body) == 0 {
					all = false
					continue
				}
				if rs, isReturn := cc.Body[len(cc.Body)-1].(*ast.ReturnStmt); !isReturn || rs == nil {
					all = false // `break` inside a switch leaves the switch, not the block
				}
				for _, e := range cc.List {
					switch {
					case sw.Tag == nil:
						if n1, _ := w.tr(e, false); n1 != nil {
							negs = append(negs, n1)
						}
					case w.isLen(sw.Tag):
						if k, ok := w.constInt(e); ok {
							negs = append(negs, atomOf("notEq", k))
						}
					}
				}
			}
			if all && !hasDefault {
				cur = cat(cur, negs...)
			}
		}
		cur = w.dropModified(cur, s)
		if w.soft && w.assignsPath(s) {
			cur = nil
		}
	}
}

func (w *aw) checkAssign(x *ast.AssignStmt) (lengthPreserving bool) {
	if w.soft {
		return false
	}
	for i, l := range x.Lhs {
		l = unparen(l)
		hit := w.isPath(l)
		if id, ok := l.(*ast.Ident); ok && !hit && w.objOf(id) == w.base && x.Tok != token.DEFINE {
			hit = true
		}
		if !hit {
			continue
		}
		if x.Tok == token.DEFINE {
			if w.isPath(l) {
				continue // the declaration of a tracked local
			}
		}
		// P = X where X := make([]T, len(P)) earlier in the same function
		if len(x.Rhs) == len(x.Lhs) {
			if id, ok := unparen(x.Rhs[i]).(*ast.Ident); ok && w.isPath(l) {
				if w.madeWithLenOf(w.objOf(id), w.path) {
					lengthPreserving = true
					continue
				}
			}
		}
		fatal("%s: the tracked slice is assigned (no rule): %s", w.where(x.Pos()), exprText(l))
	}
	return
}

// madeWithLenOf: v is declared `v := make([]T, len(path))` in this function and never assigned again.
func (w *aw) madeWithLenOf(v types.Object, path string) bool {
	if v == nil {
		return false
	}
	made, other := false, false
	ast.Inspect(w.fd, func(n ast.Node) bool {
		as, ok := n.(*ast.AssignStmt)
		if !ok {
			return true
		}
		for i, l := range as.Lhs {
			id, ok := l.(*ast.Ident)
			if !ok || w.objOf(id) != v {
				continue
			}
			if as.Tok == token.DEFINE && len(as.Rhs) == len(as.Lhs) && makeLenOf(w.p, as.Rhs[i]) == path {
				made = true
			} else {
				other = true
			}
		}
		return true
	})
	return made && !other
}

// makeLenOf: e is make([]T, len(X)) — returns the text of X.
func makeLenOf(p *Pkg, e ast.Expr) string {
	c, ok := unparen(e).(*ast.CallExpr)
	if !ok || len(c.Args) != 2 {
		return ""
	}
	f, ok := c.Fun.(*ast.Ident)
	if !ok || f.Name != "make" {
		return ""
	}
	if _, isBuiltin := p.Info.Uses[f].(*types.Builtin); !isBuiltin {
		return ""
	}
	if _, isSlice := c.Args[0].(*ast.ArrayType); !isSlice {
		return ""
	}
	l, ok := unparen(c.Args[1]).(*ast.CallExpr)
	if !ok || len(l.Args) != 1 {
		return ""
	}
	lf, ok := l.Fun.(*ast.Ident)
	if !ok || lf.Name != "len" {
		return ""
	}
	return exprText(unparen(l.Args[0]))
}

func (w *aw) stmt(s ast.Stmt, conds []*lp) {
	switch x := s.(type) {
	case nil:
	case *ast.BlockStmt:
		w.stmts(x.List, conds)
	case *ast.LabeledStmt:
		w.stmt(x.Stmt, conds)
	case *ast.IfStmt:
		if x.Init != nil {
			w.stmt(x.Init, conds)
		}
		w.expr(x.Cond, conds)
		pos, exact := w.tr(x.Cond, true)
		// a count check: `if <condition on the length> { return <argument-length error> }`
		if x.Else == nil && w.isLenErrReturn(x.Body) {
			if pos != nil && exact {
				w.res.checks[w.label] = append(w.res.checks[w.label], countCheck{w.label, lineOf(x.Pos()), pos, strings.Join(w.ctx, " && ")})
			} else if pos != nil {
				w.res.checks[w.label] = append(w.res.checks[w.label], countCheck{w.label, lineOf(x.Pos()), pos, strings.Join(append(append([]string{}, w.ctx...), "inexact: "+exprText(x.Cond)), " && ")})
			}
		}
		saved := w.ctx
		if pos == nil {
			w.ctx = append(append([]string{}, saved...), exprText(x.Cond))
		}
		w.stmts(x.Body.List, cat(conds, pos))
		w.ctx = saved
		if x.Else != nil {
			neg, _ := w.tr(x.Cond, false)
			if neg == nil {
				w.ctx = append(append([]string{}, saved...), "!("+exprText(x.Cond)+")")
			}
			w.stmt(x.Else, cat(conds, neg))
			w.ctx = saved
		}
	case *ast.SwitchStmt:
		if x.Init != nil {
			w.stmt(x.Init, conds)
		}
		w.expr(x.Tag, conds)
		onLen := x.Tag != nil && w.isLen(x.Tag)
		var seen []*lp // negations of the earlier cases (a clause is reached only if they all failed)
		for _, c := range x.Body.List {
			cc := c.(*ast.CaseClause)
			for _, e := range cc.List {
				w.expr(e, conds)
			}
			var here *lp
			known := true
			switch {
			case onLen:
				for i, e := range cc.List {
					k, ok := w.constInt(e)
					if !ok {
						known = false
						break
					}
					if i == 0 {
						here = atomOf("eq", k)
					} else {
						here = &lp{op: "or", a: here, b: atomOf("eq", k)}
					}
				}
			case x.Tag == nil:
				for i, e := range cc.List {
					c1, ex := w.tr(e, true)
					if c1 == nil || !ex && len(cc.List) > 1 {
						known = false
						break
					}
					if i == 0 {
						here = c1
					} else {
						here = &lp{op: "or", a: here, b: c1}
					}
				}
			default:
				known = false
			}
			saved := w.ctx
			if !onLen {
				w.ctx = append(append([]string{}, saved...), "switch "+exprText0(x.Tag)+" case "+caseText(cc))
			}
			if cc.List == nil { // default: every listed case failed (valid wherever the default clause stands)
				var all []*lp
				for _, o := range x.Body.List {
					oc := o.(*ast.CaseClause)
					for _, e := range oc.List {
						if onLen {
							if k, ok := w.constInt(e); ok {
								all = append(all, atomOf("notEq", k))
							}
						} else if x.Tag == nil {
							if n1, _ := w.tr(e, false); n1 != nil {
								all = append(all, n1)
							}
						}
					}
				}
				w.stmts(cc.Body, cat(conds, all...))
			} else {
				extra := append([]*lp{}, seen...)
				if known && here != nil {
					extra = append(extra, here)
				}
				w.stmts(cc.Body, cat(conds, extra...))
			}
			w.ctx = saved
			// what the failure of this clause says to the later ones
			for _, e := range cc.List {
				if onLen {
					if k, ok := w.constInt(e); ok {
						seen = append(seen, atomOf("notEq", k))
					}
				} else if x.Tag == nil {
					if n1, _ := w.tr(e, false); n1 != nil {
						seen = append(seen, n1)
					}
				}
			}
		}
	case *ast.TypeSwitchStmt:
		if x.Init != nil {
			w.stmt(x.Init, conds)
		}
		w.stmt(x.Assign, conds)
		for _, c := range x.Body.List {
			w.stmts(c.(*ast.CaseClause).Body, conds)
		}
	case *ast.SelectStmt:
		for _, c := range x.Body.List {
			cc := c.(*ast.CommClause)
			w.stmt(cc.Comm, conds)
			w.stmts(cc.Body, conds)
		}
	case *ast.RangeStmt:
		inner := w.dropModified(conds, x.Body)
		if w.isLenSource(x.X) {
			if x.Key != nil {
				if id, ok := x.Key.(*ast.Ident); ok && id.Name != "_" {
					if v := w.objOf(id); v != nil {
						inner = cat(inner, &lp{op: "varlt", v: v})
					}
				}
			}
		} else {
			w.expr(x.X, conds)
		}
		for _, l := range []ast.Expr{x.Key, x.Value} {
			if l != nil && (w.isPath(l) || w.isBase(l)) && !w.soft {
				fatal("%s: the tracked slice is a loop variable (no rule)", w.where(x.Pos()))
			}
		}
		if w.soft && w.assignsPath(x) {
			inner = nil // the slice is (part of) the loop variable, or the body assigns it
		}
		w.stmts(x.Body.List, inner)
	case *ast.ForStmt:
		w.stmt(x.Init, conds)
		inner := conds
		if x.Post != nil {
			inner = w.dropModified(inner, x.Post)
		}
		inner = w.dropModified(inner, x.Body)
		if w.soft && (w.assignsPath(x.Body) || w.assignsPath(x.Post)) {
			inner = nil
		}
		w.expr(x.Cond, inner)
		body := inner
		if x.Cond != nil {
			body = cat(inner, w.cond(x.Cond, true)...)
		}
		w.stmts(x.Body.List, body)
		w.stmt(x.Post, inner)
	case *ast.AssignStmt:
		w.checkAssign(x)
		for i, r := range x.Rhs {
			// a new local from a re-sliced tracked slice: `xs := s[1:]`; a local with the tracked slice's length: `ys := make([]T, len(s))`
			if len(x.Lhs) == len(x.Rhs) && x.Tok == token.DEFINE && !w.soft {
				if id, ok := x.Lhs[i].(*ast.Ident); ok && id.Name != "_" {
					if se, ok := unparen(r).(*ast.SliceExpr); ok && w.isPath(se.X) {
						w.sliceSite(se, conds)
						w.res.locals = append(w.res.locals, localRoot{w.p, w.fd, id.Name, w.p.Info.Defs[id], nil, w.label, w.family})
						continue
					}
					if src := makeLenOf(w.p, r); src != "" && (src == w.path) && w.isLen(unparen(r).(*ast.CallExpr).Args[1]) {
						w.res.locals = append(w.res.locals, localRoot{w.p, w.fd, id.Name, w.p.Info.Defs[id], []string{w.path}, w.label, w.family})
						continue
					}
				}
			}
			w.expr(r, conds)
		}
		for _, l := range x.Lhs {
			if w.isPath(l) {
				continue
			}
			if _, isId := unparen(l).(*ast.Ident); isId {
				continue
			}
			w.expr(l, conds)
		}
	case *ast.ReturnStmt:
		for _, r := range x.Results {
			w.expr(r, conds)
		}
	case *ast.ExprStmt:
		w.expr(x.X, conds)
	case *ast.IncDecStmt:
		w.expr(x.X, conds)
	case *ast.GoStmt:
		w.expr(x.Call, dropVars(conds))
	case *ast.DeferStmt:
		w.expr(x.Call, dropVars(conds))
	case *ast.SendStmt:
		w.expr(x.Chan, conds)
		w.expr(x.Value, conds)
	case *ast.BranchStmt, *ast.EmptyStmt:
	case *ast.DeclStmt:
		gd, ok := x.Decl.(*ast.GenDecl)
		if !ok {
			fatal("%s: declaration %T (no rule)", w.where(s.Pos()), x.Decl)
		}
		for _, sp := range gd.Specs {
			if vs, ok := sp.(*ast.ValueSpec); ok {
				for _, v := range vs.Values {
					w.expr(v, conds)
				}
			}
		}
	default:
		fatal("%s: statement %T (no rule)", w.where(s.Pos()), s)
	}
}

func exprText0(e ast.Expr) string {
	if e == nil {
		return ""
	}
	return exprText(e)
}

func caseText(cc *ast.CaseClause) string {
	if cc.List == nil {
		return "default"
	}
	q := make([]string, len(cc.List))
	for i, e := range cc.List {
		q[i] = exprText(e)
	}
	return strings.Join(q, ", ")
}

// ---------------------------------------------------------------- driver

type declRef struct {
	p  *Pkg
	fd *ast.FuncDecl
}

type argDriver struct {
	pkgs        []*Pkg
	decls       map[types.Object]declRef
	res         *argRes
	done        map[string]string // analysis key → label used
	qp          *Pkg
	analyticPre map[string][]*lp    // "T.Execute" → what T.CheckArgsLen established
	edges       map[string][]string // label → labels of the callees that receive the slice unchanged
	labels      map[string]bool
}

func newArgDriver(pkgs []*Pkg) *argDriver {
	d := &argDriver{pkgs: pkgs, decls: map[types.Object]declRef{}, done: map[string]string{}, edges: map[string][]string{}, labels: map[string]bool{},
		res: &argRes{checks: map[string][]countCheck{}, flows: map[string][]flow{}}}
	for _, p := range pkgs {
		for _, f := range p.Files {
			for _, dd := range f.Decls {
				if fd, ok := dd.(*ast.FuncDecl); ok && fd.Body != nil {
					if o := p.Info.Defs[fd.Name]; o != nil {
						d.decls[o] = declRef{p, fd}
					}
				}
			}
		}
	}
	d.qp = findPkg(pkgs, "/lib/query")
	return d
}

func paramByIndex(fd *ast.FuncDecl, i int) *ast.Ident {
	k := 0
	for _, f := range fd.Type.Params.List {
		if len(f.Names) == 0 {
			if k == i {
				return nil
			}
			k++
			continue
		}
		for _, nm := range f.Names {
			if k == i {
				return nm
			}
			k++
		}
	}
	return nil
}

func pkgPrefix(p *Pkg) string {
	if strings.HasSuffix(p.Path, "/lib/query") {
		return ""
	}
	return p.Path[strings.LastIndex(p.Path, "/")+1:] + "."
}

// analyse one tracked slice of one function under the preconditions pre; label names the context.
func (d *argDriver) analyse(r declRef, path string, base types.Object, alias []string, pre []*lp, label, family string) string {
	key := fmt.Sprintf("%s|%s|%s|%s", funcLabel(r.fd)+fmt.Sprint(r.fd.Pos()), path, strings.Join(alias, ","), condsKey(pre))
	if l, ok := d.done[key]; ok {
		return l
	}
	if d.labels[label] {
		// the same label for two different contexts (two slices of one function, two call contexts) would merge their facts
		label = fmt.Sprintf("%s[%s]", label, path)
		base := label
		for n := 2; d.labels[label]; n++ {
			label = fmt.Sprintf("%s#%d", base, n)
		}
	}
	d.labels[label] = true
	d.done[key] = label
	w := &aw{p: r.p, fd: r.fd, label: label, family: family, path: path, base: base, alias: alias, res: d.res, nonNeg: map[types.Object]bool{}}
	nLocals := len(d.res.locals)
	w.stmts(r.fd.Body.List, pre)
	// locals derived from this slice in this function
	for _, l := range append([]localRoot{}, d.res.locals[nLocals:]...) {
		d.analyse(declRef{l.p, l.fd}, l.name, l.obj, l.alias, nil, l.label+"/"+l.name, family)
	}
	for _, f := range append([]flow{}, d.res.flows[label]...) {
		d.follow(f)
	}
	return label
}

func (d *argDriver) follow(f flow) {
	targets := []declRef{}
	if r, ok := d.decls[f.callee]; ok {
		targets = append(targets, r)
	} else if recv := f.callee.Type().(*types.Signature).Recv(); recv != nil && types.IsInterface(recv.Type()) {
		// every implementation of the interface method in the module
		for o, r := range d.decls {
			fn, ok := o.(*types.Func)
			if !ok || fn.Name() != f.callee.Name() {
				continue
			}
			rs := fn.Type().(*types.Signature).Recv()
			if rs == nil {
				continue
			}
			if types.Implements(rs.Type(), recv.Type().Underlying().(*types.Interface)) {
				targets = append(targets, r)
			}
		}
		sort.Slice(targets, func(i, j int) bool { return targets[i].fd.Pos() < targets[j].fd.Pos() })
		if len(targets) == 0 {
			d.res.unknowns = append(d.res.unknowns, argUnknown{f.family, f.via, relFile(f.pos), lineOf(f.pos), "", f.text, "passed to an interface method without an implementation in the module: " + f.callee.FullName()})
			return
		}
	} else {
		d.res.unknowns = append(d.res.unknowns, argUnknown{f.family, f.via, relFile(f.pos), lineOf(f.pos), "", f.text, "passed to a function outside the module: " + f.callee.FullName()})
		return
	}
	for _, r := range targets {
		id := paramByIndex(r.fd, f.param)
		if id == nil || id.Name == "_" {
			continue // the callee ignores it
		}
		obj := r.p.Info.Defs[id]
		path := id.Name
		if f.strct {
			path += ".Args"
		}
		name := pkgPrefix(r.p) + funcLabel(r.fd)
		label := name
		pre := f.conds
		if d.analyticPre != nil && f.strct {
			if extra, ok := d.analyticPre[funcLabel(r.fd)]; ok {
				pre = append(append([]*lp{}, pre...), extra...)
			}
		}
		if len(pre) > 0 {
			label = f.via + ">" + name
		}
		got := d.analyse(r, path, obj, nil, pre, label, f.family)
		if !f.fresh {
			d.edges[f.via] = append(d.edges[f.via], got)
		}
	}
}

// ---------------------------------------------------------------- tables and roots

type fnEntry struct {
	table, name, goFunc string
}

// tableEntries: key → the Go function (identifier) or type (T{}) of a package-level map literal.
func tableEntries(p *Pkg, name string) [][2]string {
	for _, f := range p.Files {
		for _, d := range f.Decls {
			gd, ok := d.(*ast.GenDecl)
			if !ok || gd.Tok != token.VAR {
				continue
			}
			for _, s := range gd.Specs {
				vs := s.(*ast.ValueSpec)
				for i, id := range vs.Names {
					if id.Name != name || i >= len(vs.Values) {
						continue
					}
					cl, ok := vs.Values[i].(*ast.CompositeLit)
					if !ok {
						fatal("%s: initialiser is not a composite literal", name)
					}
					var out [][2]string
					for _, e := range cl.Elts {
						kv, ok := e.(*ast.KeyValueExpr)
						if !ok {
							fatal("%s: element without a key", name)
						}
						bl, ok := kv.Key.(*ast.BasicLit)
						if !ok || bl.Kind != token.STRING {
							fatal("%s: key is not a string literal", name)
						}
						k := strings.Trim(bl.Value, "\"`")
						switch v := kv.Value.(type) {
						case *ast.Ident:
							out = append(out, [2]string{k, v.Name})
						case *ast.CompositeLit:
							if tid, ok := v.Type.(*ast.Ident); ok && len(v.Elts) == 0 {
								out = append(out, [2]string{k, tid.Name})
							} else {
								fatal("%s[%s]: value %s has no rule", name, k, exprText(v))
							}
						default:
							fatal("%s[%s]: value %s has no rule", name, k, exprText(kv.Value))
						}
					}
					return out
				}
			}
		}
	}
	fatal("variable %s not found", name)
	return nil
}

func (d *argDriver) funcDecl(p *Pkg, name string) declRef {
	for _, f := range p.Files {
		for _, dd := range f.Decls {
			if fd, ok := dd.(*ast.FuncDecl); ok && fd.Recv == nil && fd.Name.Name == name && fd.Body != nil {
				return declRef{p, fd}
			}
		}
	}
	fatal("function %s not found in %s", name, p.Dir)
	return declRef{}
}

func (d *argDriver) methodDecl(p *Pkg, recv, name string) declRef {
	for _, f := range p.Files {
		for _, dd := range f.Decls {
			if fd, ok := dd.(*ast.FuncDecl); ok && fd.Recv != nil && fd.Name.Name == name && fd.Body != nil && funcLabel(fd) == recv+"."+name {
				return declRef{p, fd}
			}
		}
	}
	fatal("method %s.%s not found in %s", recv, name, p.Dir)
	return declRef{}
}

// slice parameters of a function declaration
func sliceParams(p *Pkg, fd *ast.FuncDecl) []*ast.Ident {
	var out []*ast.Ident
	for _, f := range fd.Type.Params.List {
		for _, nm := range f.Names {
			if nm.Name == "_" {
				continue
			}
			if _, ok := p.Info.Defs[nm].Type().Underlying().(*types.Slice); ok {
				out = append(out, nm)
			}
		}
	}
	return out
}

var argsStructTypes = map[string]bool{"Function": true, "AggregateFunction": true, "ListFunction": true, "AnalyticFunction": true}

// structParams: parameters of type parser.Function / AggregateFunction / ListFunction / AnalyticFunction
func structParams(p *Pkg, fd *ast.FuncDecl) []*ast.Ident {
	var out []*ast.Ident
	for _, f := range fd.Type.Params.List {
		for _, nm := range f.Names {
			if nm.Name == "_" {
				continue
			}
			nt, ok := p.Info.Defs[nm].Type().(*types.Named)
			if !ok || nt.Obj().Pkg() == nil || !strings.HasSuffix(nt.Obj().Pkg().Path(), "/lib/parser") || !argsStructTypes[nt.Obj().Name()] {
				continue
			}
			out = append(out, nm)
		}
	}
	return out
}

func mentions(fd *ast.FuncDecl, text string) bool {
	found := false
	ast.Inspect(fd.Body, func(n ast.Node) bool {
		if se, ok := n.(*ast.SelectorExpr); ok && exprText(se) == text {
			found = true
		}
		return !found
	})
	return found
}

func nodeText(n ast.Node) string {
	var b bytes.Buffer
	_ = printer.Fprint(&b, fset, n)
	return b.String()
}

// the reviewed text of the generic count check of analytic functions; the translation of its `length` argument
// ([]int{n} ↦ len = n, []int{a, b} ↦ a ≤ len ∧ len < b+1) is read off this text
const checkArgsLenText = `func CheckArgsLen(expr parser.AnalyticFunction, length []int) error {
	if len(length) == 1 {
		if len(expr.Args) != length[0] {
			return NewFunctionArgumentLengthError(expr, expr.Name, length)
		}
	} else {
		if len(expr.Args) < length[0] {
			return NewFunctionArgumentLengthErrorWithCustomArgs(expr, expr.Name, "at least "+FormatCount(length[0], "argument"))
		}
		if length[1] < len(expr.Args) {
			return NewFunctionArgumentLengthErrorWithCustomArgs(expr, expr.Name, "at most "+FormatCount(length[1], "argument"))
		}
	}
	return nil
}`

// analyticChecks: for every type T of the AnalyticFunctions table, what T.CheckArgsLen rejects (from
// `return CheckArgsLen(expr, []int{…})`), after checking the generic function against its reviewed text and that
// Analyze calls anfn.CheckArgsLen(fn) and returns its error before any anfn.Execute(…, fn).
func (d *argDriver) analyticChecks(entries [][2]string) (pre map[string][]*lp, rej map[string][]*lp) {
	gen := d.funcDecl(d.qp, "CheckArgsLen")
	if got := nodeText(gen.fd); got != checkArgsLenText {
		fatal("lib/query CheckArgsLen differs from its reviewed text (extract/errfacts/argfacts.go, checkArgsLenText):\n%s", got)
	}
	// Analyze: the check dominates the dispatch
	an := d.funcDecl(d.qp, "Analyze")
	checkAt, execAt := -1, -1
	for i, s := range an.fd.Body.List {
		txt := nodeText(s)
		if ifs, ok := s.(*ast.IfStmt); ok && checkAt < 0 && exprText(ifs.Cond) == "anfn != nil" && len(ifs.Body.List) == 1 {
			if inner, ok := ifs.Body.List[0].(*ast.IfStmt); ok && inner.Init != nil && nodeText(inner.Init) == "err := anfn.CheckArgsLen(fn)" &&
				exprText(inner.Cond) == "err != nil" && len(inner.Body.List) == 1 && nodeText(inner.Body.List[0]) == "return err" {
				checkAt = i
				continue
			}
		}
		if strings.Contains(txt, "anfn.Execute(") {
			if !strings.Contains(txt, "anfn.Execute(ctx, seqScope, partitions[partitionMapKeys[i]], fn)") {
				fatal("Analyze: anfn.Execute is called with other arguments than (…, fn)")
			}
			if execAt < 0 {
				execAt = i
			}
		}
		if checkAt >= 0 && (strings.Contains(txt, "anfn =") || strings.Contains(txt, "anfn, ")) {
			fatal("Analyze: anfn is assigned after its arguments were counted")
		}
	}
	if checkAt < 0 || execAt < 0 || execAt < checkAt {
		fatal("Analyze: `if anfn != nil { if err := anfn.CheckArgsLen(fn); err != nil { return err } }` does not precede anfn.Execute (%d, %d)", checkAt, execAt)
	}
	pre, rej = map[string][]*lp{}, map[string][]*lp{}
	for _, e := range entries {
		m := d.methodDecl(d.qp, e[1], "CheckArgsLen")
		bad := func() {
			fatal("%s.CheckArgsLen is not `return CheckArgsLen(expr, []int{…})`:\n%s", e[1], nodeText(m.fd))
		}
		if len(m.fd.Body.List) != 1 {
			bad()
		}
		rs, ok := m.fd.Body.List[0].(*ast.ReturnStmt)
		if !ok || len(rs.Results) != 1 {
			bad()
		}
		c, ok := rs.Results[0].(*ast.CallExpr)
		if !ok || exprText(c.Fun) != "CheckArgsLen" || len(c.Args) != 2 {
			bad()
		}
		if pid := paramByIndex(m.fd, 0); pid == nil || exprText(c.Args[0]) != pid.Name {
			bad()
		}
		cl, ok := c.Args[1].(*ast.CompositeLit)
		if !ok || exprText(cl.Type) != "[]int" {
			bad()
		}
		var ks []int
		for _, el := range cl.Elts {
			k, ok := intLit(el)
			if !ok {
				bad()
			}
			ks = append(ks, k)
		}
		switch len(ks) {
		case 1:
			pre[e[1]+".Execute"] = []*lp{atomOf("eq", ks[0])}
			rej[e[1]] = []*lp{atomOf("notEq", ks[0])}
		case 2:
			pre[e[1]+".Execute"] = []*lp{atomOf("ge", ks[0]), atomOf("lt", ks[1]+1)}
			rej[e[1]] = []*lp{atomOf("lt", ks[0]), atomOf("ge", ks[1]+1)}
		default:
			bad()
		}
	}
	return
}

// specialDispatch: `if name == "X" { return F(…) }` (also in else-if chains) of evalFunction: X → F.
func specialDispatch(p *Pkg, fd *ast.FuncDecl) [][2]string {
	var out [][2]string
	ast.Inspect(fd.Body, func(n ast.Node) bool {
		ifs, ok := n.(*ast.IfStmt)
		if !ok {
			return true
		}
		be, ok := ifs.Cond.(*ast.BinaryExpr)
		if !ok || be.Op != token.EQL || exprText(be.X) != "name" {
			return true
		}
		bl, ok := be.Y.(*ast.BasicLit)
		if !ok || bl.Kind != token.STRING {
			return true
		}
		if len(ifs.Body.List) != 1 {
			fatal("evalFunction: the branch of %s is not one return statement", exprText(ifs.Cond))
		}
		rs, ok := ifs.Body.List[0].(*ast.ReturnStmt)
		if !ok || len(rs.Results) != 1 {
			fatal("evalFunction: the branch of %s is not one return statement", exprText(ifs.Cond))
		}
		c, ok := rs.Results[0].(*ast.CallExpr)
		if !ok {
			fatal("evalFunction: the branch of %s does not return a call", exprText(ifs.Cond))
		}
		id, ok := c.Fun.(*ast.Ident)
		if !ok {
			fatal("evalFunction: the branch of %s calls %s (no rule)", exprText(ifs.Cond), exprText(c.Fun))
		}
		out = append(out, [2]string{strings.Trim(bl.Value, "\""), id.Name})
		return true
	})
	return out
}

// listDispatch: the first `switch strings.ToUpper(expr.Name)` of evalListFunction: case "X": err = F(expr) / default: …, err = G(…).
func listDispatch(fd *ast.FuncDecl, names []string) [][2]string {
	var out [][2]string
	for _, s := range fd.Body.List {
		sw, ok := s.(*ast.SwitchStmt)
		if !ok {
			continue
		}
		if sw.Tag == nil || exprText(sw.Tag) != "strings.ToUpper(expr.Name)" {
			fatal("evalListFunction: switch on %s (no rule)", exprText0(sw.Tag))
		}
		taken := map[string]bool{}
		var def string
		for _, c := range sw.Body.List {
			cc := c.(*ast.CaseClause)
			if len(cc.Body) != 1 {
				fatal("evalListFunction: a clause of the count-check switch is not one assignment")
			}
			as, ok := cc.Body[0].(*ast.AssignStmt)
			if !ok || len(as.Rhs) != 1 {
				fatal("evalListFunction: a clause of the count-check switch is not one assignment")
			}
			call, ok := as.Rhs[0].(*ast.CallExpr)
			if !ok {
				fatal("evalListFunction: a clause of the count-check switch does not call a function")
			}
			id, ok := call.Fun.(*ast.Ident)
			if !ok {
				fatal("evalListFunction: a clause of the count-check switch calls %s", exprText(call.Fun))
			}
			if cc.List == nil {
				def = id.Name
				continue
			}
			for _, e := range cc.List {
				bl, ok := e.(*ast.BasicLit)
				if !ok || bl.Kind != token.STRING {
					fatal("evalListFunction: case %s (no rule)", exprText(e))
				}
				nm := strings.Trim(bl.Value, "\"")
				taken[nm] = true
				out = append(out, [2]string{nm, id.Name})
			}
		}
		for _, nm := range names {
			if !taken[nm] {
				if def == "" {
					fatal("evalListFunction: no count check for %s", nm)
				}
				out = append(out, [2]string{nm, def})
			}
		}
		return out
	}
	fatal("evalListFunction: no switch found")
	return nil
}

type arityFact struct {
	table, name, goFunc string
	rejects             []*lp
	ctx                 []string
}

type argFactsOut struct {
	sites    []argSite
	unknowns []argUnknown
	arity    []arityFact
}

// closure of the count checks over the functions that receive the slice unchanged
func (d *argDriver) checksFrom(label string) (rej []*lp, ctx []string) {
	seen := map[string]bool{}
	var visit func(l string)
	visit = func(l string) {
		if seen[l] {
			return
		}
		seen[l] = true
		for _, c := range d.res.checks[l] {
			rej = append(rej, c.reject)
			if c.ctx != "" {
				ctx = append(ctx, fmt.Sprintf("%s:%d under %s", c.fn, c.line, c.ctx))
			}
		}
		for _, e := range d.edges[l] {
			visit(e)
		}
	}
	visit(label)
	return
}

func argFacts(pkgs []*Pkg) argFactsOut {
	d := newArgDriver(pkgs)
	qp := d.qp
	scalars := tableEntries(qp, "Functions")
	aggs := tableEntries(qp, "AggregateFunctions")
	anas := tableEntries(qp, "AnalyticFunctions")
	listNames := stringTable(findPkg(pkgs, "/lib/parser"), "listFunctions")

	var pre map[string][]*lp
	var anaRej map[string][]*lp
	pre, anaRej = d.analyticChecks(anas)
	d.analyticPre = pre

	// ---- family "args": the functions of the tables
	rootLabel := map[string]string{}
	root := func(name string) {
		if _, ok := rootLabel[name]; ok {
			return
		}
		r := d.funcDecl(qp, name)
		ps := sliceParams(r.p, r.fd)
		if len(ps) == 0 {
			fatal("%s: no slice parameter", name)
		}
		for i, id := range ps {
			l := d.analyse(r, id.Name, r.p.Info.Defs[id], nil, nil, name, "args")
			if i == 0 {
				rootLabel[name] = l
			}
		}
	}
	for _, e := range scalars {
		root(e[1])
	}
	for _, e := range aggs {
		root(e[1])
	}
	root("ListAgg")
	root("JsonAgg")

	// ---- family "Args": every function of lib/query with a parameter of a parser function type whose .Args it reads,
	// unless it only ever receives that parameter from another such function (then it is analysed in its callers' contexts)
	type cand struct {
		r  declRef
		id *ast.Ident
	}
	var cands []cand
	callee := map[types.Object]bool{}
	for _, f := range qp.Files {
		for _, dd := range f.Decls {
			fd, ok := dd.(*ast.FuncDecl)
			if !ok || fd.Body == nil {
				continue
			}
			for _, id := range structParams(qp, fd) {
				cands = append(cands, cand{declRef{qp, fd}, id})
				obj := qp.Info.Defs[id]
				ast.Inspect(fd.Body, func(n ast.Node) bool {
					c, ok := n.(*ast.CallExpr)
					if !ok {
						return true
					}
					for _, a := range c.Args {
						aid, ok := a.(*ast.Ident)
						if !ok || qp.Info.Uses[aid] != obj {
							continue
						}
						var fo types.Object
						switch fx := c.Fun.(type) {
						case *ast.Ident:
							fo = qp.Info.Uses[fx]
						case *ast.SelectorExpr:
							fo = qp.Info.Uses[fx.Sel]
						}
						if tf, ok := fo.(*types.Func); ok {
							if recv := tf.Type().(*types.Signature).Recv(); recv != nil && types.IsInterface(recv.Type()) {
								for o := range d.decls {
									if mf, ok := o.(*types.Func); ok && mf.Name() == tf.Name() {
										if rs := mf.Type().(*types.Signature).Recv(); rs != nil && types.Implements(rs.Type(), recv.Type().Underlying().(*types.Interface)) {
											callee[o] = true
										}
									}
								}
							} else {
								callee[tf] = true
							}
						}
					}
					return true
				})
			}
		}
	}
	argsRoot := map[string]string{}
	for _, c := range cands {
		if callee[qp.Info.Defs[c.r.fd.Name]] {
			continue
		}
		if !mentions(c.r.fd, c.id.Name+".Args") {
			// it may still pass the struct on
			hasFlow := false
			obj := qp.Info.Defs[c.id]
			ast.Inspect(c.r.fd.Body, func(n ast.Node) bool {
				if ce, ok := n.(*ast.CallExpr); ok {
					for _, a := range ce.Args {
						if aid, ok := a.(*ast.Ident); ok && qp.Info.Uses[aid] == obj {
							hasFlow = true
						}
					}
				}
				return true
			})
			if !hasFlow {
				continue
			}
		}
		l := d.analyse(c.r, c.id.Name+".Args", qp.Info.Defs[c.id], nil, nil, funcLabel(c.r.fd), "Args")
		argsRoot[funcLabel(c.r.fd)] = l
	}
	// a function that is only a callee must have been reached
	for _, c := range cands {
		if !callee[qp.Info.Defs[c.r.fd.Name]] || !mentions(c.r.fd, c.id.Name+".Args") {
			continue
		}
		reached := false
		for k := range d.done {
			if strings.HasPrefix(k, funcLabel(c.r.fd)+fmt.Sprint(c.r.fd.Pos())+"|") {
				reached = true
			}
		}
		if !reached {
			fatal("%s reads %s.Args but was not reached from any root", funcLabel(c.r.fd), c.id.Name)
		}
	}

	// ---- count checks per SQL name
	var out argFactsOut
	for _, e := range scalars {
		rej, ctx := d.checksFrom(rootLabel[e[1]])
		out.arity = append(out.arity, arityFact{"scalar", e[0], e[1], rej, ctx})
	}
	ef := d.funcDecl(qp, "evalFunction")
	for _, e := range specialDispatch(qp, ef.fd) {
		r := d.funcDecl(qp, e[1])
		var rej []*lp
		var ctx []string
		if ps := sliceParams(r.p, r.fd); len(ps) > 0 {
			// reached from evalFunction's evaluated argument list
			found := false
			for _, l := range sortedLabels(d.labels) {
				if l == e[1] || strings.HasSuffix(l, ">"+e[1]) {
					rr, cc := d.checksFrom(l)
					rej, ctx, found = append(rej, rr...), append(ctx, cc...), true
				}
			}
			if !found {
				fatal("%s (the function of %s) was not reached from evalFunction", e[1], e[0])
			}
		} else if l, ok := argsRoot[e[1]]; ok {
			rej, ctx = d.checksFrom(l)
		} else {
			for _, l := range sortedLabels(d.labels) {
				if strings.HasSuffix(l, ">"+e[1]) {
					rr, cc := d.checksFrom(l)
					rej, ctx = append(rej, rr...), append(ctx, cc...)
				}
			}
		}
		out.arity = append(out.arity, arityFact{"special", e[0], e[1], rej, ctx})
	}
	al, ok := argsRoot["evalAggregateFunction"]
	if !ok {
		fatal("evalAggregateFunction was not analysed")
	}
	for _, e := range aggs {
		rej, ctx := d.checksFrom(al)
		out.arity = append(out.arity, arityFact{"aggregate", e[0], "evalAggregateFunction", rej, ctx})
	}
	lf := d.funcDecl(qp, "evalListFunction")
	for _, e := range listDispatch(lf.fd, listNames) {
		var rej []*lp
		var ctx []string
		found := false
		for _, l := range sortedLabels(d.labels) {
			if l == e[1] || strings.HasSuffix(l, ">"+e[1]) {
				rr, cc := d.checksFrom(l)
				rej, ctx, found = append(rej, rr...), append(ctx, cc...), true
			}
		}
		if !found {
			fatal("%s (the count check of %s) was not analysed", e[1], e[0])
		}
		out.arity = append(out.arity, arityFact{"list", e[0], e[1], rej, ctx})
	}
	for _, e := range anas {
		out.arity = append(out.arity, arityFact{"analytic", e[0], e[1] + ".CheckArgsLen", anaRej[e[1]], nil})
	}

	out.sites, out.unknowns = d.res.sites, d.res.unknowns
	have := map[string]bool{}
	for _, s := range out.sites {
		have[fmt.Sprintf("%s:%d:%s", s.file, s.line, s.expr)] = true
	}
	out.sites = append(out.sites, constSites(pkgs, []string{"/lib/query", "/lib/action", "/lib/cli", "/lib/option"}, have)...)
	sort.SliceStable(out.sites, func(i, j int) bool {
		a, b := out.sites[i], out.sites[j]
		if a.file != b.file {
			return a.file < b.file
		}
		if a.line != b.line {
			return a.line < b.line
		}
		return a.fn < b.fn
	})
	sort.SliceStable(out.unknowns, func(i, j int) bool {
		a, b := out.unknowns[i], out.unknowns[j]
		if a.file != b.file {
			return a.file < b.file
		}
		if a.line != b.line {
			return a.line < b.line
		}
		return a.fn < b.fn
	})
	if len(out.sites) < 100 {
		fatal("only %d index sites on argument slices found (source layout changed?)", len(out.sites))
	}
	return out
}

func sortedLabels(m map[string]bool) []string {
	var ks []string
	for k := range m {
		ks = append(ks, k)
	}
	sort.Strings(ks)
	return ks
}

func printArgFacts(o argFactsOut) {
	fmt.Println("/-- every index / slice expression on an argument slice (families: `args` = evaluated arguments and value lists of the")
	fmt.Println("    built-in functions and everything that receives them; `Args` = the unevaluated argument lists `<p>.Args`) with the")
	fmt.Println("    conditions on the slice's length that dominate it, outermost first: ⟨family, function (call context), file, line, slice, expression, conditions, index⟩ -/")
	fmt.Println("def argIndexSites : List ArgIndexSite := [")
	for i, s := range o.sites {
		sep := ","
		if i == len(o.sites)-1 {
			sep = ""
		}
		var idx string
		switch s.idx {
		case "const", "fromEnd", "sliceFrom", "sliceTo":
			idx = fmt.Sprintf(".%s %d", s.idx, s.a)
		case "slice":
			idx = fmt.Sprintf(".slice %d %d", s.a, s.b)
		case "var":
			idx = ".var"
		}
		fmt.Printf("  ⟨%s, %s, %s, %d, %s, %s, %s, %s⟩%s\n", leanStr(s.family), leanStr(s.fn), leanStr(s.file), s.line, leanStr(s.slice), leanStr(s.expr), leanConds(s.conds), idx, sep)
	}
	fmt.Println("]")
	fmt.Println()
	fmt.Println("/-- index expressions and other uses of a tracked slice that the extractor has no rule for (each must be reviewed): ⟨family, function, file, line, slice, expression, why⟩ -/")
	fmt.Println("def argUnknownSites : List ArgUnknownSite := [")
	for i, s := range o.unknowns {
		sep := ","
		if i == len(o.unknowns)-1 {
			sep = ""
		}
		fmt.Printf("  ⟨%s, %s, %s, %d, %s, %s, %s⟩%s\n", leanStr(s.family), leanStr(s.fn), leanStr(s.file), s.line, leanStr(s.slice), leanStr(s.expr), leanStr(s.why), sep)
	}
	fmt.Println("]")
	fmt.Println()
	fmt.Println("/-- the count checks of every function name: the function answers with the argument-length error iff the number of arguments")
	fmt.Println("    meets one of `rejects` (`if <condition on len> { return NewFunctionArgumentLengthError… }` in the function itself and in every")
	fmt.Println("    helper that receives the slice unchanged); `ctx` lists checks that stand under a condition that is not about the length, or whose")
	fmt.Println("    condition is only implied: ⟨table, name, Go function, rejects, ctx⟩ -/")
	fmt.Println("def argCountChecks : List ArgCountCheck := [")
	for i, a := range o.arity {
		sep := ","
		if i == len(o.arity)-1 {
			sep = ""
		}
		fmt.Printf("  ⟨%s, %s, %s, %s, %s⟩%s\n", leanStr(a.table), leanStr(a.name), leanStr(a.goFunc), leanConds(a.rejects), strList(a.ctx), sep)
	}
	fmt.Println("]")
	fmt.Println()
}

// ---------------------------------------------------------------- family "const": every constant index of a package

// constSites: every `X[k]`, `X[len(X)-k]`, `X[a:b]` with constant bounds where X is a variable or a field path of slice or
// string type, in every function of the given packages, under the length conditions of the SAME function
// (intraprocedural; a condition is forgotten when X or a prefix of its path is assigned).  Sites already listed by the
// argument families are skipped.
func constSites(pkgs []*Pkg, suffixes []string, have map[string]bool) []argSite {
	res := &argRes{checks: map[string][]countCheck{}, flows: map[string][]flow{}}
	for _, p := range pkgs {
		in := false
		for _, sfx := range suffixes {
			if strings.HasSuffix(p.Path, sfx) {
				in = true
			}
		}
		if !in {
			continue
		}
		for _, f := range p.Files {
			for _, dd := range f.Decls {
				fd, ok := dd.(*ast.FuncDecl)
				if !ok || fd.Body == nil {
					continue
				}
				// the paths that are indexed by a constant somewhere in this function
				type root struct {
					path string
					base types.Object
				}
				var roots []root
				seen := map[string]bool{}
				consider := func(x ast.Expr, constant bool) {
					if !constant {
						return
					}
					x = unparen(x)
					switch x.(type) {
					case *ast.Ident, *ast.SelectorExpr:
					default:
						return
					}
					id := leftmostIdent(x)
					if id == nil {
						return
					}
					tv, ok := p.Info.Types[x]
					if !ok {
						return
					}
					switch u := tv.Type.Underlying().(type) {
					case *types.Slice:
					case *types.Basic:
						if u.Info()&types.IsString == 0 {
							return
						}
					default:
						return
					}
					obj := p.Info.Uses[id]
					v, isVar := obj.(*types.Var)
					if !isVar || v.Pkg() == nil || v.Parent() == v.Pkg().Scope() {
						return // package-level tables
					}
					key := exprText(x) + fmt.Sprint(obj.Pos())
					if !seen[key] {
						seen[key] = true
						roots = append(roots, root{exprText(x), obj})
					}
				}
				isConst := func(e ast.Expr) bool {
					if e == nil {
						return true
					}
					if tv, ok := p.Info.Types[e]; ok && tv.Value != nil {
						return true
					}
					if be, ok := unparen(e).(*ast.BinaryExpr); ok && be.Op == token.SUB {
						if c, ok := unparen(be.X).(*ast.CallExpr); ok && exprText(c.Fun) == "len" {
							if tv, ok := p.Info.Types[be.Y]; ok && tv.Value != nil {
								return true
							}
						}
					}
					return false
				}
				ast.Inspect(fd.Body, func(n ast.Node) bool {
					switch x := n.(type) {
					case *ast.IndexExpr:
						consider(x.X, isConst(x.Index))
					case *ast.SliceExpr:
						consider(x.X, (x.Low != nil || x.High != nil) && isConst(x.Low) && isConst(x.High) && !x.Slice3)
					}
					return true
				})
				for _, r := range roots {
					w := &aw{p: p, fd: fd, label: pkgPrefix(p) + funcLabel(fd), family: "const", path: r.path, base: r.base, res: res, nonNeg: map[types.Object]bool{}, soft: true}
					w.stmts(fd.Body.List, nil)
				}
			}
		}
	}
	var out []argSite
	for _, s := range res.sites {
		if !have[fmt.Sprintf("%s:%d:%s", s.file, s.line, s.expr)] {
			out = append(out, s)
		}
	}
	sort.SliceStable(out, func(i, j int) bool {
		a, b := out[i], out[j]
		if a.file != b.file {
			return a.file < b.file
		}
		if a.line != b.line {
			return a.line < b.line
		}
		return a.expr < b.expr
	})
	return out
}
