module relfacts

go 1.18
