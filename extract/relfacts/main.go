// relfacts: re-derives from the Go source what lean/Csvq/Model/Rel.lean mirrors (property C03) and prints
// lean/Csvq/Gen/RelFacts.lean:
//
//	header.go   Header.FieldIndex            → Gen.fieldIndexBody (the loop body as a Lean function: next / break / return),
//	                                           Gen.fieldIndexPost, Gen.fieldIndexPrelude (token list)
//	            Header.SearchIndex, ContainsObject → token lists
//	            Header.FieldNumberIndex      → Gen.fieldNumberGuard, Gen.fieldNumberMatches (Bool functions), its shape as tokens
//	            Header.ContainsObject's loop → Gen.containsObjectSkips (the `continue` conditions; the first other field wins)
//	utils.go    InStrSliceWithCaseInsensitive → Gen.inStrSliceCI
//	view.go     View.Fix                     → Gen.fixProjection, Gen.fixHeaderEffects (the header loop), Gen.fixViewResets
//	            View.filter                  → Gen.filterKeeps : Tern → Bool
//	lib/query/*.go  every assignment to .IsJoinColumn / .Aliases → Gen.headerFlagWrites
//	load_view.go loadObject                  → Gen.tableKindOrder : the order in which a FROM name is tried
//	            joinViews                    → Gen.joinTypeDefault, Gen.joinDispatch
//	join.go     InnerJoin / OuterJoin        → the shortcuts before the nested loop, the keep test, the FULL-join flag
//	                                           update, the operand order of Merge, the padding test, the swap for RIGHT,
//	                                           the whole bodies as token lists
//	            CalcMinimumRequired          → Gen.calcMinimumRequired : Int → Int → Int → Int
//	reference_scope.go createScope / CreateChild / CreateNode → Gen.<f>Origins : ScopeCtor (for every field of
//	                                           ReferenceScope: inherited from the receiver / fresh / zero), bodies as tokens
//	query.go    selectSet, selectSetForRecursion; inline_tables.go InlineTableMap.Set → token lists
//	comparison.go Like, matchText, matchTextTail, matchTextTailOnce, matchCondition; eval.go evalLike → token lists
//	                                           (Model/Like.lean mirrors them; Props/C03Like.lean: like_impl_eq_spec)
//	load_view.go loadView, `case parser.Join` → Gen.lateralRejected : JDir → Bool (the refused directions of LATERAL),
//	                                           Gen.lateralHeaderAt : Nat → Bool (the record whose join supplies the header),
//	                                           the guard, prelude, callback, assembly of the LATERAL branch as token lists
//	            LoadView                     → Gen.fromListJoinType / fromListJoinDir (the join a comma stands for), its loop
//	            joinViews                    → Gen.joinTypeDefaulted, Gen.joinDispatched (functions); join.go OuterJoin →
//	                                           Gen.outerDirection                 (Model/Lateral.lean mirrors them)
//	eval.go     Evaluate                     → Gen.evalDispatch (node type → evaluating function)
//	            evalExists, evalSubqueryForValue, evalSubqueryForArray → Gen.existsOutcome / scalarOutcome / arrayOutcome
//	                                           : (fields records : Nat) → SubOut (the chain of length tests), bodies;
//	            evalIn / evalAny / evalAll / evalArray → token lists, Gen.inQuantifiers
//	            evalFieldReference           → Gen.scopeWalkStep : Except ResErr Nat → WalkR, Gen.scopeWalkEnd (the walk over
//	                                           the records of the enclosing queries: Model/RelNames.lean), body
//	view.go     View.Select parseWildcard    → Gen.viewStarKeeps, body; header.go TableColumns → Gen.tableColumnKeeps, body
//
// Token lists: compound statements are kept as structure (`if(<cond>){`, `}else{`, `for(<header>){`, `switch(<tag>){`,
// `case(<list>):`, `}`), simple statements as their source text without white space - calls stay visible, nothing
// is dropped.  Lean functions: only the integer / boolean / string subset described at each translator; anything
// else: exit 1.
package main

import (
	"fmt"
	"go/ast"
	"go/parser"
	"go/printer"
	"go/token"
	"os"
	"path/filepath"
	"sort"
	"strings"
)

var fset = token.NewFileSet()

func die(format string, a ...interface{}) {
	fmt.Fprintf(os.Stderr, "relfacts: "+format+"\n", a...)
	os.Exit(1)
}

func src(n ast.Node) string {
	var sb strings.Builder
	_ = printer.Fprint(&sb, fset, n)
	return sb.String()
}

// canon: source text without white space
func canon(n ast.Node) string {
	return strings.Join(strings.Fields(src(n)), "")
}

func repo() string {
	if r := os.Getenv("VERIF_REPO"); r != "" {
		return r
	}
	return "/repo"
}

func parseFile(rel string) *ast.File {
	f, err := parser.ParseFile(fset, filepath.Join(repo(), rel), nil, 0)
	if err != nil {
		die("%v", err)
	}
	return f
}

func findFunc(f *ast.File, recv, name string) *ast.FuncDecl {
	for _, d := range f.Decls {
		fd, ok := d.(*ast.FuncDecl)
		if !ok || fd.Name.Name != name {
			continue
		}
		if recv == "" && fd.Recv == nil {
			return fd
		}
		if recv != "" && fd.Recv != nil && len(fd.Recv.List) == 1 && strings.TrimPrefix(canon(fd.Recv.List[0].Type), "*") == recv {
			return fd
		}
	}
	die("function %s.%s not found", recv, name)
	return nil
}

func fieldList(fl *ast.FieldList) string {
	var parts []string
	if fl != nil {
		for _, f := range fl.List {
			for _, n := range f.Names {
				parts = append(parts, n.Name+" "+canon(f.Type))
			}
			if len(f.Names) == 0 {
				parts = append(parts, canon(f.Type))
			}
		}
	}
	return strings.Join(parts, ",")
}

func params(fd *ast.FuncDecl) string { return fieldList(fd.Type.Params) }

func pos(n ast.Node) string { return fset.Position(n.Pos()).String() }

// ---------- token lists ----------

func stmtTokens(stmts []ast.Stmt) []string {
	var out []string
	for _, s := range stmts {
		out = append(out, oneStmt(s)...)
	}
	return out
}

func oneStmt(s ast.Stmt) []string {
	switch x := s.(type) {
	case *ast.BlockStmt:
		return append(append([]string{"{"}, stmtTokens(x.List)...), "}")
	case *ast.IfStmt:
		head := "if("
		if x.Init != nil {
			head += canon(x.Init) + ";"
		}
		out := []string{head + canon(x.Cond) + "){"}
		out = append(out, stmtTokens(x.Body.List)...)
		for x.Else != nil {
			if e, ok := x.Else.(*ast.IfStmt); ok {
				h := "}elseif("
				if e.Init != nil {
					h += canon(e.Init) + ";"
				}
				out = append(out, h+canon(e.Cond)+"){")
				out = append(out, stmtTokens(e.Body.List)...)
				x = e
				continue
			}
			out = append(out, "}else{")
			out = append(out, stmtTokens(x.Else.(*ast.BlockStmt).List)...)
			break
		}
		return append(out, "}")
	case *ast.ForStmt:
		h := "for("
		if x.Init != nil {
			h += canon(x.Init)
		}
		h += ";"
		if x.Cond != nil {
			h += canon(x.Cond)
		}
		h += ";"
		if x.Post != nil {
			h += canon(x.Post)
		}
		return append(append([]string{h + "){"}, stmtTokens(x.Body.List)...), "}")
	case *ast.RangeStmt:
		h := "for("
		if x.Key != nil {
			h += canon(x.Key)
		}
		if x.Value != nil {
			h += "," + canon(x.Value)
		}
		h += ":range:" + canon(x.X)
		return append(append([]string{h + "){"}, stmtTokens(x.Body.List)...), "}")
	case *ast.SwitchStmt:
		h := "switch("
		if x.Init != nil {
			h += canon(x.Init) + ";"
		}
		if x.Tag != nil {
			h += canon(x.Tag)
		}
		out := []string{h + "){"}
		for _, c := range x.Body.List {
			cc := c.(*ast.CaseClause)
			if cc.List == nil {
				out = append(out, "default:")
			} else {
				parts := make([]string, len(cc.List))
				for i, e := range cc.List {
					parts[i] = canon(e)
				}
				out = append(out, "case("+strings.Join(parts, ",")+"):")
			}
			out = append(out, stmtTokens(cc.Body)...)
		}
		return append(out, "}")
	case *ast.TypeSwitchStmt:
		out := []string{"typeswitch(" + canon(x.Assign) + "){"}
		for _, c := range x.Body.List {
			cc := c.(*ast.CaseClause)
			if cc.List == nil {
				out = append(out, "default:")
			} else {
				parts := make([]string, len(cc.List))
				for i, e := range cc.List {
					parts[i] = canon(e)
				}
				out = append(out, "case("+strings.Join(parts, ",")+"):")
			}
			out = append(out, stmtTokens(cc.Body)...)
		}
		return append(out, "}")
	case *ast.LabeledStmt:
		return append([]string{"label(" + x.Label.Name + "):"}, oneStmt(x.Stmt)...)
	case *ast.DeferStmt:
		if fl, ok := x.Call.Fun.(*ast.FuncLit); ok {
			return append(append([]string{"defer:func(){"}, stmtTokens(fl.Body.List)...), "}()")
		}
		return []string{"defer:" + canon(x.Call)}
	case *ast.GoStmt:
		return []string{"go:" + canon(x.Call)}
	case *ast.AssignStmt:
		// a function literal on the right-hand side keeps its structure
		if len(x.Rhs) == 1 {
			if fl, ok := x.Rhs[0].(*ast.FuncLit); ok {
				lhs := make([]string, len(x.Lhs))
				for i, e := range x.Lhs {
					lhs[i] = canon(e)
				}
				head := strings.Join(lhs, ",") + x.Tok.String() + "func(" + fieldList(fl.Type.Params) + "){"
				return append(append([]string{head}, stmtTokens(fl.Body.List)...), "}")
			}
		}
		return []string{canon(x)}
	case *ast.ExprStmt, *ast.ReturnStmt, *ast.BranchStmt, *ast.IncDecStmt, *ast.DeclStmt, *ast.SendStmt, *ast.EmptyStmt:
		return []string{canon(s)}
	}
	die("%s: statement %T outside the token-list subset", pos(s), s)
	return nil
}

func leanStr(s string) string {
	s = strings.ReplaceAll(s, "\\", "\\\\")
	s = strings.ReplaceAll(s, "\"", "\\\"")
	s = strings.ReplaceAll(s, "\n", "\\n")
	s = strings.ReplaceAll(s, "\t", "\\t")
	return "\"" + s + "\""
}

func leanList(name, doc string, toks []string) string {
	var sb strings.Builder
	fmt.Fprintf(&sb, "/-- %s -/\ndef %s : List String :=\n  [", doc, name)
	for i, t := range toks {
		if i > 0 {
			sb.WriteString(",\n   ")
		}
		sb.WriteString(leanStr(t))
	}
	sb.WriteString("]\n\n")
	return sb.String()
}

// ---------- Header.FieldIndex ----------

type fiTr struct {
	strs  map[string]bool // local string variables
	bools map[string]bool // local Bool variables
}

func (t *fiTr) hfield(e ast.Expr) (string, bool) {
	// h[i].X
	if s, ok := e.(*ast.SelectorExpr); ok {
		if ix, ok := s.X.(*ast.IndexExpr); ok && canon(ix.X) == "h" && canon(ix.Index) == "i" {
			switch s.Sel.Name {
			case "Column":
				return "f.name", true
			case "View":
				return "f.view", true
			case "Aliases":
				return "f.aliases", true
			case "IsJoinColumn":
				return "f.isJoin", true
			}
			die("%s: header field %s is not part of the modelled header record", pos(e), s.Sel.Name)
		}
	}
	return "", false
}

func (t *fiTr) str(e ast.Expr) string {
	if s, ok := t.hfield(e); ok && (s == "f.name" || s == "f.view") {
		return s
	}
	switch x := e.(type) {
	case *ast.Ident:
		if t.strs[x.Name] {
			return x.Name
		}
	case *ast.CallExpr:
		if canon(x.Fun) == "strings.TrimSpace" && len(x.Args) == 1 {
			return "(trimSpace " + t.str(x.Args[0]) + ")"
		}
	}
	die("%s: string expression `%s` outside the translated subset", pos(e), src(e))
	return ""
}

func (t *fiTr) boolean(e ast.Expr) string {
	if s, ok := t.hfield(e); ok && s == "f.isJoin" {
		return s
	}
	switch x := e.(type) {
	case *ast.ParenExpr:
		return "(" + t.boolean(x.X) + ")"
	case *ast.Ident:
		if t.bools[x.Name] {
			return x.Name
		}
	case *ast.UnaryExpr:
		if x.Op == token.NOT {
			return "(!" + t.boolean(x.X) + ")"
		}
	case *ast.CallExpr:
		switch canon(x.Fun) {
		case "strings.EqualFold":
			if len(x.Args) == 2 {
				return "(eqFold " + t.str(x.Args[0]) + " " + t.str(x.Args[1]) + ")"
			}
		case "InStrSliceWithCaseInsensitive":
			if len(x.Args) == 2 {
				if l, ok := t.hfield(x.Args[1]); ok && l == "f.aliases" {
					return "(inStrSliceCI " + t.str(x.Args[0]) + " f.aliases)"
				}
			}
		}
	case *ast.BinaryExpr:
		switch x.Op {
		case token.LAND:
			return "(" + t.boolean(x.X) + " && " + t.boolean(x.Y) + ")"
		case token.LOR:
			return "(" + t.boolean(x.X) + " || " + t.boolean(x.Y) + ")"
		case token.LSS:
			l, r := canon(x.X), canon(x.Y)
			// 0 < len(s): the string is not empty
			if l == "0" {
				if c, ok := x.Y.(*ast.CallExpr); ok && canon(c.Fun) == "len" && len(c.Args) == 1 {
					return "(" + t.str(c.Args[0]) + " != \"\")"
				}
			}
			if l == "-1" && r == "idx" {
				return "decide ((-1 : Int) < idx)"
			}
			if l == "idx" && r == "0" {
				return "decide (idx < (0 : Int))"
			}
		}
	}
	die("%s: boolean expression `%s` outside the translated subset", pos(e), src(e))
	return ""
}

func errName(e ast.Expr) string {
	switch canon(e) {
	case "errFieldAmbiguous":
		return "ResErr.ambiguous"
	case "errFieldNotExist":
		return "ResErr.notExist"
	}
	die("%s: unknown error value %s", pos(e), src(e))
	return ""
}

// body translates a statement list of the loop body; falling off the end continues with the next field
func (t *fiTr) body(stmts []ast.Stmt, ind string) string {
	if len(stmts) == 0 {
		return ind + "LoopR.next idx"
	}
	s, rest := stmts[0], stmts[1:]
	switch x := s.(type) {
	case *ast.AssignStmt:
		if len(x.Lhs) == 1 && len(x.Rhs) == 1 {
			name := canon(x.Lhs[0])
			if x.Tok == token.DEFINE {
				// a string or a Bool local
				if c, ok := x.Rhs[0].(*ast.CallExpr); ok && canon(c.Fun) == "strings.TrimSpace" {
					v := t.str(x.Rhs[0])
					t.strs[name] = true
					return ind + "let " + name + " : String := " + v + "\n" + t.body(rest, ind)
				}
				v := t.boolean(x.Rhs[0])
				t.bools[name] = true
				return ind + "let " + name + " : Bool := " + v + "\n" + t.body(rest, ind)
			}
			if x.Tok == token.ASSIGN && name == "idx" && canon(x.Rhs[0]) == "i" {
				return ind + "let idx : Int := (i : Int)\n" + t.body(rest, ind)
			}
		}
	case *ast.IfStmt:
		if x.Init == nil {
			thenB := t.body(append(append([]ast.Stmt{}, x.Body.List...), rest...), ind+"  ")
			var elseStmts []ast.Stmt
			if x.Else != nil {
				b, ok := x.Else.(*ast.BlockStmt)
				if !ok {
					die("%s: else-if in the loop body", pos(x))
				}
				elseStmts = b.List
			}
			elseB := t.body(append(append([]ast.Stmt{}, elseStmts...), rest...), ind+"  ")
			return ind + "if " + t.boolean(x.Cond) + " then\n" + thenB + "\n" + ind + "else\n" + elseB
		}
	case *ast.BranchStmt:
		if x.Label == nil {
			switch x.Tok {
			case token.CONTINUE:
				return ind + "LoopR.next idx"
			case token.BREAK:
				return ind + "LoopR.brk idx"
			}
		}
	case *ast.ReturnStmt:
		if len(x.Results) == 2 && canon(x.Results[0]) == "-1" {
			return ind + "LoopR.ret " + errName(x.Results[1])
		}
	}
	die("%s: statement `%s` outside the translated subset of the FieldIndex loop", pos(s), src(s))
	return ""
}

func genFieldIndex(out *strings.Builder) {
	f := parseFile("lib/query/header.go")
	fd := findFunc(f, "Header", "FieldIndex")
	var loop *ast.RangeStmt
	var prelude, post []ast.Stmt
	for _, s := range fd.Body.List {
		if r, ok := s.(*ast.RangeStmt); ok && loop == nil {
			loop = r
			continue
		}
		if loop == nil {
			prelude = append(prelude, s)
		} else {
			post = append(post, s)
		}
	}
	if loop == nil || canon(loop.Key) != "i" || loop.Value != nil || canon(loop.X) != "h" {
		die("%s: Header.FieldIndex: the loop `for i := range h` was not found", pos(fd))
	}
	// the loop state: idx := -1 must be the last statement of the prelude
	if len(prelude) == 0 || canon(prelude[len(prelude)-1]) != "idx:=-1" {
		die("%s: Header.FieldIndex: `idx := -1` does not stand directly before the loop", pos(fd))
	}
	out.WriteString(leanList("fieldIndexPrelude", "`Header.FieldIndex` before the loop: how `view` and `column` are taken from the reference", stmtTokens(prelude)))
	t := &fiTr{strs: map[string]bool{"view": true, "column": true}, bools: map[string]bool{}}
	out.WriteString("/-- the body of the loop `for i := range h` of `Header.FieldIndex`; `f` = h[i] -/\n")
	out.WriteString("def fieldIndexBody (view column : String) (f : HField) (i : Nat) (idx : Int) : LoopR :=\n")
	out.WriteString(t.body(loop.Body.List, "  ") + "\n\n")
	// after the loop: if idx < 0 { return -1, errFieldNotExist }; return idx, nil
	if len(post) != 2 {
		die("%s: Header.FieldIndex: unexpected statements after the loop", pos(fd))
	}
	is, ok1 := post[0].(*ast.IfStmt)
	rs, ok2 := post[1].(*ast.ReturnStmt)
	if !ok1 || !ok2 || is.Else != nil || len(is.Body.List) != 1 || len(rs.Results) != 2 || canon(rs.Results[0]) != "idx" || canon(rs.Results[1]) != "nil" {
		die("%s: Header.FieldIndex: the end of the function is not `if … { return -1, err }; return idx, nil`", pos(fd))
	}
	r0, ok := is.Body.List[0].(*ast.ReturnStmt)
	if !ok || len(r0.Results) != 2 || canon(r0.Results[0]) != "-1" {
		die("%s: Header.FieldIndex: unexpected return after the loop", pos(is))
	}
	out.WriteString("/-- `Header.FieldIndex` after the loop -/\n")
	out.WriteString("def fieldIndexPost (idx : Int) : Except ResErr Nat :=\n")
	out.WriteString("  if " + t.boolean(is.Cond) + " then .error " + errName(r0.Results[1]) + " else .ok idx.toNat\n\n")

	out.WriteString(leanList("searchIndexBody", "`Header.SearchIndex`", stmtTokens(findFunc(f, "Header", "SearchIndex").Body.List)))
	out.WriteString(leanList("containsObjectBody", "`Header.ContainsObject`", stmtTokens(findFunc(f, "Header", "ContainsObject").Body.List)))
	out.WriteString(leanList("equalFieldIdentifiersBody", "`equalFieldIdentifiers` (how `ContainsObject` compares the formatted text of computed expressions)", stmtTokens(findFunc(f, "", "equalFieldIdentifiers").Body.List)))
	out.WriteString(leanList("headerUpdateBody", "`Header.Update` (a derived table / CTE / aliased table gets its alias as view name)", stmtTokens(findFunc(f, "Header", "Update").Body.List)))
}

// ---------- FieldNumberIndex, ContainsObject: the predicates of their search loops ----------

// fbool translates a condition over the loop variable `f` (a HeaderField) and the locals view / idx / column
func fbool(e ast.Expr) string {
	fsel := func(x ast.Expr) (string, bool) {
		if s, ok := x.(*ast.SelectorExpr); ok && canon(s.X) == "f" {
			switch s.Sel.Name {
			case "View":
				return "f.view", true
			case "Column":
				return "f.name", true
			case "Identifier":
				return "f.identifier", true
			case "IsFromTable":
				return "f.fromTable", true
			case "IsJoinColumn":
				return "f.isJoin", true
			case "Number":
				return "(f.number : Int)", true
			}
			die("%s: header field %s is not part of the modelled header record", pos(x), s.Sel.Name)
		}
		return "", false
	}
	str := func(x ast.Expr) string {
		if s, ok := fsel(x); ok {
			return s
		}
		if id, ok := x.(*ast.Ident); ok && (id.Name == "view" || id.Name == "column") {
			return id.Name
		}
		die("%s: `%s` is not a string operand of the translated subset", pos(x), src(x))
		return ""
	}
	switch x := e.(type) {
	case *ast.ParenExpr:
		return "(" + fbool(x.X) + ")"
	case *ast.SelectorExpr:
		if s, ok := fsel(x); ok && (s == "f.fromTable" || s == "f.isJoin") {
			return s
		}
	case *ast.UnaryExpr:
		if x.Op == token.NOT {
			return "(!" + fbool(x.X) + ")"
		}
	case *ast.CallExpr:
		switch canon(x.Fun) {
		case "strings.EqualFold":
			if len(x.Args) == 2 {
				return "(eqFold " + str(x.Args[0]) + " " + str(x.Args[1]) + ")"
			}
		case "equalFieldIdentifiers":
			if len(x.Args) == 2 {
				return "(eqId " + str(x.Args[0]) + " " + str(x.Args[1]) + ")"
			}
		}
	case *ast.BinaryExpr:
		switch x.Op {
		case token.LAND:
			return "(" + fbool(x.X) + " && " + fbool(x.Y) + ")"
		case token.LOR:
			return "(" + fbool(x.X) + " || " + fbool(x.Y) + ")"
		case token.EQL:
			if l, ok := fsel(x.X); ok && l == "(f.number : Int)" && canon(x.Y) == "idx" {
				return "(" + l + " == idx)"
			}
		case token.LSS:
			if canon(x.X) == "idx" && canon(x.Y) == "1" {
				return "decide (idx < (1 : Int))"
			}
			if c, ok := x.X.(*ast.CallExpr); ok && canon(c.Fun) == "len" && len(c.Args) == 1 && canon(x.Y) == "1" {
				return "(" + str(c.Args[0]) + " == \"\")"
			}
		}
	}
	die("%s: condition `%s` outside the translated subset", pos(e), src(e))
	return ""
}

func genOtherLookups(out *strings.Builder) {
	f := parseFile("lib/query/header.go")
	// FieldNumberIndex
	fn := findFunc(f, "Header", "FieldNumberIndex")
	var guard, match ast.Expr
	var shape []string
	for _, st := range fn.Body.List {
		switch x := st.(type) {
		case *ast.IfStmt:
			if x.Init == nil && x.Else == nil && len(x.Body.List) == 1 && canon(x.Body.List[0]) == "return-1,errFieldNotExist" && guard == nil {
				guard = x.Cond
				shape = append(shape, "if(GUARD){", "return-1,errFieldNotExist", "}")
				continue
			}
			die("%s: FieldNumberIndex: unexpected conditional", pos(x))
		case *ast.RangeStmt:
			if canon(x.Key) != "i" || x.Value == nil || canon(x.Value) != "f" || canon(x.X) != "h" || len(x.Body.List) != 1 {
				die("%s: FieldNumberIndex: the loop is not `for i, f := range h { if … }`", pos(x))
			}
			is, ok := x.Body.List[0].(*ast.IfStmt)
			if !ok || is.Init != nil || is.Else != nil || len(is.Body.List) != 1 || canon(is.Body.List[0]) != "returni,nil" {
				die("%s: FieldNumberIndex: the loop body is not `if … { return i, nil }`", pos(x))
			}
			match = is.Cond
			shape = append(shape, "for(i,f:range:h){", "if(MATCH){", "returni,nil", "}", "}")
		default:
			shape = append(shape, canon(st))
		}
	}
	if guard == nil || match == nil {
		die("%s: FieldNumberIndex: guard or loop not found", pos(fn))
	}
	out.WriteString("/-- `FieldNumberIndex`: a column number for which nothing is looked up -/\n")
	out.WriteString("def fieldNumberGuard (idx : Int) : Bool := " + fbool(guard) + "\n\n")
	out.WriteString("/-- `FieldNumberIndex`: the field that is returned at once -/\n")
	out.WriteString("def fieldNumberMatches (view : String) (idx : Int) (f : HField) : Bool := " + fbool(match) + "\n\n")
	out.WriteString(leanList("fieldNumberIndexShape", "`FieldNumberIndex` with its two conditions named GUARD and MATCH: the first matching field is returned", shape))

	// ContainsObject: the loop over computed columns
	co := findFunc(f, "Header", "ContainsObject")
	var loop *ast.RangeStmt
	for _, st := range co.Body.List {
		if r, ok := st.(*ast.RangeStmt); ok {
			loop = r
		}
	}
	if loop == nil || canon(loop.Key) != "i" || loop.Value == nil || canon(loop.Value) != "f" || canon(loop.X) != "h" {
		die("%s: ContainsObject: the loop `for i, f := range h` was not found", pos(co))
	}
	var skips []string
	tail := []string{}
	for _, st := range loop.Body.List {
		if is, ok := st.(*ast.IfStmt); ok && is.Init == nil && is.Else == nil && len(is.Body.List) == 1 && canon(is.Body.List[0]) == "continue" {
			skips = append(skips, fbool(is.Cond))
			continue
		}
		tail = append(tail, canon(st))
	}
	if strings.Join(tail, ";") != "idx=i;break" || len(skips) == 0 {
		die("%s: ContainsObject: the loop body is not {if … {continue}}* idx = i; break", pos(loop))
	}
	out.WriteString("/-- `ContainsObject` (not a reference): a header field is passed over when … (`eqId` = equalFieldIdentifiers, `column` = the formatted expression) -/\n")
	out.WriteString("def containsObjectSkips (eqId : String → String → Bool) (column : String) (f : HField) : Bool :=\n  " + strings.Join(skips, " || ") + "\n\n")
}

func genInStrSlice(out *strings.Builder) {
	f := parseFile("lib/query/utils.go")
	fd := findFunc(f, "", "InStrSliceWithCaseInsensitive")
	// func(s string, list []string) bool { for _, v := range list { if strings.EqualFold(s, v) { return true } }; return false }
	want := []string{"for(_,v:range:list){", "if(strings.EqualFold(s,v)){", "returntrue", "}", "}", "returnfalse"}
	got := stmtTokens(fd.Body.List)
	if strings.Join(got, "\x00") != strings.Join(want, "\x00") || params(fd) != "s string,list []string" {
		die("%s: InStrSliceWithCaseInsensitive is not the any-loop over strings.EqualFold(s, v): %v", pos(fd), got)
	}
	out.WriteString("/-- `InStrSliceWithCaseInsensitive`: some element `v` of the list has `strings.EqualFold(s, v)` -/\n")
	out.WriteString("def inStrSliceCI (s : String) (list : List String) : Bool := list.any (fun v => eqFold s v)\n\n")
}

// ---------- View.Fix, View.filter, writes of the header flags ----------

func genFix(out *strings.Builder) {
	f := parseFile("lib/query/view.go")
	fd := findFunc(f, "View", "Fix")
	var hdrLoop *ast.RangeStmt
	var before, after []ast.Stmt
	for _, s := range fd.Body.List {
		if r, ok := s.(*ast.RangeStmt); ok && canon(r.X) == "view.selectFields" && hdrLoop == nil {
			hdrLoop = r
			continue
		}
		if hdrLoop != nil {
			after = append(after, s)
		} else {
			before = append(before, s)
		}
	}
	if hdrLoop == nil {
		die("%s: View.Fix: the loop over view.selectFields that builds the new header was not found", pos(fd))
	}
	out.WriteString(leanList("fixProjection", "`View.Fix` before the header loop: when and how the records are re-projected onto the selected fields", stmtTokens(before)))
	out.WriteString(leanList("fixHeaderEffects", "`View.Fix`: what is done to every field of the new header (loop over view.selectFields)", stmtTokens(hdrLoop.Body.List)))
	out.WriteString(leanList("fixViewResets", "`View.Fix`: after the header loop", stmtTokens(after)))

	// View.filter: the keep test
	ff := findFunc(f, "View", "filter")
	var keep ast.Expr
	ast.Inspect(ff.Body, func(n ast.Node) bool {
		if is, ok := n.(*ast.IfStmt); ok && strings.Contains(canon(is.Cond), "primary.Ternary()") {
			if keep != nil {
				die("%s: View.filter: more than one test of primary.Ternary()", pos(is))
			}
			keep = is.Cond
			if len(is.Body.List) != 1 || canon(is.Body.List[0]) != "results[rIdx]=true" || is.Else != nil {
				die("%s: View.filter: the keep branch is not `results[rIdx] = true`", pos(is))
			}
		}
		return true
	})
	if keep == nil {
		die("%s: View.filter: no test of primary.Ternary()", pos(ff))
	}
	out.WriteString("/-- `View.filter`: the record is kept when … -/\n")
	out.WriteString("def filterKeeps (t : Tern) : Bool := " + ternTest(keep) + "\n\n")
	out.WriteString(leanList("filterBody", "`View.filter`", stmtTokens(ff.Body.List)))
	out.WriteString(leanList("evalColumnBody", "`View.evalColumn`: a select / ORDER BY item is looked up in the header only when it is a reference or an analytic function; everything else is calculated per record; then the alias is recorded", stmtTokens(findFunc(f, "View", "evalColumn").Body.List)))
}

// ternTest: primary.Ternary() == ternary.X  (or !=)
func ternTest(e ast.Expr) string {
	b, ok := e.(*ast.BinaryExpr)
	if ok && canon(b.X) == "primary.Ternary()" && (b.Op == token.EQL || b.Op == token.NEQ) {
		c := map[string]string{"ternary.TRUE": "Tern.T", "ternary.FALSE": "Tern.F", "ternary.UNKNOWN": "Tern.U"}[canon(b.Y)]
		if c != "" {
			if b.Op == token.EQL {
				return "(t == " + c + ")"
			}
			return "(t != " + c + ")"
		}
	}
	die("%s: `%s` is not a comparison of primary.Ternary() with a ternary constant", pos(e), src(e))
	return ""
}

func genFlagWrites(out *strings.Builder) {
	dir := filepath.Join(repo(), "lib/query")
	ents, err := os.ReadDir(dir)
	if err != nil {
		die("%v", err)
	}
	var facts []string
	for _, e := range ents {
		if !strings.HasSuffix(e.Name(), ".go") || strings.HasSuffix(e.Name(), "_test.go") {
			continue
		}
		f := parseFile("lib/query/" + e.Name())
		for _, d := range f.Decls {
			fd, ok := d.(*ast.FuncDecl)
			if !ok || fd.Body == nil {
				continue
			}
			fn := fd.Name.Name
			if fd.Recv != nil && len(fd.Recv.List) == 1 {
				fn = strings.TrimPrefix(canon(fd.Recv.List[0].Type), "*") + "." + fn
			}
			ast.Inspect(fd.Body, func(n ast.Node) bool {
				as, ok := n.(*ast.AssignStmt)
				if !ok {
					return true
				}
				for _, l := range as.Lhs {
					if s, ok := l.(*ast.SelectorExpr); ok && (s.Sel.Name == "IsJoinColumn" || s.Sel.Name == "Aliases") {
						facts = append(facts, e.Name()+":"+fn+":"+canon(as))
					}
				}
				return true
			})
			// composite literals that set the fields
			ast.Inspect(fd.Body, func(n ast.Node) bool {
				kv, ok := n.(*ast.KeyValueExpr)
				if ok && (canon(kv.Key) == "IsJoinColumn" || canon(kv.Key) == "Aliases") {
					facts = append(facts, e.Name()+":"+fn+":literal:"+canon(kv))
				}
				return true
			})
		}
	}
	sort.Strings(facts)
	out.WriteString(leanList("headerFlagWrites", "every place in lib/query (tests aside) that writes HeaderField.IsJoinColumn or .Aliases: file:function:statement", facts))
}

// ---------- loadObject ----------

func genLoadObject(out *strings.Builder) {
	f := parseFile("lib/query/load_view.go")
	fd := findFunc(f, "", "loadObject")
	var steps []string
	returns := func(b *ast.BlockStmt) (string, bool) {
		if len(b.List) == 0 {
			return "", false
		}
		r, ok := b.List[len(b.List)-1].(*ast.ReturnStmt)
		if !ok {
			return "", false
		}
		if len(r.Results) > 0 {
			if c, ok := r.Results[0].(*ast.CallExpr); ok {
				return canon(c.Fun), true
			}
		}
		return "", true
	}
	for _, s := range fd.Body.List {
		switch x := s.(type) {
		case *ast.IfStmt:
			callee, ret := returns(x.Body)
			cond := canon(x.Cond)
			init := ""
			if x.Init != nil {
				init = canon(x.Init)
			}
			if !ret {
				// a step that does not leave the function: recorded, not a kind of object
				steps = append(steps, "LoadStep.other "+leanStr("if("+init+";"+cond+"){…}"))
				continue
			}
			switch {
			case strings.Contains(init, "tablePath.(parser.Stdin)") && cond == "ok":
				steps = append(steps, "LoadStep.stdin")
			case strings.Contains(init, "tablePath.(DataObject)") && cond == "ok":
				steps = append(steps, "LoadStep.dataObject")
			case strings.Contains(init, "tablePath.(HttpObject)") && cond == "ok":
				steps = append(steps, "LoadStep.httpObject")
			case init == "" && cond == "isInlineObject" && callee == "loadInlineObjectFromFile":
				steps = append(steps, "LoadStep.inlineFile")
			case init == "" && cond == "scope.RecursiveTable!=nil&&strings.EqualFold(fileIdentifier.Literal,scope.RecursiveTable.Name.Literal)&&scope.RecursiveTmpView!=nil":
				steps = append(steps, "LoadStep.recursive")
			case init == "" && cond == "scope.InlineTableExists(fileIdentifier)":
				steps = append(steps, "LoadStep.cte")
			case init == "" && cond == "scope.TemporaryTableExists(fileIdentifier.Literal)":
				steps = append(steps, "LoadStep.temp")
			case init == "" && cond == "err!=nil":
				// error exit of the statement before: no object kind
			default:
				steps = append(steps, "LoadStep.other "+leanStr("if("+init+";"+cond+"){return "+callee+"}"))
			}
		case *ast.ReturnStmt:
			if len(x.Results) > 0 {
				if c, ok := x.Results[0].(*ast.CallExpr); ok && canon(c.Fun) == "loadObjectFromFile" {
					steps = append(steps, "LoadStep.file")
					continue
				}
			}
			steps = append(steps, "LoadStep.other "+leanStr(canon(x)))
		case *ast.AssignStmt, *ast.DeclStmt:
			// normalisations of the table path: listed in the body tokens below
		default:
			die("%s: loadObject: statement %T outside the subset", pos(s), s)
		}
	}
	out.WriteString("/-- `loadObject`: the tests a FROM name goes through, in order (the first that holds decides) -/\n")
	out.WriteString("def tableKindOrder : List LoadStep :=\n  [" + strings.Join(steps, ",\n   ") + "]\n\n")
	out.WriteString(leanList("loadObjectBody", "`loadObject` as a whole", stmtTokens(fd.Body.List)))

	// joinViews: default join type and dispatch
	jv := findFunc(f, "", "joinViews")
	var disp []string
	var before []ast.Stmt
	found := false
	for _, s := range jv.Body.List {
		sw, ok := s.(*ast.SwitchStmt)
		if ok && canon(sw.Tag) == "joinType" && !found {
			found = true
			for _, c := range sw.Body.List {
				cc := c.(*ast.CaseClause)
				if len(cc.List) != 1 || len(cc.Body) != 1 {
					die("%s: joinViews: a case of the dispatch is not a single call", pos(cc))
				}
				is, ok := cc.Body[0].(*ast.IfStmt)
				if !ok || is.Init == nil {
					die("%s: joinViews: case body is not `if err = F(…); err != nil`", pos(cc))
				}
				as, ok := is.Init.(*ast.AssignStmt)
				if !ok || len(as.Rhs) != 1 {
					die("%s: joinViews: case body", pos(cc))
				}
				call, ok := as.Rhs[0].(*ast.CallExpr)
				if !ok {
					die("%s: joinViews: case body", pos(cc))
				}
				args := make([]string, len(call.Args))
				for i, a := range call.Args {
					args[i] = canon(a)
				}
				disp = append(disp, canon(cc.List[0])+"→"+canon(call.Fun)+"("+strings.Join(args, ",")+")")
			}
			continue
		}
		if !found {
			before = append(before, s)
		}
	}
	if !found {
		die("%s: joinViews: `switch joinType` not found", pos(jv))
	}
	out.WriteString(leanList("joinTypeDefault", "`joinViews` before the dispatch: condition parsing and the default join type", stmtTokens(before)))
	out.WriteString(leanList("joinDispatch", "`joinViews`: join type → function(arguments)", disp))
	out.WriteString(leanList("joinViewsBody", "`joinViews` as a whole (dispatch, then the USING / NATURAL column merge)", stmtTokens(jv.Body.List)))
}

// ---------- join.go ----------

func dirConst(s string) string {
	switch s {
	case "parser.LEFT":
		return "Dir.left"
	case "parser.RIGHT":
		return "Dir.right"
	case "parser.FULL":
		return "Dir.full"
	}
	return ""
}

func genJoin(out *strings.Builder) {
	f := parseFile("lib/query/join.go")
	for _, name := range []string{"CrossJoin", "InnerJoin", "OuterJoin"} {
		fd := findFunc(f, "", name)
		// the statements before the first function literal / goroutine manager: shortcuts
		var pre []ast.Stmt
		for _, s := range fd.Body.List {
			if is, ok := s.(*ast.IfStmt); ok {
				if _, ret := lastReturn(is.Body); ret && is.Init == nil {
					pre = append(pre, s)
					continue
				}
			}
			break
		}
		out.WriteString(leanList(lower(name)+"Shortcuts", "`"+name+"`: the returns taken before any record is looked at", stmtTokens(pre)))
		out.WriteString(leanList(lower(name)+"Body", "`"+name+"` as a whole", stmtTokens(fd.Body.List)))
	}

	// InnerJoin: keep test
	in := findFunc(f, "", "InnerJoin")
	out.WriteString("/-- `InnerJoin`: the merged record is appended when … -/\n")
	out.WriteString("def innerKeeps (t : Tern) : Bool := " + ternTest(keepTest(in).Cond) + "\n\n")

	// OuterJoin: keep test, FULL flag, match flag, Merge order, padding test, swaps
	oj := findFunc(f, "", "OuterJoin")
	kt := keepTest(oj)
	out.WriteString("/-- `OuterJoin`: the merged record is appended (and counts as a partner) when … -/\n")
	out.WriteString("def outerKeeps (t : Tern) : Bool := " + ternTest(kt.Cond) + "\n\n")
	// inside the keep branch: if direction == parser.FULL && !joinViewMatches[j] { joinViewMatches[j] = true }; records = append(records, mergedRecord); match = true
	var flagIf *ast.IfStmt
	sawAppend, sawMatch := false, false
	for _, s := range kt.Body.List {
		switch x := s.(type) {
		case *ast.IfStmt:
			if flagIf != nil {
				die("%s: OuterJoin: second conditional in the keep branch", pos(x))
			}
			flagIf = x
		case *ast.AssignStmt:
			switch canon(x) {
			case "records=append(records,mergedRecord)":
				sawAppend = true
			case "match=true":
				sawMatch = true
			default:
				die("%s: OuterJoin: unexpected statement `%s` in the keep branch", pos(x), src(x))
			}
		default:
			die("%s: OuterJoin: unexpected statement in the keep branch", pos(s))
		}
	}
	if flagIf == nil || !sawAppend || !sawMatch || flagIf.Else != nil || len(flagIf.Body.List) != 1 || canon(flagIf.Body.List[0]) != "joinViewMatches[j]=true" {
		die("%s: OuterJoin: the keep branch is not {flag update; append; match = true}", pos(kt))
	}
	out.WriteString("/-- `OuterJoin`: `joinViewMatches[j]` after a partner was found (`flag` = its value before) -/\n")
	out.WriteString("def outerFlagAfter (dir : Dir) (flag : Bool) : Bool :=\n  if " + dirBool(flagIf.Cond) + " then true else flag\n\n")

	// switch direction { case parser.RIGHT: mergedRecord = joinView.RecordSet[j].Merge(view.RecordSet[i], …) default: view.RecordSet[i].Merge(joinView.RecordSet[j], …) }
	var mergeSw *ast.SwitchStmt
	var padIf *ast.IfStmt
	ast.Inspect(oj.Body, func(n ast.Node) bool {
		if sw, ok := n.(*ast.SwitchStmt); ok && canon(sw.Tag) == "direction" && mergeSw == nil && strings.Contains(canon(sw), "mergedRecord=") {
			mergeSw = sw
		}
		if is, ok := n.(*ast.IfStmt); ok && canon(is.Cond) == "!match" {
			padIf = is
		}
		return true
	})
	if mergeSw == nil || padIf == nil {
		die("%s: OuterJoin: the Merge switch or the `if !match` padding was not found", pos(oj))
	}
	out.WriteString("/-- `OuterJoin`: is the inner-loop record the LEFT half of the merged record? -/\n")
	out.WriteString("def outerMergeInnerFirst (dir : Dir) : Bool :=\n  match dir with\n")
	hasDefault := false
	for _, c := range mergeSw.Body.List {
		cc := c.(*ast.CaseClause)
		if len(cc.Body) != 1 {
			die("%s: OuterJoin: Merge switch case", pos(cc))
		}
		a := canon(cc.Body[0])
		var v string
		switch a {
		case "mergedRecord=joinView.RecordSet[j].Merge(view.RecordSet[i],recordPool)":
			v = "true"
		case "mergedRecord=view.RecordSet[i].Merge(joinView.RecordSet[j],recordPool)":
			v = "false"
		default:
			die("%s: OuterJoin: unexpected Merge `%s`", pos(cc), a)
		}
		if cc.List == nil {
			hasDefault = true
			out.WriteString("  | _ => " + v + "\n")
		} else {
			for _, e := range cc.List {
				d := dirConst(canon(e))
				if d == "" {
					die("%s: OuterJoin: unknown direction %s", pos(e), src(e))
				}
				out.WriteString("  | " + d + " => " + v + "\n")
			}
		}
	}
	if !hasDefault {
		die("%s: OuterJoin: Merge switch without default", pos(mergeSw))
	}
	out.WriteString("\n")
	out.WriteString("/-- `OuterJoin`: the outer-loop record is appended NULL-padded when … (`matched` = the `match` flag) -/\n")
	out.WriteString("def outerPads (matched : Bool) : Bool := (!matched)\n\n")
	out.WriteString(leanList("outerPadding", "`OuterJoin`: the padding branch `if !match`", stmtTokens(padIf.Body.List)))

	// the swaps for RIGHT
	var swaps []string
	for i, s := range oj.Body.List {
		if is, ok := s.(*ast.IfStmt); ok && canon(is.Cond) == "direction==parser.RIGHT" {
			swaps = append(swaps, fmt.Sprintf("stmt%d:", i)+strings.Join(stmtTokens(is.Body.List), ";"))
		}
	}
	out.WriteString(leanList("outerRightSwaps", "`OuterJoin`: top-level `if direction == parser.RIGHT` statements (position: effect)", swaps))

	// CalcMinimumRequired
	cm := findFunc(f, "", "CalcMinimumRequired")
	if params(cm) != "i1 int,i2 int,defaultMinimumRequired int" {
		die("%s: CalcMinimumRequired: parameters changed", pos(cm))
	}
	out.WriteString("/-- `CalcMinimumRequired` (float64 conversions of int values below 2^53 are exact: ceil(a / floor(p / d)) in integers) -/\n")
	out.WriteString("def calcMinimumRequired (i1 i2 defaultMinimumRequired : Int) : Int :=\n")
	out.WriteString(intBody(cm.Body.List, "  ") + "\n\n")
}

func lower(s string) string { return strings.ToLower(s[:1]) + s[1:] }

func lastReturn(b *ast.BlockStmt) (string, bool) {
	if len(b.List) == 0 {
		return "", false
	}
	_, ok := b.List[len(b.List)-1].(*ast.ReturnStmt)
	return "", ok
}

// keepTest: the single `if primary.Ternary() … {` of a join function
func keepTest(fd *ast.FuncDecl) *ast.IfStmt {
	var r *ast.IfStmt
	ast.Inspect(fd.Body, func(n ast.Node) bool {
		if is, ok := n.(*ast.IfStmt); ok && strings.Contains(canon(is.Cond), "primary.Ternary()") {
			if r != nil {
				die("%s: %s: more than one test of primary.Ternary()", pos(is), fd.Name.Name)
			}
			r = is
		}
		return true
	})
	if r == nil {
		die("%s: %s: no test of primary.Ternary()", pos(fd), fd.Name.Name)
	}
	return r
}

// dirBool: direction == parser.X, !joinViewMatches[j], &&, ||
func dirBool(e ast.Expr) string {
	switch x := e.(type) {
	case *ast.ParenExpr:
		return "(" + dirBool(x.X) + ")"
	case *ast.UnaryExpr:
		if x.Op == token.NOT {
			return "(!" + dirBool(x.X) + ")"
		}
	case *ast.IndexExpr:
		if canon(x) == "joinViewMatches[j]" {
			return "flag"
		}
	case *ast.BinaryExpr:
		switch x.Op {
		case token.LAND:
			return "(" + dirBool(x.X) + " && " + dirBool(x.Y) + ")"
		case token.LOR:
			return "(" + dirBool(x.X) + " || " + dirBool(x.Y) + ")"
		case token.EQL, token.NEQ:
			if canon(x.X) == "direction" {
				if d := dirConst(canon(x.Y)); d != "" {
					if x.Op == token.EQL {
						return "(dir == " + d + ")"
					}
					return "(dir != " + d + ")"
				}
			}
		}
	}
	die("%s: `%s` is outside the translated subset (direction tests and the match flag)", pos(e), src(e))
	return ""
}

// ---------- integer code (CalcMinimumRequired) ----------

var intVars = map[string]bool{"i1": true, "i2": true, "defaultMinimumRequired": true}

func intExpr(e ast.Expr) string {
	switch x := e.(type) {
	case *ast.ParenExpr:
		return "(" + intExpr(x.X) + ")"
	case *ast.Ident:
		if intVars[x.Name] {
			return x.Name
		}
	case *ast.BasicLit:
		if x.Kind == token.INT {
			return "(" + x.Value + " : Int)"
		}
	case *ast.BinaryExpr:
		switch x.Op {
		case token.MUL:
			return "(" + intExpr(x.X) + " * " + intExpr(x.Y) + ")"
		case token.ADD:
			return "(" + intExpr(x.X) + " + " + intExpr(x.Y) + ")"
		}
	case *ast.CallExpr:
		// int(math.Ceil(float64(a) / math.Floor(float64(b)/float64(c))))  =  ceil(a / floor(b / c))
		if canon(x.Fun) == "int" && len(x.Args) == 1 {
			if c, ok := x.Args[0].(*ast.CallExpr); ok && canon(c.Fun) == "math.Ceil" && len(c.Args) == 1 {
				if q, ok := c.Args[0].(*ast.BinaryExpr); ok && q.Op == token.QUO {
					if fl, ok := q.Y.(*ast.CallExpr); ok && canon(fl.Fun) == "math.Floor" && len(fl.Args) == 1 {
						if q2, ok := fl.Args[0].(*ast.BinaryExpr); ok && q2.Op == token.QUO {
							return "(ceilDivI " + f64(q.X) + " (floorDivI " + f64(q2.X) + " " + f64(q2.Y) + "))"
						}
					}
				}
			}
		}
	}
	die("%s: integer expression `%s` outside the translated subset", pos(e), src(e))
	return ""
}

func f64(e ast.Expr) string {
	if c, ok := e.(*ast.CallExpr); ok && canon(c.Fun) == "float64" && len(c.Args) == 1 {
		return intExpr(c.Args[0])
	}
	die("%s: `%s` is not float64(<int>)", pos(e), src(e))
	return ""
}

func intCond(e ast.Expr) string {
	switch x := e.(type) {
	case *ast.ParenExpr:
		return "(" + intCond(x.X) + ")"
	case *ast.BinaryExpr:
		switch x.Op {
		case token.LOR:
			return "(" + intCond(x.X) + " || " + intCond(x.Y) + ")"
		case token.LAND:
			return "(" + intCond(x.X) + " && " + intCond(x.Y) + ")"
		case token.LSS:
			return "decide (" + intExpr(x.X) + " < " + intExpr(x.Y) + ")"
		case token.LEQ:
			return "decide (" + intExpr(x.X) + " ≤ " + intExpr(x.Y) + ")"
		}
	}
	die("%s: condition `%s` outside the translated subset", pos(e), src(e))
	return ""
}

func intBody(stmts []ast.Stmt, ind string) string {
	if len(stmts) == 0 {
		die("integer function falls off its end")
	}
	s, rest := stmts[0], stmts[1:]
	switch x := s.(type) {
	case *ast.ReturnStmt:
		if len(x.Results) == 1 {
			return ind + intExpr(x.Results[0])
		}
	case *ast.AssignStmt:
		if x.Tok == token.DEFINE && len(x.Lhs) == 1 && len(x.Rhs) == 1 {
			name := canon(x.Lhs[0])
			v := intExpr(x.Rhs[0])
			intVars[name] = true
			return ind + "let " + name + " : Int := " + v + "\n" + intBody(rest, ind)
		}
	case *ast.IfStmt:
		if x.Init == nil && x.Else == nil {
			if _, ret := lastReturn(x.Body); ret {
				return ind + "if " + intCond(x.Cond) + " then\n" + intBody(x.Body.List, ind+"  ") + "\n" + ind + "else\n" + intBody(rest, ind+"  ")
			}
		}
	}
	die("%s: statement `%s` outside the translated integer subset", pos(s), src(s))
	return ""
}

// ---------- reference_scope.go: what a derived scope inherits; query.go / inline_tables.go: the recursion ----------

var scopeFields = []struct{ goName, leanName string }{
	{"Tx", "tx"}, {"Blocks", "blocks"}, {"nodes", "nodes"}, {"cachedFilePath", "cachedFilePath"}, {"now", "now"},
	{"Records", "records"}, {"RecursiveTable", "recursiveTable"}, {"RecursiveTmpView", "recursiveTmpView"},
	{"RecursiveCount", "recursiveCount"}, {"recursionRoot", "recursionRoot"},
}

func genScope(out *strings.Builder) {
	f := parseFile("lib/query/reference_scope.go")
	// the struct: every field must be one the model knows about
	known := map[string]bool{}
	for _, sf := range scopeFields {
		known[sf.goName] = true
	}
	found := false
	ast.Inspect(f, func(n ast.Node) bool {
		ts, ok := n.(*ast.TypeSpec)
		if !ok || ts.Name.Name != "ReferenceScope" {
			return true
		}
		st, ok := ts.Type.(*ast.StructType)
		if !ok {
			die("%s: ReferenceScope is not a struct", pos(ts))
		}
		found = true
		n0 := 0
		for _, fl := range st.Fields.List {
			for _, nm := range fl.Names {
				n0++
				if !known[nm.Name] {
					die("%s: ReferenceScope has a field %s the model of the scope constructors does not know", pos(nm), nm.Name)
				}
			}
		}
		if n0 != len(scopeFields) {
			die("%s: ReferenceScope has %d fields, the model knows %d", pos(ts), n0, len(scopeFields))
		}
		return false
	})
	if !found {
		die("type ReferenceScope not found")
	}
	for _, fn := range []string{"createScope", "CreateChild", "CreateNode"} {
		fd := findFunc(f, "ReferenceScope", fn)
		if len(fd.Recv.List[0].Names) != 1 {
			die("%s: %s: receiver without a name", pos(fd), fn)
		}
		recv := fd.Recv.List[0].Names[0].Name
		var lit *ast.CompositeLit
		nlit := 0
		ast.Inspect(fd.Body, func(n ast.Node) bool {
			if cl, ok := n.(*ast.CompositeLit); ok {
				if id, ok := cl.Type.(*ast.Ident); ok && id.Name == "ReferenceScope" {
					lit = cl
					nlit++
				}
			}
			return true
		})
		if nlit != 1 {
			die("%s: %s: expected exactly one ReferenceScope literal, found %d", pos(fd), fn, nlit)
		}
		origin := map[string]string{}
		for _, el := range lit.Elts {
			kv, ok := el.(*ast.KeyValueExpr)
			if !ok {
				die("%s: %s: positional element in the ReferenceScope literal", pos(el), fn)
			}
			key := canon(kv.Key)
			if !known[key] {
				die("%s: %s: unknown field %s", pos(kv), fn, key)
			}
			if _, dup := origin[key]; dup {
				die("%s: %s: field %s twice", pos(kv), fn, key)
			}
			switch v := canon(kv.Value); v {
			case recv + "." + key:
				origin[key] = "inherited"
			case "nil":
				origin[key] = "zero"
			default:
				origin[key] = "fresh"
			}
		}
		fmt.Fprintf(out, "/-- `%s`: where every field of the scope it returns comes from (the literal at %s) -/\n", fn, filepath.Base(fset.Position(lit.Pos()).Filename))
		fmt.Fprintf(out, "def %sOrigins : ScopeCtor :=\n  { ", lower(fn))
		for i, sf := range scopeFields {
			o, ok := origin[sf.goName]
			if !ok {
				o = "zero"
			}
			if i > 0 {
				out.WriteString(",\n    ")
			}
			fmt.Fprintf(out, "%s := .%s", sf.leanName, o)
		}
		out.WriteString(" }\n\n")
		out.WriteString(leanList(lower(fn)+"Body", "`ReferenceScope."+fn+"` as a whole", stmtTokens(fd.Body.List)))
	}
	q := parseFile("lib/query/query.go")
	sq := findFunc(q, "", "selectQuery")
	var sqToks []string
	for _, t := range stmtTokens(sq.Body.List) {
		// the statements that make the query's scope (the rest of the function is the clause pipeline)
		if strings.Contains(t, "CreateNode()") || strings.Contains(t, "recursionRoot") {
			sqToks = append(sqToks, t)
		}
	}
	out.WriteString(leanList("selectQueryScope", "`selectQuery("+params(sq)+")`: how the scope of the query is made (`Select` calls it with "+selectCallsWith(q)+")", sqToks))
	out.WriteString(leanList("recursionRootWrites", "every call of selectQuery and every write of .recursionRoot in lib/query (tests aside): file:function:what", rootWrites()))
	out.WriteString(leanList("selectSetBody", "`selectSet`: only the set operation of the recursive table's own query (scope.recursionRoot) is run as the recursion", stmtTokens(findFunc(q, "", "selectSet").Body.List)))
	out.WriteString(leanList("selectSetForRecursionBody", "`selectSetForRecursion`: the limit count, the working view (first the anchor's records, then the records of the step before), the step, the merge", stmtTokens(findFunc(q, "", "selectSetForRecursion").Body.List)))
	it := parseFile("lib/query/inline_tables.go")
	out.WriteString(leanList("inlineTableSetBody", "`InlineTableMap.Set`: a node of its own, RecursiveTable for WITH RECURSIVE, the query, the header", stmtTokens(findFunc(it, "InlineTableMap", "Set").Body.List)))
}

// ---------- comparison.go: LIKE ----------

func genLike(out *strings.Builder) {
	f := parseFile("lib/query/comparison.go")
	for _, fn := range []struct{ name, lean, doc string }{
		{"Like", "likeBody", "`Like`: NULL operands, value.ToString, strings.ToUpper, the shortcut for equal texts, the empty pattern, matchText on the runes"},
		{"matchText", "matchTextBody", "`matchText`"},
		{"matchTextTail", "matchTextTailBody", "`matchTextTail`: the memo of failed (len text, len pattern) pairs around matchTextTailOnce"},
		{"matchTextTailOnce", "matchTextTailOnceBody", "`matchTextTailOnce`: one segment - where the word is searched, the retry, the bounds, the end / the rest"},
		{"matchCondition", "matchConditionBody", "`matchCondition`: the leading wildcards, the literal word with its escapes, the rest"},
	} {
		fd := findFunc(f, "", fn.name)
		out.WriteString(leanList(fn.lean, fn.doc+" ("+params(fd)+")", stmtTokens(fd.Body.List)))
	}
	ev := parseFile("lib/query/eval.go")
	out.WriteString(leanList("evalLikeBody", "`evalLike`: both operands evaluated, Like, the negation for NOT LIKE", stmtTokens(findFunc(ev, "", "evalLike").Body.List)))
}

// rootWrites: who can mark a scope as the recursion root
func rootWrites() []string {
	dir := filepath.Join(repo(), "lib/query")
	ents, err := os.ReadDir(dir)
	if err != nil {
		die("%v", err)
	}
	var facts []string
	for _, e := range ents {
		if !strings.HasSuffix(e.Name(), ".go") || strings.HasSuffix(e.Name(), "_test.go") {
			continue
		}
		f := parseFile("lib/query/" + e.Name())
		for _, d := range f.Decls {
			fd, ok := d.(*ast.FuncDecl)
			if !ok || fd.Body == nil {
				continue
			}
			fn := fd.Name.Name
			if fd.Recv != nil && len(fd.Recv.List) == 1 {
				fn = strings.TrimPrefix(canon(fd.Recv.List[0].Type), "*") + "." + fn
			}
			ast.Inspect(fd.Body, func(n ast.Node) bool {
				switch x := n.(type) {
				case *ast.CallExpr:
					if id, ok := x.Fun.(*ast.Ident); ok && id.Name == "selectQuery" {
						facts = append(facts, e.Name()+":"+fn+":"+canon(x))
					}
				case *ast.AssignStmt:
					for _, l := range x.Lhs {
						if sel, ok := l.(*ast.SelectorExpr); ok && sel.Sel.Name == "recursionRoot" {
							facts = append(facts, e.Name()+":"+fn+":"+canon(x))
						}
					}
				case *ast.KeyValueExpr:
					if canon(x.Key) == "recursionRoot" {
						facts = append(facts, e.Name()+":"+fn+":literal:"+canon(x))
					}
				}
				return true
			})
		}
	}
	sort.Strings(facts)
	return facts
}

// selectCallsWith: the last argument `Select` hands to selectQuery
func selectCallsWith(q *ast.File) string {
	fd := findFunc(q, "", "Select")
	if len(fd.Body.List) != 1 {
		die("%s: Select is not a single return statement", pos(fd))
	}
	r, ok := fd.Body.List[0].(*ast.ReturnStmt)
	if !ok || len(r.Results) != 1 {
		die("%s: Select is not a single return statement", pos(fd))
	}
	c, ok := r.Results[0].(*ast.CallExpr)
	if !ok || canon(c.Fun) != "selectQuery" || len(c.Args) == 0 {
		die("%s: Select does not return selectQuery(…)", pos(fd))
	}
	return "recursionRoot=" + canon(c.Args[len(c.Args)-1])
}

// ---------- load_view.go: the LATERAL branch of loadView; LoadView's comma join; joinViews' join type ----------

func jdirConst(s string) string {
	switch s {
	case "parser.LEFT":
		return "JDir.left"
	case "parser.RIGHT":
		return "JDir.right"
	case "parser.FULL":
		return "JDir.full"
	}
	return ""
}

func jtypeConst(s string) string {
	switch s {
	case "parser.CROSS":
		return "JType.cross"
	case "parser.INNER":
		return "JType.inner"
	case "parser.OUTER":
		return "JType.outer"
	}
	return ""
}

func joinFnConst(s string) string {
	switch s {
	case "CrossJoin":
		return "JoinFn.cross"
	case "InnerJoin":
		return "JoinFn.inner"
	case "OuterJoin":
		return "JoinFn.outer"
	}
	return ""
}

func genLateral(out *strings.Builder) {
	f := parseFile("lib/query/load_view.go")
	lv := findFunc(f, "", "loadView")
	// switch table.Object.(type) { … case parser.Join: … }
	var joinCase *ast.CaseClause
	ast.Inspect(lv.Body, func(n ast.Node) bool {
		if ts, ok := n.(*ast.TypeSwitchStmt); ok && joinCase == nil {
			for _, c := range ts.Body.List {
				cc := c.(*ast.CaseClause)
				if len(cc.List) == 1 && canon(cc.List[0]) == "parser.Join" {
					joinCase = cc
				}
			}
		}
		return true
	})
	if joinCase == nil {
		die("%s: loadView: `case parser.Join` not found", pos(lv))
	}
	var latIf *ast.IfStmt
	for _, s := range joinCase.Body {
		if is, ok := s.(*ast.IfStmt); ok && is.Init != nil && strings.Contains(canon(is.Cond), "Lateral") {
			if latIf != nil {
				die("%s: loadView: a second LATERAL test", pos(is))
			}
			latIf = is
		}
	}
	if latIf == nil {
		die("%s: loadView: the LATERAL test of `case parser.Join` was not found", pos(joinCase))
	}
	out.WriteString(leanList("lateralGuard", "`loadView`, `case parser.Join`: when the LATERAL branch is taken", []string{canon(latIf.Init), canon(latIf.Cond)}))
	out.WriteString(leanList("joinCaseBody", "`loadView`, `case parser.Join` as a whole (left side first, then LATERAL or the plain join)", stmtTokens(joinCase.Body)))

	// the refused directions: the first statement of the branch
	sw, ok := latIf.Body.List[0].(*ast.SwitchStmt)
	if !ok || canon(sw.Tag) != "join.Direction.Token" || len(sw.Body.List) != 1 {
		die("%s: loadView: the LATERAL branch does not start with the one-case `switch join.Direction.Token`", pos(latIf.Body))
	}
	rc := sw.Body.List[0].(*ast.CaseClause)
	if rc.List == nil || len(rc.Body) != 1 || canon(rc.Body[0]) != "returnnil,NewIncorrectLateralUsageError(t)" {
		die("%s: loadView: the direction switch of LATERAL is not `case …: return nil, NewIncorrectLateralUsageError(t)`", pos(rc))
	}
	out.WriteString("/-- `loadView`, LATERAL: the directions refused with IncorrectLateralUsage before any record is looked at -/\n")
	out.WriteString("def lateralRejected (d : JDir) : Bool :=\n  match d with\n")
	for _, e := range rc.List {
		d := jdirConst(canon(e))
		if d == "" {
			die("%s: loadView: unknown direction %s", pos(e), src(e))
		}
		out.WriteString("  | " + d + " => true\n")
	}
	out.WriteString("  | _ => false\n\n")

	// the callback of EvaluateSequentially, the header guard, the assembly
	var evIf *ast.IfStmt
	evIdx := -1
	for i, s := range latIf.Body.List {
		if is, ok := s.(*ast.IfStmt); ok && is.Init != nil && strings.HasPrefix(canon(is.Init), "err:=EvaluateSequentially(ctx,scope,view,func(") {
			evIf, evIdx = is, i
		}
	}
	if evIf == nil {
		die("%s: loadView: LATERAL does not go through EvaluateSequentially(ctx, scope, view, func…)", pos(latIf))
	}
	call := evIf.Init.(*ast.AssignStmt).Rhs[0].(*ast.CallExpr)
	fl, ok := call.Args[len(call.Args)-1].(*ast.FuncLit)
	if !ok || fieldList(fl.Type.Params) != "seqScope *ReferenceScope,rIdx int" {
		die("%s: loadView: the LATERAL callback is not func(seqScope *ReferenceScope, rIdx int)", pos(call))
	}
	out.WriteString(leanList("lateralPrelude", "`loadView`, LATERAL: the statements before the records are evaluated", stmtTokens(latIf.Body.List[:evIdx])))
	out.WriteString(leanList("lateralCallback", "`loadView`, LATERAL: the callback run once per left record", stmtTokens(fl.Body.List)))
	out.WriteString(leanList("lateralAssembly", "`loadView`, LATERAL: what is done with the per-record results", stmtTokens(latIf.Body.List[evIdx+1:])))
	var hdrIf *ast.IfStmt
	for _, s := range fl.Body.List {
		if is, ok := s.(*ast.IfStmt); ok && len(is.Body.List) == 1 && canon(is.Body.List[0]) == "hfields=calcView.Header" {
			hdrIf = is
		}
	}
	if hdrIf == nil || hdrIf.Else != nil || hdrIf.Init != nil {
		die("%s: loadView: the LATERAL callback does not assign `hfields = calcView.Header` under a plain if", pos(fl))
	}
	be, ok := hdrIf.Cond.(*ast.BinaryExpr)
	if !ok || be.Op != token.EQL || canon(be.X) != "rIdx" {
		die("%s: loadView: the header of a LATERAL join is taken under `%s`, not `rIdx == <number>`", pos(hdrIf), src(hdrIf.Cond))
	}
	lit, ok := be.Y.(*ast.BasicLit)
	if !ok || lit.Kind != token.INT {
		die("%s: loadView: `rIdx == %s`", pos(hdrIf), src(be.Y))
	}
	out.WriteString("/-- `loadView`, LATERAL: the record whose join supplies the header of the result -/\n")
	out.WriteString("def lateralHeaderAt (rIdx : Nat) : Bool := rIdx == " + lit.Value + "\n\n")
	// which views the per-record join gets, and that the slot of the record receives the result
	var joinCall, slot string
	for _, s := range fl.Body.List {
		c := canon(s)
		if strings.Contains(c, "joinViews(") {
			joinCall = c
		}
		if strings.HasPrefix(c, "resultSetList[") {
			slot = c
		}
	}
	out.WriteString(leanList("lateralJoinAndSlot", "`loadView`, LATERAL: the per-record join and where its records go", []string{joinCall, slot}))

	// LoadView: the comma-separated FROM list
	LV := findFunc(f, "", "LoadView")
	var loop *ast.ForStmt
	for _, s := range LV.Body.List {
		if fs, ok := s.(*ast.ForStmt); ok {
			loop = fs
		}
	}
	if loop == nil {
		die("%s: LoadView: the loop over the FROM list was not found", pos(LV))
	}
	out.WriteString(leanList("fromListLoop", "`LoadView`: how a comma-separated FROM list becomes joins", append([]string{"for(" + canon(loop.Init) + ";" + canon(loop.Cond) + ";" + canon(loop.Post) + "){"}, append(stmtTokens(loop.Body.List), "}")...)))
	var jl *ast.CompositeLit
	ast.Inspect(loop.Body, func(n ast.Node) bool {
		if cl, ok := n.(*ast.CompositeLit); ok && canon(cl.Type) == "parser.Join" {
			jl = cl
		}
		return true
	})
	if jl == nil {
		die("%s: LoadView: no parser.Join literal in the FROM-list loop", pos(loop))
	}
	jt, jd := "JType.absent", "JDir.absent"
	for _, el := range jl.Elts {
		kv := el.(*ast.KeyValueExpr)
		switch canon(kv.Key) {
		case "Table", "JoinTable":
		case "JoinType":
			c := canon(kv.Value)
			if !strings.HasPrefix(c, "parser.Token{Token:") || jtypeConst(strings.TrimSuffix(strings.TrimPrefix(c, "parser.Token{Token:"), "}")) == "" {
				die("%s: LoadView: JoinType %s", pos(kv), c)
			}
			jt = jtypeConst(strings.TrimSuffix(strings.TrimPrefix(c, "parser.Token{Token:"), "}"))
		case "Direction":
			c := canon(kv.Value)
			d := jdirConst(strings.TrimSuffix(strings.TrimPrefix(c, "parser.Token{Token:"), "}"))
			if d == "" {
				die("%s: LoadView: Direction %s", pos(kv), c)
			}
			jd = d
		default:
			die("%s: LoadView: the join of a FROM list sets %s", pos(kv), canon(kv.Key))
		}
	}
	out.WriteString("/-- `LoadView`: the join a comma in the FROM list stands for -/\n")
	out.WriteString("def fromListJoinType : JType := " + jt + "\ndef fromListJoinDir : JDir := " + jd + "\n\n")

	// joinViews: the join type when none is written, and the dispatch, as functions
	jv := findFunc(f, "", "joinViews")
	var defIf *ast.IfStmt
	var dsw *ast.SwitchStmt
	sawInit := false
	for _, s := range jv.Body.List {
		switch x := s.(type) {
		case *ast.AssignStmt:
			if canon(x) == "joinType:=join.JoinType.Token" {
				sawInit = true
			}
		case *ast.IfStmt:
			if canon(x.Cond) == "join.JoinType.IsEmpty()" && defIf == nil {
				defIf = x
			}
		case *ast.SwitchStmt:
			if canon(x.Tag) == "joinType" && dsw == nil {
				dsw = x
			}
		}
	}
	if !sawInit || defIf == nil || dsw == nil || defIf.Else != nil || len(defIf.Body.List) != 1 {
		die("%s: joinViews: `joinType := join.JoinType.Token; if join.JoinType.IsEmpty() {…}; switch joinType` not found", pos(jv))
	}
	in, ok := defIf.Body.List[0].(*ast.IfStmt)
	if !ok || canon(in.Cond) != "join.Direction.IsEmpty()" || in.Else == nil || len(in.Body.List) != 1 {
		die("%s: joinViews: the default join type is not decided by `if join.Direction.IsEmpty() {…} else {…}`", pos(defIf))
	}
	eb, ok := in.Else.(*ast.BlockStmt)
	if !ok || len(eb.List) != 1 {
		die("%s: joinViews: else branch of the default join type", pos(in))
	}
	asg := func(s ast.Stmt) string {
		c := canon(s)
		if !strings.HasPrefix(c, "joinType=") || jtypeConst(strings.TrimPrefix(c, "joinType=")) == "" {
			die("%s: joinViews: `%s` in the default join type", pos(s), src(s))
		}
		return jtypeConst(strings.TrimPrefix(c, "joinType="))
	}
	out.WriteString("/-- `joinViews`: the join type after the defaults (nothing written: by the direction) -/\n")
	out.WriteString("def joinTypeDefaulted (jt : JType) (dir : JDir) : JType :=\n  match jt with\n  | JType.absent =>\n    (match dir with\n     | JDir.absent => " + asg(in.Body.List[0]) + "\n     | _ => " + asg(eb.List[0]) + ")\n  | t => t\n\n")
	out.WriteString("/-- `joinViews`: the join function called for a join type (no case: the view is left as it is) -/\n")
	out.WriteString("def joinDispatched (jt : JType) : Option JoinFn :=\n  match jt with\n")
	for _, c := range dsw.Body.List {
		cc := c.(*ast.CaseClause)
		if len(cc.List) != 1 || len(cc.Body) != 1 {
			die("%s: joinViews: dispatch case", pos(cc))
		}
		k := jtypeConst(canon(cc.List[0]))
		is, ok := cc.Body[0].(*ast.IfStmt)
		if k == "" || !ok || is.Init == nil {
			die("%s: joinViews: dispatch case %s", pos(cc), src(cc.List[0]))
		}
		cl, ok := is.Init.(*ast.AssignStmt).Rhs[0].(*ast.CallExpr)
		if !ok || joinFnConst(canon(cl.Fun)) == "" {
			die("%s: joinViews: dispatch case calls %s", pos(cc), src(is.Init))
		}
		out.WriteString("  | " + k + " => some " + joinFnConst(canon(cl.Fun)) + "\n")
	}
	out.WriteString("  | _ => none\n\n")

	// OuterJoin: the direction when none is given
	j := parseFile("lib/query/join.go")
	oj := findFunc(j, "", "OuterJoin")
	first, ok := oj.Body.List[0].(*ast.IfStmt)
	if !ok || canon(first.Cond) != "direction==parser.TokenUndefined" || len(first.Body.List) != 1 || first.Else != nil {
		die("%s: OuterJoin: does not start with `if direction == parser.TokenUndefined {…}`", pos(oj))
	}
	dc := canon(first.Body.List[0])
	if !strings.HasPrefix(dc, "direction=") || dirConst(strings.TrimPrefix(dc, "direction=")) == "" {
		die("%s: OuterJoin: `%s`", pos(first), dc)
	}
	out.WriteString("/-- `OuterJoin`: the direction the loops work with -/\n")
	out.WriteString("def outerDirection (d : JDir) : Dir :=\n  match d with\n  | JDir.absent => " + dirConst(strings.TrimPrefix(dc, "direction=")) + "\n  | JDir.left => Dir.left\n  | JDir.right => Dir.right\n  | JDir.full => Dir.full\n\n")
}

// ---------- eval.go: which function evaluates which node; the sub-query functions ----------

func lenTest(e ast.Expr) string {
	// view.RecordLen() < 1, 1 < view.FieldLen(), …  over the variables rl / fl
	be, ok := e.(*ast.BinaryExpr)
	if !ok {
		die("%s: sub-query test `%s` outside the subset", pos(e), src(e))
	}
	side := func(x ast.Expr) string {
		switch c := canon(x); c {
		case "view.RecordLen()":
			return "rl"
		case "view.FieldLen()":
			return "fl"
		default:
			if b, ok := x.(*ast.BasicLit); ok && b.Kind == token.INT {
				return b.Value
			}
		}
		die("%s: sub-query test operand `%s` outside the subset", pos(x), src(x))
		return ""
	}
	switch be.Op {
	case token.LSS:
		return "decide (" + side(be.X) + " < " + side(be.Y) + ")"
	case token.LEQ:
		return "decide (" + side(be.X) + " ≤ " + side(be.Y) + ")"
	case token.GTR:
		return "decide (" + side(be.X) + " > " + side(be.Y) + ")"
	case token.GEQ:
		return "decide (" + side(be.X) + " ≥ " + side(be.Y) + ")"
	case token.EQL:
		return "decide (" + side(be.X) + " = " + side(be.Y) + ")"
	case token.NEQ:
		return "decide (" + side(be.X) + " ≠ " + side(be.Y) + ")"
	}
	die("%s: sub-query test `%s`", pos(e), src(e))
	return ""
}

// subOutcome: the result of a `return` of a sub-query function
func subOutcome(r *ast.ReturnStmt) string {
	c := canon(r)
	switch {
	case strings.HasPrefix(c, "returnnil,NewSubqueryTooManyFieldsError("):
		return "SubOut.tooManyFields"
	case strings.HasPrefix(c, "returnnil,NewSubqueryNoFieldsError("):
		return "SubOut.noFields"
	case strings.HasPrefix(c, "returnnil,NewSubqueryTooManyRecordsError("):
		return "SubOut.tooManyRecords"
	case c == "returnvalue.NewNull(),nil":
		return "SubOut.null"
	case c == "returnnil,nil":
		return "SubOut.empty"
	case c == "returnview.RecordSet[0][0][0],nil":
		return "SubOut.firstCell"
	case c == "returnlist,nil":
		return "SubOut.firstColumn"
	case c == "returnvalue.NewTernary(ternary.FALSE),nil":
		return "SubOut.tern Tern.F"
	case c == "returnvalue.NewTernary(ternary.TRUE),nil":
		return "SubOut.tern Tern.T"
	case c == "returnvalue.NewTernary(ternary.UNKNOWN),nil":
		return "SubOut.tern Tern.U"
	}
	die("%s: sub-query function returns `%s`", pos(r), src(r))
	return ""
}

// subFn: `view, err := Select(ctx, scope, <query>); if err != nil { return nil, err }`, then a chain of
// `if <length test> { return … }` and a final return (statements that build `list` from the first column are
// checked to be exactly the copy loop)
func subFn(out *strings.Builder, ev *ast.File, name, leanName, queryArg string) {
	fd := findFunc(ev, "", name)
	l := fd.Body.List
	if len(l) < 3 || canon(l[0]) != "view,err:=Select(ctx,scope,"+queryArg+")" || canon(l[1]) != "iferr!=nil{returnnil,err}" {
		die("%s: %s does not start with view, err := Select(ctx, scope, %s) and the error exit", pos(fd), name, queryArg)
	}
	fmt.Fprintf(out, "/-- `%s` after the sub-query was evaluated: the outcome by the size of its result -/\n", name)
	fmt.Fprintf(out, "def %s (fl rl : Nat) : SubOut :=\n", leanName)
	ind := "  "
	for _, s := range l[2:] {
		switch x := s.(type) {
		case *ast.IfStmt:
			if x.Init != nil || x.Else != nil || len(x.Body.List) != 1 {
				die("%s: %s: conditional outside the subset", pos(x), name)
			}
			r, ok := x.Body.List[0].(*ast.ReturnStmt)
			if !ok {
				die("%s: %s: conditional without return", pos(x), name)
			}
			fmt.Fprintf(out, "%sif %s then %s else\n", ind, lenTest(x.Cond), subOutcome(r))
		case *ast.ReturnStmt:
			fmt.Fprintf(out, "%s%s\n\n", ind, subOutcome(x))
		case *ast.AssignStmt:
			if canon(x) != "list:=make([]value.RowValue,view.RecordLen())" {
				die("%s: %s: statement `%s`", pos(x), name, src(x))
			}
		case *ast.RangeStmt:
			if canon(x) != "fori:=rangeview.RecordSet{list[i]=value.RowValue{view.RecordSet[i][0][0]}}" {
				die("%s: %s: the loop is not the copy of the first column", pos(x), name)
			}
		default:
			die("%s: %s: statement %T", pos(s), name, s)
		}
	}
	out.WriteString(leanList(leanName+"Body", "`"+name+"` as a whole", stmtTokens(fd.Body.List)))
}

func genSubqueryEval(out *strings.Builder) {
	ev := parseFile("lib/query/eval.go")
	fd := findFunc(ev, "", "Evaluate")
	var ts *ast.TypeSwitchStmt
	for _, s := range fd.Body.List {
		if x, ok := s.(*ast.TypeSwitchStmt); ok {
			ts = x
		}
	}
	if ts == nil {
		die("%s: Evaluate: type switch not found", pos(fd))
	}
	var disp []string
	for _, c := range ts.Body.List {
		cc := c.(*ast.CaseClause)
		var types []string
		for _, t := range cc.List {
			types = append(types, canon(t))
		}
		key := strings.Join(types, ",")
		if cc.List == nil {
			key = "default"
		}
		callee := "(inline)"
		if len(cc.Body) == 1 {
			if as, ok := cc.Body[0].(*ast.AssignStmt); ok && len(as.Rhs) == 1 {
				if cl, ok := as.Rhs[0].(*ast.CallExpr); ok {
					callee = canon(cl.Fun)
				}
			}
		}
		disp = append(disp, key+"→"+callee)
	}
	out.WriteString(leanList("evalDispatch", "`Evaluate`: node type → the function that evaluates it, in source order", disp))

	subFn(out, ev, "evalExists", "existsOutcome", "expr.Query.Query")
	subFn(out, ev, "evalSubqueryForValue", "scalarOutcome", "expr.Query")
	subFn(out, ev, "evalSubqueryForArray", "arrayOutcome", "expr.Query")
	for _, name := range []string{"evalIn", "evalAny", "evalAll", "evalArray"} {
		out.WriteString(leanList(name+"Body", "`"+name+"` as a whole", stmtTokens(findFunc(ev, "", name).Body.List)))
	}
	// evalIn: the negated form is `<> ALL`, the plain one `= ANY`
	in := findFunc(ev, "", "evalIn")
	var neg *ast.IfStmt
	for _, s := range in.Body.List {
		if is, ok := s.(*ast.IfStmt); ok && canon(is.Cond) == "expr.IsNegated()" {
			neg = is
		}
	}
	if neg == nil || neg.Else == nil {
		die("%s: evalIn: `if expr.IsNegated() {…} else {…}` not found", pos(in))
	}
	quant := func(b *ast.BlockStmt) string {
		if len(b.List) != 1 {
			die("%s: evalIn: branch", pos(b))
		}
		c := canon(b.List[0])
		for _, q := range []string{"All", "Any"} {
			for _, op := range []string{"<>", "=", "!=", "=="} {
				if strings.HasPrefix(c, "t,err="+q+"(val,list,\""+op+"\",") {
					return q + " " + op
				}
			}
		}
		die("%s: evalIn: `%s`", pos(b), c)
		return ""
	}
	out.WriteString(leanList("inQuantifiers", "`evalIn`: [negated form, plain form] as quantifier and operator", []string{quant(neg.Body), quant(neg.Else.(*ast.BlockStmt))}))
}

// ---------- eval.go evalFieldReference: the walk over the records of the enclosing queries; view.go: wildcards ----------

func genScopeWalk(out *strings.Builder) {
	ev := parseFile("lib/query/eval.go")
	fd := findFunc(ev, "", "evalFieldReference")
	out.WriteString(leanList("evalFieldReferenceBody", "`evalFieldReference` as a whole", stmtTokens(fd.Body.List)))
	var loop *ast.RangeStmt
	loopIdx := -1
	for i, s := range fd.Body.List {
		if rs, ok := s.(*ast.RangeStmt); ok {
			if loop != nil {
				die("%s: evalFieldReference: a second loop", pos(rs))
			}
			loop, loopIdx = rs, i
		}
	}
	if loop == nil || canon(loop.X) != "scope.Records" || canon(loop.Key) != "i" || loop.Value != nil {
		die("%s: evalFieldReference: the loop is not `for i := range scope.Records`", pos(fd))
	}
	// idx, err := scope.Records[i].view.Header.SearchIndex(expr); if err == nil {… break} else if err == <sentinel> {return nil, …}
	var chain *ast.IfStmt
	sawSearch := false
	for _, s := range loop.Body.List {
		if as, ok := s.(*ast.AssignStmt); ok && canon(as) == "idx,err:=scope.Records[i].view.Header.SearchIndex(expr)" {
			sawSearch = true
		}
		if is, ok := s.(*ast.IfStmt); ok && sawSearch && is.Init == nil {
			chain = is
		}
	}
	if chain == nil {
		die("%s: evalFieldReference: no test of SearchIndex's error in the loop", pos(loop))
	}
	out.WriteString("/-- `evalFieldReference`: what the loop over the records of the enclosing queries does with the outcome of\n    `SearchIndex` in one scope -/\n")
	out.WriteString("def scopeWalkStep : Except ResErr Nat → WalkR\n")
	sentinel := map[string]string{"errFieldAmbiguous": "ResErr.ambiguous", "errFieldNotExist": "ResErr.notExist"}
	ctor := map[string]string{"NewFieldAmbiguousError": "ResErr.ambiguous", "NewFieldNotExistError": "ResErr.notExist"}
	sawOk := false
	closed := false
	for cur := chain; cur != nil; {
		c := canon(cur.Cond)
		last := cur.Body.List[len(cur.Body.List)-1]
		switch {
		case c == "err==nil":
			if _, ok := last.(*ast.BranchStmt); !ok || canon(last) != "break" {
				die("%s: evalFieldReference: the found branch does not end with break", pos(cur))
			}
			out.WriteString("  | .ok i => WalkR.found i\n")
			sawOk = true
		case strings.HasPrefix(c, "err==") && sentinel[strings.TrimPrefix(c, "err==")] != "":
			r, ok := last.(*ast.ReturnStmt)
			if !ok || len(r.Results) != 2 || canon(r.Results[0]) != "nil" {
				die("%s: evalFieldReference: branch `%s` does not return an error", pos(cur), c)
			}
			call, ok := r.Results[1].(*ast.CallExpr)
			if !ok || ctor[canon(call.Fun)] == "" {
				die("%s: evalFieldReference: branch `%s` returns %s", pos(cur), c, src(r))
			}
			out.WriteString("  | .error " + sentinel[strings.TrimPrefix(c, "err==")] + " => WalkR.fail " + ctor[canon(call.Fun)] + "\n")
		default:
			die("%s: evalFieldReference: test `%s` outside the subset", pos(cur), src(cur.Cond))
		}
		switch e := cur.Else.(type) {
		case nil:
			cur = nil
		case *ast.IfStmt:
			cur = e
		default:
			die("%s: evalFieldReference: a final else in the error tests", pos(cur))
			closed = true
		}
	}
	if !sawOk {
		die("%s: evalFieldReference: no `err == nil` branch", pos(chain))
	}
	if !closed {
		out.WriteString("  | .error _ => WalkR.next\n\n")
	}
	// after the loop: if p == nil { return nil, NewFieldNotExistError(expr) }
	if loopIdx+1 >= len(fd.Body.List) {
		die("%s: evalFieldReference: nothing after the loop", pos(fd))
	}
	after, ok := fd.Body.List[loopIdx+1].(*ast.IfStmt)
	if !ok || canon(after.Cond) != "p==nil" || len(after.Body.List) != 1 {
		die("%s: evalFieldReference: the loop is not followed by `if p == nil {…}`", pos(fd))
	}
	r, ok := after.Body.List[0].(*ast.ReturnStmt)
	if !ok || len(r.Results) != 2 {
		die("%s: evalFieldReference: `if p == nil` does not return", pos(after))
	}
	call, ok := r.Results[1].(*ast.CallExpr)
	if !ok || ctor[canon(call.Fun)] == "" {
		die("%s: evalFieldReference: after the loop: %s", pos(after), src(r))
	}
	out.WriteString("/-- `evalFieldReference`: the error when no scope knew the reference -/\n")
	out.WriteString("def scopeWalkEnd : ResErr := " + ctor[canon(call.Fun)] + "\n\n")

	// view.go View.Select: parseWildcard; header.go TableColumns
	vw := parseFile("lib/query/view.go")
	sel := findFunc(vw, "View", "Select")
	var pw *ast.FuncLit
	for _, s := range sel.Body.List {
		if ds, ok := s.(*ast.DeclStmt); ok {
			if gd, ok := ds.Decl.(*ast.GenDecl); ok {
				for _, sp := range gd.Specs {
					vs := sp.(*ast.ValueSpec)
					if len(vs.Names) == 1 && vs.Names[0].Name == "parseWildcard" && len(vs.Values) == 1 {
						pw, _ = vs.Values[0].(*ast.FuncLit)
					}
				}
			}
		}
	}
	if pw == nil {
		die("%s: View.Select: parseWildcard not found", pos(sel))
	}
	out.WriteString(leanList("parseWildcardBody", "`View.Select`: the expansion of `*` and `view.*` into one field per table column", stmtTokens(pw.Body.List)))
	// the test that drops a column from `view.*`
	var skip string
	ast.Inspect(pw.Body, func(n ast.Node) bool {
		if is, ok := n.(*ast.IfStmt); ok && len(is.Body.List) == 1 && canon(is.Body.List[0]) == "continue" && strings.Contains(canon(is.Cond), "viewName") {
			skip = canon(is.Cond)
		}
		return true
	})
	if skip != "cref.View.Literal!=viewName" {
		die("%s: View.Select: `view.*` drops a column under `%s`, not under `cref.View.Literal != viewName`", pos(pw), skip)
	}
	out.WriteString("/-- `View.Select`: a table column belongs to `view.*` when … (exact spelling of the view name) -/\n")
	out.WriteString("def viewStarKeeps (f : HField) (viewName : String) : Bool := !(f.view != viewName)\n\n")
	hd := parseFile("lib/query/header.go")
	tc := findFunc(hd, "Header", "TableColumns")
	out.WriteString(leanList("tableColumnsBody", "`Header.TableColumns`: the columns `*` stands for", stmtTokens(tc.Body.List)))
	skip = ""
	ast.Inspect(tc.Body, func(n ast.Node) bool {
		if is, ok := n.(*ast.IfStmt); ok && len(is.Body.List) == 1 && canon(is.Body.List[0]) == "continue" {
			skip = canon(is.Cond)
		}
		return true
	})
	if skip != "!f.IsFromTable" {
		die("%s: Header.TableColumns skips a field under `%s`, not under `!f.IsFromTable`", pos(tc), skip)
	}
	out.WriteString("/-- `Header.TableColumns`: a header field is a table column when … -/\n")
	out.WriteString("def tableColumnKeeps (f : HField) : Bool := !(!f.fromTable)\n\n")
}

func main() {
	var out strings.Builder
	out.WriteString("-- GENERATED by /verif/extract/relfacts from lib/query/{header,utils,view,load_view,join,reference_scope,query,inline_tables,comparison,eval}.go — do not edit.\n")
	out.WriteString("import Csvq.Model.RelGen\n\nset_option linter.unusedVariables false\n\nnamespace Csvq.Gen\nopen Csvq Csvq.Rel\n\n")
	genInStrSlice(&out)
	genFieldIndex(&out)
	genOtherLookups(&out)
	genFix(&out)
	genFlagWrites(&out)
	genLoadObject(&out)
	genJoin(&out)
	genScope(&out)
	genLike(&out)
	genLateral(&out)
	genSubqueryEval(&out)
	genScopeWalk(&out)
	out.WriteString("end Csvq.Gen\n")
	fmt.Print(out.String())
}
