// dtfacts: reads lib/value/conv.go of csvq and prints Csvq/Gen/StrToTimeFacts.lean — the datetime rung for texts,
// as far as it is mechanical:
//   trimFirst / userLoop   StrToTime trims first; which parse function the loop over the user formats calls
//   guard / dispatch       the built-in dispatch of StrToTime as a tree (Csvq.TP.Dispatch): conditions on the length
//                          and on single bytes of the text, and for every branch the layout string and the parse
//                          function: time.ParseInLocation(layout, s, location) / time.Parse(layout, s) /
//                          time.Parse followed by t.In(location)
//   layoutTexts            the layout strings in branch order (readable form of the byte lists in `dispatch`)
//   convertLoop            how ConvertDatetimeFormat walks the pattern: "rune" (range over []rune(format) or over the
//                          string) or "byte" (index loop with rune(format[i])), with the source text of the loop head
//   convertLiteralWrite    the statement that copies a rune outside a verb; convertDefaultWrite the one after '%'
//   verbTable              the verbs of ConvertDatetimeFormat with the layout text each one writes
// Props/C06Zone.lean states what these must be for Model/ParseTimeFull.lean to be the code.  Stdlib only; fails
// loudly (exit 1) on any construct outside the subset.
package main

import (
	"fmt"
	"go/ast"
	"go/parser"
	"go/printer"
	"go/token"
	"os"
	"path/filepath"
	"strconv"
	"strings"
)

var fset = token.NewFileSet()

func die(format string, a ...interface{}) {
	fmt.Fprintf(os.Stderr, "dtfacts: "+format+"\n", a...)
	os.Exit(1)
}

func src(n ast.Node) string {
	var sb strings.Builder
	_ = printer.Fprint(&sb, fset, n)
	return strings.Join(strings.Fields(sb.String()), " ")
}

func lit(s string) string {
	return "\"" + strings.ReplaceAll(strings.ReplaceAll(s, "\\", "\\\\"), "\"", "\\\"") + "\""
}

func bytesOf(s string) string {
	p := make([]string, len(s))
	for i := 0; i < len(s); i++ {
		p[i] = strconv.Itoa(int(s[i]))
	}
	return "[" + strings.Join(p, ", ") + "]"
}

var timeConsts = map[string]string{
	"time.RFC3339Nano": "2006-01-02T15:04:05.999999999Z07:00",
	"time.RFC3339":     "2006-01-02T15:04:05Z07:00",
	"time.RFC822":      "02 Jan 06 15:04 MST",
	"time.RFC822Z":     "02 Jan 06 15:04 -0700",
	"time.RFC1123":     "Mon, 02 Jan 2006 15:04:05 MST",
	"time.RFC1123Z":    "Mon, 02 Jan 2006 15:04:05 -0700",
}

var layouts []string

func intLit(e ast.Expr) (int, bool) {
	switch x := e.(type) {
	case *ast.BasicLit:
		switch x.Kind {
		case token.INT:
			n, err := strconv.Atoi(x.Value)
			return n, err == nil
		case token.CHAR:
			s, err := strconv.Unquote(x.Value)
			if err != nil || len(s) != 1 {
				return 0, false
			}
			return int(s[0]), true
		}
	}
	return 0, false
}

func isLenS(e ast.Expr) bool { return src(e) == "len(s)" }

// s[k] / s[len(s)-k]
func byteIndex(e ast.Expr) (string, bool) {
	ix, ok := e.(*ast.IndexExpr)
	if !ok || src(ix.X) != "s" {
		return "", false
	}
	if n, ok := intLit(ix.Index); ok {
		return fmt.Sprintf("(.abs %d)", n), true
	}
	if b, ok := ix.Index.(*ast.BinaryExpr); ok && b.Op == token.SUB && isLenS(b.X) {
		if n, ok := intLit(b.Y); ok {
			return fmt.Sprintf("(.fromEnd %d)", n), true
		}
	}
	return "", false
}

func cond(e ast.Expr) string {
	switch x := e.(type) {
	case *ast.ParenExpr:
		return cond(x.X)
	case *ast.BinaryExpr:
		switch x.Op {
		case token.LOR:
			return "(.or " + cond(x.X) + " " + cond(x.Y) + ")"
		case token.LAND:
			return "(.and " + cond(x.X) + " " + cond(x.Y) + ")"
		}
		l, r, op := x.X, x.Y, x.Op
		// constant on the left: turn around
		if _, ok := intLit(l); ok {
			l, r = r, l
			switch op {
			case token.LSS:
				op = token.GTR
			case token.LEQ:
				op = token.GEQ
			case token.GTR:
				op = token.LSS
			case token.GEQ:
				op = token.LEQ
			}
		}
		n, ok := intLit(r)
		if !ok {
			die("condition outside the subset: %s", src(e))
		}
		names := map[token.Token]string{token.LSS: "Lt", token.LEQ: "Le", token.EQL: "Eq", token.GEQ: "Ge", token.GTR: "Gt", token.NEQ: "Ne"}
		nm, ok := names[op]
		if !ok {
			die("condition outside the subset: %s", src(e))
		}
		if isLenS(l) {
			return fmt.Sprintf("(.len%s %d)", nm, n)
		}
		if ix, ok := byteIndex(l); ok {
			return fmt.Sprintf("(.byte%s %s %d)", nm, ix, n)
		}
	}
	die("condition outside the subset: %s", src(e))
	return ""
}

// `t, e := time.Parse…(layout, s[, location])` with condition `e == nil` and body `return t…, true`
func tryOf(s *ast.IfStmt) (fn string, layout string, ok bool) {
	as, isAs := s.Init.(*ast.AssignStmt)
	if !isAs || as.Tok != token.DEFINE || len(as.Lhs) != 2 || len(as.Rhs) != 1 || src(as.Lhs[0]) != "t" || src(as.Lhs[1]) != "e" {
		return "", "", false
	}
	if src(s.Cond) != "e == nil" {
		die("parse attempt with another condition: %s", src(s.Cond))
	}
	call, isCall := as.Rhs[0].(*ast.CallExpr)
	if !isCall {
		die("parse attempt is no call: %s", src(as))
	}
	if len(s.Body.List) != 1 {
		die("parse attempt with another body: %s", src(s.Body))
	}
	ret := src(s.Body.List[0])
	switch src(call.Fun) {
	case "time.ParseInLocation":
		if len(call.Args) != 3 || src(call.Args[1]) != "s" || src(call.Args[2]) != "location" {
			die("ParseInLocation with other arguments: %s", src(call))
		}
		if ret != "return t, true" {
			die("ParseInLocation branch returns %q", ret)
		}
		fn = ".inLocation"
	case "time.Parse":
		if len(call.Args) != 2 || src(call.Args[1]) != "s" {
			die("Parse with other arguments: %s", src(call))
		}
		switch ret {
		case "return t, true":
			fn = ".parse"
		case "return t.In(location), true":
			fn = ".parseThenIn"
		default:
			die("Parse branch returns %q", ret)
		}
	default:
		die("unknown parse function %s", src(call.Fun))
	}
	switch a := call.Args[0].(type) {
	case *ast.BasicLit:
		if a.Kind != token.STRING {
			die("layout is no string: %s", src(a))
		}
		v, err := strconv.Unquote(a.Value)
		if err != nil {
			die("layout: %v", err)
		}
		layout = v
	default:
		v, known := timeConsts[src(a)]
		if !known {
			if src(a) == "DatetimeFormats.Get(format)" {
				return fn, "", true
			}
			die("layout outside the subset: %s", src(a))
		}
		layout = v
	}
	return fn, layout, true
}

func seq(stmts []ast.Stmt, cont string) string {
	if len(stmts) == 0 {
		return cont
	}
	rest := seq(stmts[1:], cont)
	switch s := stmts[0].(type) {
	case *ast.IfStmt:
		return ifStmt(s, rest)
	case *ast.SwitchStmt:
		if s.Init != nil || s.Tag != nil {
			die("switch with a tag in StrToTime: %s", src(s))
		}
		out := rest
		var cases []*ast.CaseClause
		var def *ast.CaseClause
		for _, c := range s.Body.List {
			cc := c.(*ast.CaseClause)
			if cc.List == nil {
				def = cc
			} else {
				cases = append(cases, cc)
			}
		}
		bodies := make([]string, len(cases))
		for i := range cases {
			bodies[i] = seq(cases[i].Body, rest)
		}
		if def != nil {
			out = seq(def.Body, rest)
		}
		for i := len(cases) - 1; i >= 0; i-- {
			if len(cases[i].List) != 1 {
				die("case with several conditions")
			}
			out = "(.ite " + cond(cases[i].List[0]) + " " + bodies[i] + " " + out + ")"
		}
		return out
	case *ast.ReturnStmt:
		if src(s) != "return time.Time{}, false" {
			die("return outside the subset: %s", src(s))
		}
		return ".fail"
	}
	die("statement outside the subset: %s", src(stmts[0]))
	return ""
}

func ifStmt(s *ast.IfStmt, cont string) string {
	tfn, tlayout, isTry := tryOf(s)
	if isTry {
		layouts = append(layouts, tlayout)
	}
	thenPart := ""
	if !isTry {
		if s.Init != nil {
			die("if with an init statement: %s", src(s.Init))
		}
		thenPart = seq(s.Body.List, cont)
	}
	els := cont
	switch e := s.Else.(type) {
	case nil:
	case *ast.IfStmt:
		els = ifStmt(e, cont)
	case *ast.BlockStmt:
		els = seq(e.List, cont)
	default:
		die("else outside the subset")
	}
	if isTry {
		return "(.try " + tfn + " " + bytesOf(tlayout) + " " + els + ")"
	}
	return "(.ite " + cond(s.Cond) + " " + thenPart + " " + els + ")"
}

func main() {
	repo := os.Getenv("VERIF_REPO")
	if repo == "" {
		repo = "/repo"
	}
	f, err := parser.ParseFile(fset, filepath.Join(repo, "lib/value/conv.go"), nil, 0)
	if err != nil {
		die("%v", err)
	}
	var strToTime, convert *ast.FuncDecl
	for _, d := range f.Decls {
		if fd, ok := d.(*ast.FuncDecl); ok && fd.Recv == nil {
			switch fd.Name.Name {
			case "StrToTime":
				strToTime = fd
			case "ConvertDatetimeFormat":
				convert = fd
			}
		}
	}
	if strToTime == nil || convert == nil {
		die("StrToTime or ConvertDatetimeFormat not found")
	}

	// ---- StrToTime ----
	body := strToTime.Body.List
	if len(body) < 3 {
		die("StrToTime: unexpected shape")
	}
	trimFirst := src(body[0]) == "s = option.TrimSpace(s)"
	loop, ok := body[1].(*ast.RangeStmt)
	if !ok || src(loop.X) != "formats" || src(loop.Value) != "format" || len(loop.Body.List) != 1 {
		die("StrToTime: the loop over the user formats not found: %s", src(body[1]))
	}
	lif, ok := loop.Body.List[0].(*ast.IfStmt)
	if !ok || lif.Else != nil {
		die("StrToTime: the body of the loop over the user formats: %s", src(loop.Body))
	}
	userFn, userLayout, ok := tryOf(lif)
	if !ok || userLayout != "" {
		die("StrToTime: the loop over the user formats does not parse with DatetimeFormats.Get(format)")
	}
	gif, ok := body[2].(*ast.IfStmt)
	if !ok || gif.Init != nil || gif.Else != nil {
		die("StrToTime: the guarded dispatch not found")
	}
	guard := cond(gif.Cond)
	tail := seq(body[3:], "")
	if tail != ".fail" {
		die("StrToTime: does not end with `return time.Time{}, false`")
	}
	dispatch := seq(gif.Body.List, ".fail")
	builtin := append([]string{}, layouts...)

	// ---- ConvertDatetimeFormat ----
	loopKind, loopSrc := "unknown", ""
	var loopBody *ast.BlockStmt
	runeVars := map[string]bool{}
	for _, st := range convert.Body.List {
		switch x := st.(type) {
		case *ast.AssignStmt:
			if x.Tok == token.DEFINE && len(x.Lhs) == 1 && len(x.Rhs) == 1 && src(x.Rhs[0]) == "[]rune(format)" {
				runeVars[src(x.Lhs[0])] = true
			}
		case *ast.RangeStmt:
			loopBody = x.Body
			loopSrc = "for " + src(x.Key) + ", " + src(x.Value) + " := range " + src(x.X)
			if src(x.Value) == "r" && (runeVars[src(x.X)] || src(x.X) == "format" || src(x.X) == "[]rune(format)") {
				loopKind = "rune"
			}
		case *ast.ForStmt:
			loopBody = x.Body
			loopSrc = "for " + src(x.Init) + "; " + src(x.Cond) + "; " + src(x.Post)
			if len(x.Body.List) > 0 {
				loopSrc += " { " + src(x.Body.List[0])
				if strings.Contains(src(x.Body.List[0]), "rune(format[") {
					loopKind = "byte"
				}
			}
		}
	}
	if loopBody == nil {
		die("ConvertDatetimeFormat: loop not found")
	}
	var switches []*ast.SwitchStmt
	ast.Inspect(loopBody, func(n ast.Node) bool {
		if s, ok := n.(*ast.SwitchStmt); ok {
			switches = append(switches, s)
		}
		return true
	})
	if len(switches) != 2 || src(switches[0].Tag) != "r" || src(switches[1].Tag) != "r" {
		die("ConvertDatetimeFormat: expected the two switches on r")
	}
	literalWrite := ""
	for _, c := range switches[0].Body.List {
		cc := c.(*ast.CaseClause)
		if cc.List == nil {
			var p []string
			for _, s := range cc.Body {
				p = append(p, src(s))
			}
			literalWrite = strings.Join(p, "; ")
		} else if len(cc.List) != 1 || src(cc.List[0]) != "'%'" || len(cc.Body) != 1 || src(cc.Body[0]) != "escaped = true" {
			die("ConvertDatetimeFormat: first switch: %s", src(cc))
		}
	}
	var verbs []string
	defaultWrite := ""
	for _, c := range switches[1].Body.List {
		cc := c.(*ast.CaseClause)
		if cc.List == nil {
			var p []string
			for _, s := range cc.Body {
				p = append(p, src(s))
			}
			defaultWrite = strings.Join(p, "; ")
			continue
		}
		if len(cc.Body) != 1 {
			die("ConvertDatetimeFormat: verb with several statements: %s", src(cc))
		}
		es, ok := cc.Body[0].(*ast.ExprStmt)
		if !ok {
			die("ConvertDatetimeFormat: verb body: %s", src(cc))
		}
		call, ok := es.X.(*ast.CallExpr)
		if !ok || src(call.Fun) != "buf.WriteString" || len(call.Args) != 1 {
			die("ConvertDatetimeFormat: verb body: %s", src(cc))
		}
		bl, ok := call.Args[0].(*ast.BasicLit)
		if !ok || bl.Kind != token.STRING {
			die("ConvertDatetimeFormat: verb body: %s", src(cc))
		}
		text, err := strconv.Unquote(bl.Value)
		if err != nil {
			die("%v", err)
		}
		for _, k := range cc.List {
			n, ok := intLit(k)
			if !ok {
				die("ConvertDatetimeFormat: verb: %s", src(k))
			}
			verbs = append(verbs, fmt.Sprintf("(%d, %s)", n, bytesOf(text)))
		}
	}

	var b strings.Builder
	p := func(format string, a ...interface{}) { fmt.Fprintf(&b, format, a...) }
	p("/- GENERATED by extract/dtfacts from lib/value/conv.go — do not edit. -/\nimport Csvq.Model.ParseTimeFull\nnamespace Csvq.Gen.DT\nopen Csvq.TP\n\n")
	p("/-- StrToTime begins with `s = option.TrimSpace(s)` -/\ndef trimFirst : Bool := %v\n\n", trimFirst)
	p("/-- the parse function of the loop over the user formats (layout: DatetimeFormats.Get(format)) -/\ndef userLoop : ParseFn := %s\n\n", userFn)
	p("/-- the condition in front of the built-in dispatch -/\ndef guard : Cond := %s\n\n", guard)
	p("/-- the built-in dispatch: conditions, layouts (bytes) and parse functions in source order -/\ndef dispatch : Dispatch :=\n  %s\n\n", dispatch)
	q := make([]string, len(builtin))
	for i, l := range builtin {
		q[i] = lit(l)
	}
	p("/-- the layout strings of `dispatch` in branch order, readable -/\ndef layoutTexts : List String := [%s]\n\n", strings.Join(q, ", "))
	p("/-- how ConvertDatetimeFormat walks the pattern -/\ndef convertLoop : String := %s\ndef convertLoopSource : String := %s\n\n", lit(loopKind), lit(loopSrc))
	p("/-- what it does with a rune outside a verb, and with a rune after '%%' that is no verb -/\ndef convertLiteralWrite : String := %s\ndef convertDefaultWrite : String := %s\n\n", lit(literalWrite), lit(defaultWrite))
	p("/-- the verbs and the layout text each writes -/\ndef verbTable : List (Nat × List Nat) := [%s]\n\n", strings.Join(verbs, ", "))
	p("end Csvq.Gen.DT\n")
	fmt.Print(b.String())
}
