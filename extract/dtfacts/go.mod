module dtfacts

go 1.18
