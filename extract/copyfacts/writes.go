package main

// The WRITES the data-changing functions perform on views: every assignment in Insert / Update / Replace / Delete /
// CreateTable / AddColumns / DropColumns / RenameColumn / SetTableAttribute (lib/query/query.go) and in the methods of View /
// Header / RecordSet / Record they call (transitively, methods of these types only) whose target is a part of a view,
// classified BY THE TYPE of what is written into:
//
//	X.F = …        X a *View / View                → viewStruct
//	X[i] = …       X a Header                      → headerArray       X[i].F = … likewise (F = Aliases with append(X[i].Aliases, …): aliasArray too)
//	X[i] = …       X a RecordSet                   → recordSetArray
//	X[i] = …       X a Record                      → recordArray
//	X[i] = …       X a Cell                        → cellArray
//	X[i] = …       X the Aliases of a HeaderField  → aliasArray
//	X.F = …        X a *FileInfo / FileInfo        → fileInfo
//
// A target rooted in a local slice that the function made itself (make / literal / append to nil) is not a write into a view.

import (
	"go/ast"
	"go/token"
	"go/types"
	"sort"
	"strings"
)

type Write struct{ Fn, Site, Target, Level string }

var dmlRoots = []string{"Insert", "Update", "Replace", "Delete", "CreateTable", "AddColumns", "DropColumns", "RenameColumn", "SetTableAttribute"}

func namedOf(t types.Type) string {
	if pt, ok := t.(*types.Pointer); ok {
		t = pt.Elem()
	}
	if nt, ok := t.(*types.Named); ok && nt.Obj().Pkg() != nil && strings.HasSuffix(nt.Obj().Pkg().Path(), "lib/query") {
		return nt.Obj().Name()
	}
	return ""
}

var viewTypes = map[string]bool{"View": true, "Header": true, "RecordSet": true, "Record": true, "Cell": true, "HeaderField": true}

func dmlWrites(p *Pkg) ([]Write, map[string]bool) {
	decls := map[*types.Func]*ast.FuncDecl{}
	byName := map[string]*types.Func{}
	for _, f := range p.Files {
		for _, d := range f.Decls {
			if fd, ok := d.(*ast.FuncDecl); ok && fd.Body != nil {
				if fn, ok := p.Info.Defs[fd.Name].(*types.Func); ok {
					decls[fn] = fd
					if fd.Recv == nil {
						byName[fd.Name.Name] = fn
					}
				}
			}
		}
	}
	var work []*types.Func
	seen := map[*types.Func]bool{}
	for _, r := range dmlRoots {
		fn, ok := byName[r]
		if !ok {
			fatal("data-changing function %s not found in lib/query", r)
		}
		work = append(work, fn)
		seen[fn] = true
	}
	var out []Write
	for len(work) > 0 {
		fn := work[0]
		work = work[1:]
		fd := decls[fn]
		label := funcLabel(fn)
		// locals the function made itself: EVERY value assigned to them is a make / literal
		own := map[types.Object]bool{}
		notOwn := map[types.Object]bool{}
		note := func(o types.Object, e ast.Expr) {
			if o == nil {
				return
			}
			if c, ok := e.(*ast.CallExpr); ok && text(c.Fun) == "append" && len(c.Args) > 0 {
				if id, ok := c.Args[0].(*ast.Ident); ok && (p.Info.Uses[id] == o) {
					return // x = append(x, …): x stays what it was
				}
			}
			if isOwn(p, e, own) {
				own[o] = true
			} else {
				notOwn[o] = true
			}
		}
		ast.Inspect(fd.Body, func(n ast.Node) bool {
			switch x := n.(type) {
			case *ast.ValueSpec:
				for i, nm := range x.Names {
					if i < len(x.Values) {
						note(p.Info.Defs[nm], x.Values[i])
					}
				}
			case *ast.AssignStmt:
				for i, l := range x.Lhs {
					id, ok := l.(*ast.Ident)
					if !ok {
						continue
					}
					o := p.Info.Defs[id]
					if o == nil {
						o = p.Info.Uses[id]
					}
					if len(x.Lhs) == len(x.Rhs) {
						note(o, x.Rhs[i])
					} else if o != nil {
						notOwn[o] = true
					}
				}
			case *ast.RangeStmt:
				for _, e := range []ast.Expr{x.Key, x.Value} {
					if id, ok := e.(*ast.Ident); ok {
						if o := p.Info.Defs[id]; o != nil {
							notOwn[o] = true
						}
					}
				}
			}
			return true
		})
		for o := range notOwn {
			delete(own, o)
		}
		ast.Inspect(fd.Body, func(n ast.Node) bool {
			switch x := n.(type) {
			case *ast.CallExpr:
				if sel, ok := x.Fun.(*ast.SelectorExpr); ok {
					if callee, ok := p.Info.Uses[sel.Sel].(*types.Func); ok && !seen[callee] {
						if sig, ok := callee.Type().(*types.Signature); ok && sig.Recv() != nil && viewTypes[namedOf(sig.Recv().Type())] {
							if _, has := decls[callee]; has {
								seen[callee] = true
								work = append(work, callee)
							}
						}
					}
				}
			case *ast.AssignStmt:
				for i, l := range x.Lhs {
					var rhs ast.Expr
					if len(x.Rhs) == len(x.Lhs) {
						rhs = x.Rhs[i]
					}
					out = append(out, classify(p, label, l, rhs, own)...)
				}
				// append(A, …): writes behind A in place when A has room
				for _, r := range x.Rhs {
					if c, ok := r.(*ast.CallExpr); ok && text(c.Fun) == "append" && len(c.Args) > 0 {
						if lv := arrayLevel(p, c.Args[0], own); lv != "" {
							out = append(out, Write{label, at(c.Pos()), "append(" + text(c.Args[0]) + ",…)", lv})
						}
					}
				}
			case *ast.ExprStmt:
				// copy(D, …): writes the elements of D
				if c, ok := x.X.(*ast.CallExpr); ok && text(c.Fun) == "copy" && len(c.Args) == 2 {
					d := c.Args[0]
					if se, ok := d.(*ast.SliceExpr); ok {
						d = se.X
					}
					if lv := arrayLevel(p, d, own); lv != "" {
						out = append(out, Write{label, at(c.Pos()), "copy(" + text(c.Args[0]) + ",…)", lv})
					}
				}
			case *ast.IncDecStmt:
				out = append(out, classify(p, label, x.X, nil, own)...)
			}
			return true
		})
	}
	sort.Slice(out, func(i, j int) bool {
		if out[i].Fn != out[j].Fn {
			return out[i].Fn < out[j].Fn
		}
		return out[i].Site < out[j].Site
	})
	closure := map[string]bool{}
	for fn := range seen {
		closure[funcLabel(fn)] = true
	}
	return out, closure
}

// isOwn: make(..), a composite literal, or an append to something that is the function's own / nil
func isOwn(p *Pkg, e ast.Expr, own map[types.Object]bool) bool {
	switch x := e.(type) {
	case *ast.CompositeLit:
		return true
	case *ast.UnaryExpr:
		_, ok := x.X.(*ast.CompositeLit)
		return ok && x.Op == token.AND
	case *ast.CallExpr:
		if id, ok := x.Fun.(*ast.Ident); ok {
			if _, isB := p.Info.Uses[id].(*types.Builtin); isB && (id.Name == "make" || id.Name == "new") {
				return true
			}
		}
	}
	return false
}

func rootObj(p *Pkg, e ast.Expr) types.Object {
	for {
		switch x := e.(type) {
		case *ast.ParenExpr:
			e = x.X
		case *ast.SelectorExpr:
			e = x.X
		case *ast.IndexExpr:
			e = x.X
		case *ast.StarExpr:
			e = x.X
		case *ast.Ident:
			if o := p.Info.Uses[x]; o != nil {
				return o
			}
			return p.Info.Defs[x]
		default:
			return nil
		}
	}
}

func classify(p *Pkg, label string, lhs ast.Expr, rhs ast.Expr, own map[types.Object]bool) []Write {
	var container ast.Expr
	field := ""
	switch x := lhs.(type) {
	case *ast.IndexExpr:
		container = x.X
	case *ast.SelectorExpr:
		container, field = x.X, x.Sel.Name
	default:
		return nil
	}
	tv, ok := p.Info.Types[container]
	if !ok {
		return nil
	}
	// a slice the function made itself (directly `x[i] = …` / `x[i].F = …` on the local)
	direct := container
	if ie, ok := container.(*ast.IndexExpr); ok && field != "" {
		direct = ie.X
	}
	if id, ok := direct.(*ast.Ident); ok {
		if o := rootObj(p, id); o != nil && own[o] {
			return nil
		}
	}
	mk := func(level string) Write { return Write{label, at(lhs.Pos()), text(lhs), level} }
	name := namedOf(tv.Type)
	switch {
	case field != "" && name == "View":
		return []Write{mk("viewStruct")}
	case field != "" && name == "FileInfo":
		return []Write{mk("fileInfo")}
	case field != "" && name == "HeaderField":
		// X[i].F = …: the element lives in the array behind the header X
		if ie, ok := container.(*ast.IndexExpr); ok {
			if t2, ok := p.Info.Types[ie.X]; ok && namedOf(t2.Type) == "Header" {
				ws := []Write{mk("headerArray")}
				if field == "Aliases" && rhs != nil {
					if c, ok := rhs.(*ast.CallExpr); ok && text(c.Fun) == "append" && len(c.Args) > 0 && text(c.Args[0]) == text(lhs) {
						ws = append(ws, mk("aliasArray")) // append in place: the old backing array is written when it has room
					}
				}
				return ws
			}
		}
		return nil
	case field == "" && name == "Header":
		return []Write{mk("headerArray")}
	case field == "" && name == "RecordSet":
		return []Write{mk("recordSetArray")}
	case field == "" && name == "Record":
		return []Write{mk("recordArray")}
	case field == "" && name == "Cell":
		return []Write{mk("cellArray")}
	case field == "":
		if se, ok := container.(*ast.SelectorExpr); ok && se.Sel.Name == "Aliases" {
			return []Write{mk("aliasArray")}
		}
	}
	return nil
}

// arrayLevel: the level of the array behind a slice-typed part of a view ("" = not a part of a view / the function's own)
func arrayLevel(p *Pkg, e ast.Expr, own map[types.Object]bool) string {
	if id, ok := e.(*ast.Ident); ok {
		if o := rootObj(p, id); o != nil && own[o] {
			return ""
		}
	}
	tv, ok := p.Info.Types[e]
	if !ok {
		return ""
	}
	switch namedOf(tv.Type) {
	case "Header":
		return "headerArray"
	case "RecordSet":
		return "recordSetArray"
	case "Record":
		return "recordArray"
	case "Cell":
		return "cellArray"
	}
	if se, ok := e.(*ast.SelectorExpr); ok && se.Sel.Name == "Aliases" {
		return "aliasArray"
	}
	return ""
}
