module copyfacts

go 1.23
