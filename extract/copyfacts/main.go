// copyfacts — generator of lean/Csvq/Gen/CopyFacts.lean (properties C08, C05): HOW DEEP every copy is.
//
// C08 ("a failing statement changes nothing") rests on "the statement works on a COPY of the cached view".  For every
// function of lib/query, lib/value and lib/option named Copy… / Clone… / copy…, and for the accessors and constructors
// listed in `required` (ViewMap.Get, ViewMap.GetWithInternalId, View.Copy, RecordSet.Copy, Record.Copy, Header.Copy,
// NewCell, NewReferenceRecord, ReferenceRecord.copyForChildScope, …), the program states per LEVEL of the returned value
// how that level is obtained:
//
//	fresh(make(..)) / fresh(literal)   a new object
//	same(expr)                         the value of an expression of the original: same pointer / same slice header
//	call(F)                            the result of another copy function (recursively Copy()-ed)
//	scalar                             a value without pointers (numbers, strings, booleans): nothing to share
//	nil, other(text)                   nil / anything the translation has no rule for (never counted as fresh)
//
// and for the ELEMENTS of a fresh slice / map every statement that fills them: a loop (with its bounds: `whole` = it
// runs over 0..len of the source and the destination was made with that length), the builtin copy() (elements are
// taken over as they are: shallow for slice-typed elements), a loop inside a goroutine / closure, a single index.
// A level is `path` below the result: "" the result itself, ".F" a field, "[*]" the elements.
//
// Source tree: $VERIF_REPO (default /repo).  Standard library only (go/ast, go/types; the imports of the analysed
// packages are read from the compiler's export data through `go list -export`).  FAIL-CLOSED: a statement kind or a
// shape without a rule inside one of these functions ends the program with status 1 (the check reports an undischarged
// obligation); an expression without a rule becomes other(text), which no theorem accepts as fresh.
package main

import (
	"fmt"
	"go/ast"
	"go/token"
	"go/types"
	"os"
	"regexp"
	"sort"
	"strings"
)

type How struct{ Kind, Text string }

func (h How) lean() string {
	switch h.Kind {
	case "nil", "scalar":
		return "." + map[string]string{"nil": "nil", "scalar": "scalar"}[h.Kind]
	}
	return fmt.Sprintf("(.%s %s)", h.Kind, leanStr(h.Text))
}

// Node: what is known about a value while a function body is walked
type Node struct {
	How     How
	Pos     token.Pos
	Guard   string           // the value was assigned under this condition ("" = always); otherwise it is nil
	LenText string           // make(T, n): the text of n, normalised
	Fields  map[string]*Node // fields set explicitly (struct literal, later assignments)
	Order   []string
	Fills   []*Fill
	Implied bool     // stands for a part of another value (a field / element not described here): emits no fact itself
	Guards  []string // the conditions in force where the value was made / assigned
	Depth   int      // number of conditions in force where the variable / base value it belongs to was made
}

type Fill struct {
	Via, Bounds    string
	Whole          bool
	Elem           *Node
	Pos            token.Pos
	Guards         []string // the conditions in force at the statement
	idxText, count string
}

// undo: something added to a node inside an if-body; taken back when that body ends in a return
type undo struct {
	node  *Node
	fill  *Fill
	field string
	prev  *Node
	had   bool
}

type Fact struct {
	Fn, Site      string
	Ret           int
	Cond          string
	Path          []string
	How           How
	Via           string
	Whole         bool
	Bounds, Guard string
}

type loopCtx struct {
	idx    types.Object // the index variable (nil: none)
	val    types.Object // the value variable of a range loop
	src    string       // text of the ranged expression ("" for a counting loop)
	bounds string       // "0..len(S)" | text
	count  string       // normalised number of iterations: "len(S)" or ""
	via    string
}

type walker struct {
	p         *Pkg
	all       map[string]*Pkg
	label     string
	fd        *ast.FuncDecl
	vars      map[types.Object]*Node
	guards    []string
	loops     []loopCtx
	facts     []Fact
	nret      int
	via       string // "goroutine_" inside a go statement / "closure_" inside a called closure
	labels    map[*types.Func]string
	log       []undo
	inClosure bool
	retGuards []string
}

func (w *walker) gs() []string { return append([]string{}, w.guards...) }

func (w *walker) addFill(n *Node, f *Fill) {
	f.Guards = w.gs()
	n.Fills = append(n.Fills, f)
	w.log = append(w.log, undo{node: n, fill: f})
}

func (w *walker) setField(n *Node, k string, v *Node) {
	if n.Fields == nil {
		n.Fields = map[string]*Node{}
	}
	prev, had := n.Fields[k]
	if !had {
		n.Order = append(n.Order, k)
	}
	n.Fields[k] = v
	w.log = append(w.log, undo{node: n, field: k, prev: prev, had: had})
}

func (w *walker) rollback(mark int) {
	for i := len(w.log) - 1; i >= mark; i-- {
		u := w.log[i]
		if u.fill != nil {
			for j, f := range u.node.Fills {
				if f == u.fill {
					u.node.Fills = append(u.node.Fills[:j:j], u.node.Fills[j+1:]...)
					break
				}
			}
		} else if u.had {
			u.node.Fields[u.field] = u.prev
		} else {
			delete(u.node.Fields, u.field)
		}
	}
	w.log = w.log[:mark]
}

func terminates(list []ast.Stmt) bool {
	if len(list) == 0 {
		return false
	}
	_, ok := list[len(list)-1].(*ast.ReturnStmt)
	return ok
}

// effGuard: the conditions of gs from position `from` on that are not implied by the return being described
func (w *walker) effGuard(gs []string, from int) string {
	var out []string
	for i, g := range gs {
		if i < from {
			continue
		}
		implied := false
		for _, r := range w.retGuards {
			if r == g {
				implied = true
			}
		}
		if !implied {
			out = append(out, g)
		}
	}
	return strings.Join(out, "&&")
}

func (w *walker) die(pos token.Pos, format string, a ...interface{}) {
	fatal("%s (%s): %s", at(pos), w.label, fmt.Sprintf(format, a...))
}

func (w *walker) guard() string { return strings.Join(w.guards, "&&") }

// hasRefs: does a value of this type hold a pointer, slice, map, channel, function or interface?
func hasRefs(t types.Type, seen map[types.Type]bool) bool {
	if seen[t] {
		return false
	}
	seen[t] = true
	switch u := t.Underlying().(type) {
	case *types.Basic:
		return u.Kind() == types.UnsafePointer
	case *types.Struct:
		for i := 0; i < u.NumFields(); i++ {
			if hasRefs(u.Field(i).Type(), seen) {
				return true
			}
		}
		return false
	case *types.Array:
		return hasRefs(u.Elem(), seen)
	}
	return true
}

func (w *walker) typeOf(e ast.Expr) types.Type {
	tv, ok := w.p.Info.Types[e]
	if !ok || tv.Type == nil {
		w.die(e.Pos(), "no type for %s", text(e))
	}
	return tv.Type
}

func (w *walker) obj(id *ast.Ident) types.Object {
	if o := w.p.Info.Defs[id]; o != nil {
		return o
	}
	return w.p.Info.Uses[id]
}

// funcDeclOf: the declaration of a function of the analysed packages
func (w *walker) funcDeclOf(fn *types.Func) (*Pkg, *ast.FuncDecl) {
	for _, p := range w.all {
		if p.Types != fn.Pkg() {
			continue
		}
		for _, f := range p.Files {
			for _, d := range f.Decls {
				if fd, ok := d.(*ast.FuncDecl); ok && p.Info.Defs[fd.Name] == types.Object(fn) {
					return p, fd
				}
			}
		}
	}
	return nil, nil
}

// normLen: `X.Len()` / `X.RecordLen()` → `len(Y)` when the method's body is `return len(recv[.field])` or a chain of such
func (w *walker) normLen(e ast.Expr) string {
	if c, ok := e.(*ast.CallExpr); ok && len(c.Args) == 0 {
		if sel, ok := c.Fun.(*ast.SelectorExpr); ok {
			if fn, ok := w.p.Info.Uses[sel.Sel].(*types.Func); ok {
				if inner, ok := w.lenBody(fn, 0); ok {
					return "len(" + strings.Replace(inner, "\x00", text(sel.X), 1) + ")"
				}
			}
		}
	}
	return text(e)
}

// lenBody: the method returns len(<recv><suffix>): the suffix with a NUL standing for the receiver
func (w *walker) lenBody(fn *types.Func, depth int) (string, bool) {
	p, fd := w.funcDeclOf(fn)
	if fd == nil || fd.Recv == nil || len(fd.Recv.List[0].Names) != 1 || fd.Body == nil || len(fd.Body.List) != 1 || depth > 3 {
		return "", false
	}
	r, ok := fd.Body.List[0].(*ast.ReturnStmt)
	if !ok || len(r.Results) != 1 {
		return "", false
	}
	recv := fd.Recv.List[0].Names[0].Name
	c, ok := r.Results[0].(*ast.CallExpr)
	if !ok {
		return "", false
	}
	if id, ok := c.Fun.(*ast.Ident); ok && id.Name == "len" && len(c.Args) == 1 {
		t := text(c.Args[0])
		if t == recv {
			return "\x00", true
		}
		if strings.HasPrefix(t, recv+".") {
			return "\x00" + t[len(recv):], true
		}
		return "", false
	}
	if sel, ok := c.Fun.(*ast.SelectorExpr); ok && len(c.Args) == 0 {
		if f2, ok := p.Info.Uses[sel.Sel].(*types.Func); ok {
			if inner, ok := w.lenBody(f2, depth+1); ok {
				t := text(sel.X)
				if t == recv {
					return inner, true
				}
				if strings.HasPrefix(t, recv+".") {
					return strings.Replace(inner, "\x00", "\x00"+t[len(recv):], 1), true
				}
			}
		}
	}
	return "", false
}

func funcLabel(fn *types.Func) string {
	if sig, ok := fn.Type().(*types.Signature); ok && sig.Recv() != nil {
		t := sig.Recv().Type()
		if pt, ok := t.(*types.Pointer); ok {
			t = pt.Elem()
		}
		if nt, ok := t.(*types.Named); ok {
			return nt.Obj().Name() + "." + fn.Name()
		}
	}
	return fn.Name()
}

// eval: the node an expression evaluates to
func (w *walker) eval(e ast.Expr) *Node {
	n := w.eval0(e)
	if n.Guards == nil && n.Depth == 0 {
		if _, isVar := w.isVarNode(n); !isVar {
			n.Guards, n.Depth = w.gs(), len(w.guards)
		}
	}
	return n
}

func (w *walker) isVarNode(n *Node) (types.Object, bool) {
	for o, v := range w.vars {
		if v == n {
			return o, true
		}
	}
	return nil, false
}

func (w *walker) eval0(e ast.Expr) *Node {
	switch x := e.(type) {
	case *ast.ParenExpr:
		return w.eval(x.X)
	case *ast.Ident:
		if x.Name == "nil" {
			return &Node{How: How{"nil", ""}, Pos: x.Pos()}
		}
		if o := w.obj(x); o != nil {
			if n, ok := w.vars[o]; ok {
				return n
			}
		}
	case *ast.UnaryExpr:
		if x.Op == token.AND {
			if cl, ok := x.X.(*ast.CompositeLit); ok {
				n := w.eval(cl)
				n.How = How{"fresh", "&" + n.How.Text}
				return n
			}
		}
	case *ast.CompositeLit:
		t := w.typeOf(x)
		n := &Node{How: How{"fresh", "literal " + types.TypeString(t, func(*types.Package) string { return "" })}, Pos: x.Pos(), Fields: map[string]*Node{}}
		switch t.Underlying().(type) {
		case *types.Struct:
			for _, el := range x.Elts {
				kv, ok := el.(*ast.KeyValueExpr)
				if !ok {
					w.die(el.Pos(), "struct literal without field names")
				}
				k := kv.Key.(*ast.Ident).Name
				n.Fields[k] = w.eval(kv.Value)
				n.Order = append(n.Order, k)
			}
		case *types.Slice:
			for _, el := range x.Elts {
				n.Fills = append(n.Fills, &Fill{Via: "literal", Bounds: "all", Whole: true, Elem: w.eval(el), Pos: el.Pos()})
			}
			n.LenText = fmt.Sprint(len(x.Elts))
		default:
			w.die(x.Pos(), "composite literal of %s", t)
		}
		return n
	case *ast.CallExpr:
		if id, ok := x.Fun.(*ast.Ident); ok {
			if _, isBuiltin := w.p.Info.Uses[id].(*types.Builtin); isBuiltin {
				switch id.Name {
				case "make":
					n := &Node{How: How{"fresh", text(x)}, Pos: x.Pos(), Fields: map[string]*Node{}}
					if len(x.Args) >= 2 {
						n.LenText = w.normLen(x.Args[1])
					}
					return n
				case "new":
					return &Node{How: How{"fresh", text(x)}, Pos: x.Pos(), Fields: map[string]*Node{}}
				}
			}
		}
		for _, a := range x.Args {
			if _, ok := a.(*ast.FuncLit); ok {
				w.die(a.Pos(), "a function literal is passed to %s: its body would be analysed nowhere", text(x.Fun))
			}
		}
		var fn *types.Func
		switch f := x.Fun.(type) {
		case *ast.Ident:
			fn, _ = w.p.Info.Uses[f].(*types.Func)
		case *ast.SelectorExpr:
			fn, _ = w.p.Info.Uses[f.Sel].(*types.Func)
		}
		if fn != nil {
			if l, ok := w.labels[fn]; ok {
				return &Node{How: How{"call", l}, Pos: x.Pos(), Fields: map[string]*Node{}}
			}
		}
	}
	if !hasRefs(w.typeOf(e), map[types.Type]bool{}) {
		return &Node{How: How{"scalar", ""}, Pos: e.Pos()}
	}
	switch e.(type) {
	case *ast.Ident, *ast.SelectorExpr, *ast.IndexExpr, *ast.StarExpr:
		return &Node{How: How{"same", w.sameText(e)}, Pos: e.Pos(), Fields: map[string]*Node{}}
	}
	return &Node{How: How{"other", text(e)}, Pos: e.Pos(), Fields: map[string]*Node{}}
}

// sameText: the text of an expression of the original, loop variables written as in the source; the value variable of a
// range loop is spelled `S[i]`
func (w *walker) sameText(e ast.Expr) string {
	t := text(e)
	for _, l := range w.loops {
		if l.val != nil && l.src != "" {
			re := regexp.MustCompile(`\b` + regexp.QuoteMeta(l.val.Name()) + `\b`)
			idx := "_"
			if l.idx != nil {
				idx = l.idx.Name()
			}
			t = re.ReplaceAllString(t, l.src+"["+idx+"]")
		}
	}
	return t
}

// place resolves an assignable expression rooted at a local variable to the node it denotes, creating implied nodes for
// parts that were not described yet.  ok == false: not rooted at a tracked local variable.
func (w *walker) place(e ast.Expr, create bool) (n *Node, fill *Fill, ok bool) {
	switch x := e.(type) {
	case *ast.ParenExpr:
		return w.place(x.X, create)
	case *ast.Ident:
		if o := w.obj(x); o != nil {
			if n, ok := w.vars[o]; ok {
				return n, nil, true
			}
		}
		return nil, nil, false
	case *ast.SelectorExpr:
		base, _, ok := w.place(x.X, create)
		if !ok {
			return nil, nil, false
		}
		if base.Fields == nil {
			base.Fields = map[string]*Node{}
		}
		f, has := base.Fields[x.Sel.Name]
		if !has {
			if !create {
				return nil, nil, false
			}
			f = &Node{Implied: true, Pos: x.Pos(), Fields: map[string]*Node{}, LenText: "len(" + text(x) + ")", Guards: base.Guards, Depth: base.Depth}
			w.setField(base, x.Sel.Name, f)
		}
		return f, nil, true
	case *ast.IndexExpr:
		base, _, ok := w.place(x.X, create)
		if !ok {
			return nil, nil, false
		}
		// the element the CURRENT iteration wrote: the last fill of this node made with the same index text
		it := text(x.Index)
		for i := len(base.Fills) - 1; i >= 0; i-- {
			if base.Fills[i].Bounds != "" && base.Fills[i].idxText == it {
				return base.Fills[i].Elem, base.Fills[i], true
			}
		}
		if !create {
			return nil, nil, false
		}
		f := w.newFill(x.Index, x.Pos())
		f.Elem = &Node{Implied: true, Pos: x.Pos(), Fields: map[string]*Node{}, Guards: base.Guards, Depth: base.Depth}
		f.Whole = f.count != "" && base.LenText != "" && f.count == base.LenText
		w.addFill(base, f)
		return f.Elem, f, true
	}
	return nil, nil, false
}

// newFill: a fill of the element with this index expression, in the current loop context
func (w *walker) newFill(index ast.Expr, pos token.Pos) *Fill {
	f := &Fill{Pos: pos, idxText: text(index)}
	f.Via, f.Bounds = w.via+"index", text(index)
	if id, ok := index.(*ast.Ident); ok {
		for i := len(w.loops) - 1; i >= 0; i-- {
			if l := w.loops[i]; l.idx != nil && w.obj(id) == l.idx {
				f.Via, f.Bounds, f.count = l.via, l.bounds, l.count
				break
			}
		}
	}
	return f
}

func (w *walker) stmts(list []ast.Stmt) {
	for _, s := range list {
		w.stmt(s)
	}
}

func (w *walker) bind(id *ast.Ident, n *Node, define bool) {
	if id.Name == "_" {
		return
	}
	o := w.obj(id)
	if o == nil {
		w.die(id.Pos(), "no object for %s", id.Name)
	}
	prev, had := w.vars[o]
	if !define && had && len(w.guards) > prev.Depth {
		// a conditional re-assignment of a variable: allowed when the variable was nil before (it is nil otherwise)
		if prev.How.Kind != "nil" {
			w.die(id.Pos(), "conditional re-assignment of %s, which already holds %s", id.Name, prev.How.Kind)
		}
		n.Guard = strings.Join(w.guards[prev.Depth:], "&&")
		n.Depth = prev.Depth
	}
	w.vars[o] = n
}

func (w *walker) assign(lhs ast.Expr, rhs ast.Expr, define bool) {
	switch l := lhs.(type) {
	case *ast.Ident:
		if l.Name == "_" || !hasRefs(w.typeOf(rhs), map[types.Type]bool{}) || isErrLike(w.typeOf(rhs)) {
			return
		}
		n := w.eval(rhs)
		if _, isVar := w.isVarNode(n); isVar {
			// a struct value is copied by the assignment (all fields stay the original's); pointers and slices alias
			if _, isStruct := w.typeOf(rhs).Underlying().(*types.Struct); isStruct {
				c := *n
				c.Fields = map[string]*Node{}
				for k, v := range n.Fields {
					c.Fields[k] = v
				}
				c.Order = append([]string{}, n.Order...)
				c.Guards, c.Depth = w.gs(), len(w.guards)
				n = &c
			}
		}
		w.bind(l, n, define)
		return
	case *ast.SelectorExpr:
		base, _, ok := w.place(l.X, true)
		if !ok {
			if isErrLike(w.typeOf(lhs)) {
				return
			}
			w.die(lhs.Pos(), "assignment to %s, which is not part of a value built here", text(lhs))
		}
		n := w.eval(rhs)
		if _, isVar := w.isVarNode(n); !isVar || n.Guard == "" {
			if g := strings.Join(w.guards[min(base.Depth, len(w.guards)):], "&&"); g != "" && n.Guard == "" {
				n.Guard = g
			}
		}
		w.setField(base, l.Sel.Name, n)
		return
	case *ast.IndexExpr:
		base, _, ok := w.place(l.X, true)
		if !ok {
			w.die(lhs.Pos(), "assignment to %s, which is not part of a value built here", text(lhs))
		}
		f := w.newFill(l.Index, lhs.Pos())
		f.Elem = w.eval(rhs)
		f.Whole = f.count != "" && base.LenText != "" && f.count == base.LenText
		w.addFill(base, f)
		return
	}
	w.die(lhs.Pos(), "assignment to %s", text(lhs))
}

func isErrLike(t types.Type) bool { return types.TypeString(t, nil) == "error" }

func (w *walker) stmt(s ast.Stmt) {
	switch x := s.(type) {
	case *ast.AssignStmt:
		if len(x.Lhs) == len(x.Rhs) {
			for i := range x.Lhs {
				w.assign(x.Lhs[i], x.Rhs[i], x.Tok == token.DEFINE)
			}
			return
		}
		// v, ok := f(): the results are values of the original / of unknown origin
		for _, l := range x.Lhs {
			id, ok := l.(*ast.Ident)
			if !ok {
				w.die(l.Pos(), "multi-value assignment to %s", text(l))
			}
			if id.Name == "_" {
				continue
			}
			lt := w.obj(id).Type()
			if hasRefs(lt, map[types.Type]bool{}) && !isErrLike(lt) {
				n := &Node{How: How{"same", text(x.Rhs[0])}, Pos: id.Pos(), Fields: map[string]*Node{}, Guards: w.gs(), Depth: len(w.guards)}
				if c, ok := x.Rhs[0].(*ast.CallExpr); ok {
					if sel, ok := c.Fun.(*ast.SelectorExpr); ok {
						if fn, ok := w.p.Info.Uses[sel.Sel].(*types.Func); ok {
							if lb, ok := w.labels[fn]; ok {
								n.How = How{"call", lb}
							}
						}
					}
				}
				w.vars[w.obj(id)] = n
			}
		}
	case *ast.DeclStmt:
		gd := x.Decl.(*ast.GenDecl)
		for _, sp := range gd.Specs {
			vs, ok := sp.(*ast.ValueSpec)
			if !ok {
				continue
			}
			for i, nm := range vs.Names {
				if i < len(vs.Values) {
					if hasRefs(w.p.Info.Defs[nm].Type(), map[types.Type]bool{}) {
						w.bind(nm, w.eval(vs.Values[i]), true)
					}
				} else if hasRefs(w.p.Info.Defs[nm].Type(), map[types.Type]bool{}) {
					w.bind(nm, &Node{How: How{"nil", ""}, Pos: nm.Pos(), Guards: w.gs(), Depth: len(w.guards)}, true)
				}
			}
		}
	case *ast.IfStmt:
		if x.Init != nil {
			w.stmt(x.Init)
		}
		c := text(x.Cond)
		mark := len(w.log)
		w.guards = append(w.guards, c)
		w.stmts(x.Body.List)
		w.guards = w.guards[:len(w.guards)-1]
		if terminates(x.Body.List) {
			w.rollback(mark) // what the body did to values made outside is not in force behind it
		}
		if x.Else != nil {
			mark = len(w.log)
			w.guards = append(w.guards, "!("+c+")")
			switch e := x.Else.(type) {
			case *ast.BlockStmt:
				w.stmts(e.List)
				if terminates(e.List) {
					w.rollback(mark)
				}
			default:
				w.stmt(e)
			}
			w.guards = w.guards[:len(w.guards)-1]
		}
	case *ast.BlockStmt:
		w.stmts(x.List)
	case *ast.RangeStmt:
		l := loopCtx{src: text(x.X), via: w.via + "loop"}
		l.bounds, l.count = "0..len("+l.src+")", "len("+l.src+")"
		if id, ok := x.Key.(*ast.Ident); ok && id.Name != "_" {
			l.idx = w.obj(id)
		}
		if id, ok := x.Value.(*ast.Ident); ok && id.Name != "_" {
			l.val = w.obj(id)
		}
		w.loops = append(w.loops, l)
		w.stmts(x.Body.List)
		w.loops = w.loops[:len(w.loops)-1]
	case *ast.ForStmt:
		l := loopCtx{via: w.via + "loop", bounds: "?"}
		// for i := A; i < B; i++
		if as, ok := x.Init.(*ast.AssignStmt); ok && len(as.Lhs) == 1 && as.Tok == token.DEFINE {
			if id, ok := as.Lhs[0].(*ast.Ident); ok {
				if be, ok := x.Cond.(*ast.BinaryExpr); ok && be.Op == token.LSS && text(be.X) == id.Name {
					if inc, ok := x.Post.(*ast.IncDecStmt); ok && inc.Tok == token.INC && text(inc.X) == id.Name {
						l.idx = w.obj(id)
						l.bounds = text(as.Rhs[0]) + ".." + w.normLen(be.Y)
						if text(as.Rhs[0]) == "0" {
							l.count = w.normLen(be.Y)
						}
					}
				}
			}
		}
		w.loops = append(w.loops, l)
		w.stmts(x.Body.List)
		w.loops = w.loops[:len(w.loops)-1]
	case *ast.ReturnStmt:
		w.ret(x)
	case *ast.ExprStmt:
		c, ok := x.X.(*ast.CallExpr)
		if !ok {
			w.die(x.Pos(), "expression statement %s", text(x.X))
		}
		w.callStmt(c)
	case *ast.GoStmt:
		fl, ok := x.Call.Fun.(*ast.FuncLit)
		if !ok {
			w.die(x.Pos(), "go statement without a function literal")
		}
		w.closure(fl, x.Call.Args, "goroutine_")
	case *ast.DeferStmt:
		if !w.harmlessCall(x.Call) {
			w.die(x.Pos(), "deferred call %s", text(x.Call))
		}
	case *ast.IncDecStmt, *ast.EmptyStmt, *ast.BranchStmt:
	default:
		w.die(s.Pos(), "statement kind %T is outside the translated subset", s)
	}
}

// closure: the body of a function literal that is run here (go statement, call on the spot, task-manager callback)
func (w *walker) closure(fl *ast.FuncLit, args []ast.Expr, via string) {
	i := 0
	for _, f := range fl.Type.Params.List {
		for _, nm := range f.Names {
			if i < len(args) {
				if hasRefs(w.p.Info.Defs[nm].Type(), map[types.Type]bool{}) {
					w.vars[w.p.Info.Defs[nm]] = w.eval(args[i])
				}
			}
			i++
		}
	}
	saved := w.via
	w.via = saved + via
	inRet := w.inClosure
	w.inClosure = true
	w.stmts(fl.Body.List)
	w.inClosure = inRet
	w.via = saved
}

func (w *walker) harmlessCall(c *ast.CallExpr) bool {
	if sel, ok := c.Fun.(*ast.SelectorExpr); ok {
		if tv, ok := w.p.Info.Types[sel.X]; ok {
			ts := types.TypeString(tv.Type, nil)
			if strings.HasSuffix(ts, "sync.WaitGroup") || strings.HasSuffix(ts, "sync.Mutex") {
				return true
			}
		}
	}
	return false
}

func (w *walker) callStmt(c *ast.CallExpr) {
	if id, ok := c.Fun.(*ast.Ident); ok {
		if _, isBuiltin := w.p.Info.Uses[id].(*types.Builtin); isBuiltin && id.Name == "copy" && len(c.Args) == 2 {
			w.builtinCopy(c)
			return
		}
	}
	if fl, ok := c.Fun.(*ast.FuncLit); ok {
		w.closure(fl, c.Args, "closure_")
		return
	}
	if w.harmlessCall(c) {
		return
	}
	w.die(c.Pos(), "call statement %s has no rule", text(c))
}

// taskLoop: `if err := NewGoroutineTaskManager(N, …).Run(ctx, func(index int) error {…}); err != nil {…}` — the callback runs
// for every index 0..N
func (w *walker) taskLoop(c *ast.CallExpr) bool {
	sel, ok := c.Fun.(*ast.SelectorExpr)
	if !ok || sel.Sel.Name != "Run" || len(c.Args) != 2 {
		return false
	}
	mk, ok := sel.X.(*ast.CallExpr)
	if !ok || text(mk.Fun) != "NewGoroutineTaskManager" || len(mk.Args) < 1 {
		return false
	}
	fl, ok := c.Args[1].(*ast.FuncLit)
	if !ok || len(fl.Type.Params.List) != 1 || len(fl.Type.Params.List[0].Names) != 1 {
		return false
	}
	n := w.normLen(mk.Args[0])
	l := loopCtx{via: w.via + "task_loop", bounds: "0.." + n, count: n, idx: w.p.Info.Defs[fl.Type.Params.List[0].Names[0]]}
	w.loops = append(w.loops, l)
	inRet := w.inClosure
	w.inClosure = true
	w.stmts(fl.Body.List)
	w.inClosure = inRet
	w.loops = w.loops[:len(w.loops)-1]
	return true
}

func (w *walker) builtinCopy(c *ast.CallExpr) {
	dstE, srcE := c.Args[0], c.Args[1]
	sliced := false
	if se, ok := dstE.(*ast.SliceExpr); ok {
		dstE, sliced = se.X, true
	}
	srcBase := srcE
	if se, ok := srcE.(*ast.SliceExpr); ok {
		srcBase, sliced = se.X, true
	}
	dst, _, ok := w.place(dstE, true)
	if !ok {
		w.die(c.Pos(), "copy() into %s, which is not part of a value built here", text(dstE))
	}
	f := &Fill{Via: w.via + "builtin_copy", Bounds: text(c.Args[0]) + "<-" + text(c.Args[1]), Pos: c.Pos()}
	st, ok := w.typeOf(srcBase).Underlying().(*types.Slice)
	if !ok {
		w.die(c.Pos(), "copy() from a %s", w.typeOf(srcBase))
	}
	if hasRefs(st.Elem(), map[types.Type]bool{}) {
		f.Elem = &Node{How: How{"same", w.sameText(srcBase) + "[*]"}, Pos: c.Pos()}
	} else {
		f.Elem = &Node{How: How{"scalar", ""}, Pos: c.Pos()}
	}
	f.Whole = !sliced && dst.LenText != "" && dst.LenText == "len("+text(srcBase)+")"
	w.addFill(dst, f)
}

func (w *walker) ret(r *ast.ReturnStmt) {
	if w.inClosure {
		return // the return of a callback, not of the function
	}
	w.nret++
	var n *Node
	switch {
	case len(r.Results) == 0:
		// named results
		res := w.fd.Type.Results
		if res == nil || len(res.List) == 0 || len(res.List[0].Names) == 0 {
			w.die(r.Pos(), "bare return without named results")
		}
		o := w.p.Info.Defs[res.List[0].Names[0]]
		if v, ok := w.vars[o]; ok {
			n = v
		} else {
			n = &Node{How: How{"other", "named result " + o.Name()}, Pos: r.Pos()}
		}
	default:
		n = w.eval(r.Results[0])
	}
	w.retGuards = w.gs()
	w.flatten(n, w.nret, w.guard(), nil, "", nil, 0, "")
}

// canonical guard: `<source of this field> != nil` → "src_nonnil" (the field stays nil otherwise)
func canonGuard(g, srcText string) string {
	if g != "" && srcText != "" && g == srcText+"!=nil" {
		return "src_nonnil"
	}
	return g
}

func (w *walker) flatten(n *Node, ret int, cond string, path []string, srcText string, fill *Fill, baseDepth int, baseGuard string) {
	if !n.Implied {
		g := n.Guard
		if g != "" {
			// (conditions the return itself stands under are dropped)
			var keep []string
			for _, part := range strings.Split(g, "&&") {
				implied := false
				for _, r := range w.retGuards {
					if r == part {
						implied = true
					}
				}
				if !implied {
					keep = append(keep, part)
				}
			}
			g = strings.Join(keep, "&&")
		}
		f := Fact{Fn: w.label, Site: at(n.Pos), Ret: ret, Cond: cond, Path: path, How: n.How, Guard: canonGuard(g, srcText)}
		if fill != nil {
			f.Via, f.Whole, f.Bounds, f.Site = fill.Via, fill.Whole, fill.Bounds, at(fill.Pos)
			// (a condition the container itself stands under says nothing new about its elements)
			var keep []string
			for _, part := range strings.Split(w.effGuard(fill.Guards, baseDepth), "&&") {
				if part != "" && !strings.Contains("&&"+baseGuard+"&&", "&&"+part+"&&") {
					keep = append(keep, part)
				}
			}
			if fg := strings.Join(keep, "&&"); fg != "" && f.Guard == "" {
				f.Guard = canonGuard(fg, srcText)
			}
		}
		w.facts = append(w.facts, f)
	} else if fill != nil {
		// an element that is only modified below (no fact of its own): the fill is still stated, as "unchanged here"
	}
	// the source expression this level was copied from (for the canonical guard of the levels below)
	base := srcText
	if n.How.Kind == "same" {
		base = n.How.Text
	}
	keys := append([]string{}, n.Order...)
	sort.Strings(keys)
	seen := map[string]bool{}
	for _, k := range keys {
		if seen[k] || n.Fields[k] == nil {
			continue
		}
		seen[k] = true
		fs := ""
		if base != "" {
			fs = base + "." + k
		}
		w.flatten(n.Fields[k], ret, cond, append(append([]string{}, path...), "."+k), fs, nil, n.Depth, n.Guard)
	}
	for _, fl := range n.Fills {
		es := ""
		if base != "" {
			es = base + "[*]"
		}
		w.flatten(fl.Elem, ret, cond, append(append([]string{}, path...), "[*]"), es, fl, n.Depth, n.Guard)
	}
}

func analyse(all map[string]*Pkg, p *Pkg, fd *ast.FuncDecl, label string, labels map[*types.Func]string) []Fact {
	w := &walker{p: p, all: all, label: label, fd: fd, vars: map[types.Object]*Node{}, labels: labels}
	// the receiver and the parameters are the ORIGINAL: everything reached through them is `same`
	// (a receiver passed by value is a struct copy whose fields are the original's: it may be modified and returned)
	if fd.Recv != nil && len(fd.Recv.List[0].Names) == 1 {
		nm := fd.Recv.List[0].Names[0]
		if _, isPtr := p.Info.Defs[nm].Type().(*types.Pointer); !isPtr {
			if _, isStruct := p.Info.Defs[nm].Type().Underlying().(*types.Struct); isStruct {
				w.vars[p.Info.Defs[nm]] = &Node{How: How{"same", nm.Name}, Pos: nm.Pos(), Fields: map[string]*Node{}, Guards: []string{}}
			}
		}
	}
	w.walkBody(fd.Body.List)
	if w.nret == 0 {
		w.die(fd.Pos(), "no return statement found")
	}
	return w.facts
}

// walkBody: statements at function level; `if err := ….Run(ctx, func…)` task loops are recognised here
func (w *walker) walkBody(list []ast.Stmt) {
	for _, s := range list {
		if is, ok := s.(*ast.IfStmt); ok && is.Init != nil {
			if as, ok := is.Init.(*ast.AssignStmt); ok && len(as.Rhs) == 1 {
				if c, ok := as.Rhs[0].(*ast.CallExpr); ok && w.taskLoop(c) {
					w.guards = append(w.guards, text(is.Cond))
					w.stmts(is.Body.List)
					w.guards = w.guards[:len(w.guards)-1]
					continue
				}
			}
		}
		if is, ok := s.(*ast.IfStmt); ok {
			// descend so that task loops nested in conditions are found as well
			if is.Init != nil {
				w.stmt(is.Init)
			}
			c := text(is.Cond)
			mark := len(w.log)
			w.guards = append(w.guards, c)
			w.walkBody(is.Body.List)
			w.guards = w.guards[:len(w.guards)-1]
			if terminates(is.Body.List) {
				w.rollback(mark)
			}
			if is.Else != nil {
				mark = len(w.log)
				w.guards = append(w.guards, "!("+c+")")
				switch e := is.Else.(type) {
				case *ast.BlockStmt:
					w.walkBody(e.List)
					if terminates(e.List) {
						w.rollback(mark)
					}
				default:
					w.walkBody([]ast.Stmt{e})
				}
				w.guards = w.guards[:len(w.guards)-1]
			}
			continue
		}
		w.stmt(s)
	}
}

var nameRe = regexp.MustCompile(`^(Copy|Clone|copy[A-Z])`)

// required: functions that must exist and be described, whatever their names
var required = []string{
	"lib/query:ViewMap.Get", "lib/query:ViewMap.GetWithInternalId", "lib/query:View.Copy", "lib/query:RecordSet.Copy",
	"lib/query:Record.Copy", "lib/query:Header.Copy", "lib/query:Header.Merge", "lib/query:NewCell", "lib/query:NewReferenceRecord",
	"lib/query:ReferenceRecord.copyForChildScope", "lib/query:FieldIndexCache.Copy",
	"lib/query:ReferenceScope.GetTemporaryTable", "lib/query:ReferenceScope.GetTemporaryTableWithInternalId",
	"lib/option:ExportOptions.Copy", "lib/option:ImportOptions.Copy",
}

// refMode (`go run . ref`): print lean/Csvq/Ref/CopyFacts.lean — the same facts with the line numbers left out (the file is
// reviewed by hand and committed; the check never regenerates it)
var refMode bool

func main() {
	refMode = len(os.Args) > 1 && os.Args[1] == "ref"
	dirs := []string{"lib/query", "lib/value", "lib/option"}
	all := loadPkgs(dirs...)
	type target struct {
		p     *Pkg
		fd    *ast.FuncDecl
		label string
	}
	var targets []target
	labels := map[*types.Func]string{}
	need := map[string]bool{}
	for _, r := range required {
		need[r] = true
	}
	for _, d := range dirs {
		p := all[d]
		for _, f := range p.Files {
			for _, decl := range f.Decls {
				fd, ok := decl.(*ast.FuncDecl)
				if !ok || fd.Body == nil {
					continue
				}
				fn, _ := p.Info.Defs[fd.Name].(*types.Func)
				if fn == nil {
					continue
				}
				l := funcLabel(fn)
				if nameRe.MatchString(fd.Name.Name) || need[d+":"+l] {
					if fd.Type.Results == nil || len(fd.Type.Results.List) == 0 {
						continue
					}
					delete(need, d+":"+l)
					targets = append(targets, target{p, fd, l})
					labels[fn] = l
				}
			}
		}
	}
	for r := range need {
		fatal("required function %s not found", r)
	}
	sort.Slice(targets, func(i, j int) bool { return targets[i].label < targets[j].label })
	var facts []Fact
	for _, t := range targets {
		facts = append(facts, analyse(all, t.p, t.fd, t.label, labels)...)
	}
	// struct copies of a FileInfo (`x := *fi`): which of its reference-typed fields the copy shares
	facts = append(facts, fileInfoCopies(all["lib/query"])...)

	var o strings.Builder
	ns := "Gen"
	if refMode {
		ns = "Ref"
		o.WriteString("-- REVIEWED copy of the output of /verif/extract/copyfacts (`go run . ref`: line numbers left out).\n-- How deep every Copy of lib/query / lib/option is, as reviewed: see Props/C08.lean, gen_copy_facts_eq_ref.\n")
	} else {
		o.WriteString("-- GENERATED by /verif/extract/copyfacts from lib/query, lib/value, lib/option — do not edit.\n")
	}
	o.WriteString("import Csvq.Model.CopyDepth\n\nnamespace Csvq." + ns + "\nopen Csvq.CopyDepth\n\n")
	o.WriteString("/-- how every level of the value returned by every copy function / accessor / constructor is obtained -/\ndef copyFacts : List Fact :=\n  [")
	for i, f := range facts {
		if i > 0 {
			o.WriteString(",\n   ")
		}
		segs := make([]string, len(f.Path))
		for k, sg := range f.Path {
			segs[k] = leanStr(sg)
		}
		file := leanStr(strings.SplitN(f.Site, ":", 2)[0])
		site := leanStr(f.Site)
		if refMode {
			site = file
		}
		o.WriteString(fmt.Sprintf("⟨%s, %s, %s, %d, %s, [%s], %s, %s, %v, %s, %s⟩", leanStr(f.Fn), file, site, f.Ret, leanStr(f.Cond), strings.Join(segs, ", "),
			f.How.lean(), leanStr(f.Via), f.Whole, leanStr(f.Bounds), leanStr(f.Guard)))
	}
	o.WriteString("]\n\n")
	var names []string
	for _, t := range targets {
		names = append(names, leanStr(t.label))
	}
	o.WriteString("/-- every write into a part of a view that the data-changing functions (and the methods of View / Header / RecordSet /\n    Record they call) perform: (function, file:line, target, level written) -/\ndef dmlWrites : List Write :=\n  [")
	writes, closure := dmlWrites(all["lib/query"])
	for i, wr := range writes {
		if i > 0 {
			o.WriteString(",\n   ")
		}
		file := strings.SplitN(wr.Site, ":", 2)[0]
		site := wr.Site
		if refMode {
			site = file
		}
		o.WriteString(fmt.Sprintf("⟨%s, %s, %s, %s, %s⟩", leanStr(wr.Fn), leanStr(file), leanStr(site), leanStr(wr.Target), leanStr(wr.Level)))
	}
	o.WriteString("]\n\n")
	// FileInfo: struct copies (`x := *fi`) anywhere in lib/query — level "dml" when the function is a data-changing function or a
	// view method they call — and the assignments that install a FileInfo on a view inside those functions
	emit := func(name, doc string, ws []Write) {
		o.WriteString("/-- " + doc + " -/\ndef " + name + " : List Write :=\n  [")
		for i, wr := range ws {
			if i > 0 {
				o.WriteString(",\n   ")
			}
			file := strings.SplitN(wr.Site, ":", 2)[0]
			site := wr.Site
			if refMode {
				site = file
			}
			o.WriteString(fmt.Sprintf("⟨%s, %s, %s, %s, %s⟩", leanStr(wr.Fn), leanStr(file), leanStr(site), leanStr(wr.Target), leanStr(wr.Level)))
		}
		o.WriteString("]\n\n")
	}
	emit("fileInfoCopies", "every struct copy of a FileInfo (`x := *fi`) in lib/query: (function, site, the expression copied, `dml` = inside a data-changing function or a view method it calls / `other`)", fileInfoCopySites(all["lib/query"], closure))
	var installs []Write
	for _, wr := range writes {
		if strings.HasSuffix(wr.Target, ".FileInfo") && wr.Level == "viewStruct" {
			installs = append(installs, wr)
		}
	}
	emit("fileInfoInstalls", "every assignment of the data-changing functions (and the view methods they call) that gives a view ANOTHER FileInfo", installs)
	o.WriteString("/-- the functions that were described -/\ndef copyFunctions : List String :=\n  [" + strings.Join(names, ", ") + "]\n\n")
	o.WriteString("end Csvq." + ns + "\n")
	fmt.Print(o.String())
}

// fileInfoCopies: every `x := *E` with E of type *FileInfo in lib/query: a struct copy; its reference-typed fields are
// the original's
func fileInfoCopies(p *Pkg) []Fact {
	var out []Fact
	for _, f := range p.Files {
		for _, d := range f.Decls {
			fd, ok := d.(*ast.FuncDecl)
			if !ok || fd.Body == nil {
				continue
			}
			ast.Inspect(fd.Body, func(n ast.Node) bool {
				se, ok := n.(*ast.StarExpr)
				if !ok {
					return true
				}
				tv, ok := p.Info.Types[se]
				if !ok || !tv.IsValue() {
					return true
				}
				nt, ok := tv.Type.(*types.Named)
				if !ok || nt.Obj().Name() != "FileInfo" {
					return true
				}
				// only reads of the whole struct (`x := *fi`), not `*fi = …` targets: an assignment target is not in Types as a value use we care about
				label := fd.Name.Name + ":*" + text(se.X)
				out = append(out, Fact{Fn: label, Site: at(se.Pos()), Ret: 1, How: How{"fresh", "struct copy of FileInfo"}})
				st := nt.Underlying().(*types.Struct)
				for i := 0; i < st.NumFields(); i++ {
					if hasRefs(st.Field(i).Type(), map[types.Type]bool{}) {
						out = append(out, Fact{Fn: label, Site: at(se.Pos()), Ret: 1, Path: []string{"." + st.Field(i).Name()}, How: How{"same", text(se.X) + "." + st.Field(i).Name()}})
					}
				}
				return true
			})
		}
	}
	return out
}

// fileInfoCopySites: the struct copies of a FileInfo with their enclosing function
func fileInfoCopySites(p *Pkg, closure map[string]bool) []Write {
	var out []Write
	for _, f := range p.Files {
		for _, d := range f.Decls {
			fd, ok := d.(*ast.FuncDecl)
			if !ok || fd.Body == nil {
				continue
			}
			fn, _ := p.Info.Defs[fd.Name].(*types.Func)
			if fn == nil {
				continue
			}
			label := funcLabel(fn)
			ast.Inspect(fd.Body, func(n ast.Node) bool {
				se, ok := n.(*ast.StarExpr)
				if !ok {
					return true
				}
				tv, ok := p.Info.Types[se]
				if !ok || !tv.IsValue() {
					return true
				}
				if nt, ok := tv.Type.(*types.Named); !ok || nt.Obj().Name() != "FileInfo" {
					return true
				}
				lv := "other"
				if closure[label] {
					lv = "dml"
				}
				out = append(out, Write{label, at(se.Pos()), "*" + text(se.X), lv})
				return true
			})
		}
	}
	sort.Slice(out, func(i, j int) bool { return out[i].Fn+out[i].Site < out[j].Fn+out[j].Site })
	return out
}
