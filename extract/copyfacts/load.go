package main

import (
	"bytes"
	"fmt"
	"go/ast"
	"go/build"
	"go/importer"
	"go/parser"
	"go/token"
	"go/types"
	"io"
	"os"
	"os/exec"
	"path/filepath"
	"sort"
	"strings"
)

// Pkg is one parsed and type-checked package directory of the repository under analysis.
type Pkg struct {
	Files []*ast.File
	Info  *types.Info
	Types *types.Package
	Dir   string
	Path  string
}

var fset = token.NewFileSet()

func fatal(format string, a ...interface{}) {
	fmt.Fprintf(os.Stderr, "copyfacts: "+format+"\n", a...)
	os.Exit(1)
}

func repoRoot() string {
	if r := os.Getenv("VERIF_REPO"); r != "" {
		return r
	}
	return "/repo"
}

const modPath = "github.com/mithrandie/csvq/"

// parseDir: the files a plain `go build` compiles (no tests, build constraints honoured, no `verif` tag)
func parseDir(dir string) []*ast.File {
	full := filepath.Join(repoRoot(), dir)
	pkgs, err := parser.ParseDir(fset, full, func(fi os.FileInfo) bool {
		if strings.HasSuffix(fi.Name(), "_test.go") {
			return false
		}
		ok, err := build.Default.MatchFile(full, fi.Name())
		return err == nil && ok
	}, 0)
	if err != nil {
		fatal("parse %s: %v", dir, err)
	}
	if len(pkgs) != 1 {
		fatal("expected one package in %s, found %d", dir, len(pkgs))
	}
	var files []*ast.File
	for _, ap := range pkgs {
		var names []string
		for fn := range ap.Files {
			names = append(names, fn)
		}
		sort.Strings(names)
		for _, fn := range names {
			files = append(files, ap.Files[fn])
		}
	}
	return files
}

// loadPkgs parses and type-checks the given package directories of the module.  Their imports are read from the
// compiler's export data (`go list -export`, the build cache), which keeps the run under a second on an unchanged tree;
// the analysed packages themselves are always checked from their source.
func loadPkgs(dirs ...string) map[string]*Pkg {
	parsed := map[string][]*ast.File{}
	imports := map[string]bool{}
	for _, d := range dirs {
		fs := parseDir(d)
		parsed[d] = fs
		for _, f := range fs {
			for _, im := range f.Imports {
				imports[strings.Trim(im.Path.Value, "\"")] = true
			}
		}
	}
	var list []string
	for im := range imports {
		list = append(list, im)
	}
	sort.Strings(list)
	cmd := exec.Command("go", append([]string{"list", "-export", "-deps", "-f", "{{.ImportPath}}={{.Export}}"}, list...)...)
	cmd.Dir = repoRoot()
	var stderr bytes.Buffer
	cmd.Stderr = &stderr
	out, err := cmd.Output()
	if err != nil {
		fatal("go list -export: %v\n%s", err, stderr.String())
	}
	export := map[string]string{}
	for _, l := range strings.Split(string(out), "\n") {
		if i := strings.Index(l, "="); i > 0 && len(l) > i+1 {
			export[l[:i]] = l[i+1:]
		}
	}
	lookup := func(path string) (io.ReadCloser, error) {
		f, ok := export[path]
		if !ok {
			return nil, fmt.Errorf("no export data for %s", path)
		}
		return os.Open(f)
	}
	imp := importer.ForCompiler(fset, "gc", lookup)
	res := map[string]*Pkg{}
	for _, d := range dirs {
		p := &Pkg{Dir: d, Path: modPath + d, Files: parsed[d]}
		p.Info = &types.Info{
			Uses:       map[*ast.Ident]types.Object{},
			Defs:       map[*ast.Ident]types.Object{},
			Types:      map[ast.Expr]types.TypeAndValue{},
			Selections: map[*ast.SelectorExpr]*types.Selection{},
		}
		var terrs []string
		conf := types.Config{Importer: imp, Error: func(e error) { terrs = append(terrs, e.Error()) }}
		tp, _ := conf.Check(p.Path, fset, p.Files, p.Info)
		if len(terrs) > 0 {
			fatal("type-checking %s failed:\n%s", d, strings.Join(terrs, "\n"))
		}
		p.Types = tp
		res[d] = p
	}
	return res
}

func at(pos token.Pos) string {
	p := fset.Position(pos)
	return fmt.Sprintf("%s:%d", filepath.Base(p.Filename), p.Line)
}

func text(e ast.Expr) string { return strings.ReplaceAll(types.ExprString(e), " ", "") }

func leanStr(s string) string {
	var b strings.Builder
	b.WriteByte('"')
	for _, r := range s {
		switch {
		case r == '"':
			b.WriteString("\\\"")
		case r == '\\':
			b.WriteString("\\\\")
		case r == '\n':
			b.WriteString("\\n")
		case r == '\t':
			b.WriteString("\\t")
		case r < 0x20 || r == 0x7f:
			fmt.Fprintf(&b, "\\x%02x", r)
		default:
			b.WriteRune(r)
		}
	}
	b.WriteByte('"')
	return b.String()
}
