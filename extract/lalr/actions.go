package main

// `lalr actions` → Csvq/Gen/LalrActions.lean: a typing of the semantic values.
//
// For every production (number, yyR1 nonterminal, right-hand symbol codes as yyChk stores them) the possible dynamic
// types of what its action leaves in `yyVAL.<field of the left-hand side>`:
//
//	a concrete Go type  — the static type of the assigned expression is not an interface (go/types over lib/parser):
//	                      a composite literal, a constructor call, a field of a concrete type, a slice …
//	nil                 — the literal nil
//	copy of $k          — the expression is exactly `yyDollar[k].f` with an interface-typed field f
//	unknown             — any other expression of interface type
//	(not assigned on every path, or no action at all: the value `yyVAL = yyS[yyp+1]` starts with — a copy of $1 when
//	 $1 lives in the same field, unknown otherwise)
//
// every type assertion without `ok` with its operand `yyDollar[k].f`, the concrete types that satisfy it (go/types:
// identical type, or implements the interface) and whether it stands where `yyDollar[k].f == nil` has been excluded;
// every index / slice expression with whether a length test guards it; what the actions that are not plain
// constructions call, and whether the helpers of lib/parser they call contain a panic site themselves.
//
// The least solution of "the types of a symbol ⊇ the types of every production of it" is computed here and shipped
// as a certificate (Lean checks that it is closed under every production and that every assertion is satisfied by
// every type of its operand's symbol); a violated assertion is reported here first, with production and symbol.

import (
	"fmt"
	"go/ast"
	"go/build"
	"go/importer"
	"go/parser"
	"go/token"
	"go/types"
	"os"
	"path/filepath"
	"sort"
	"strings"
)

type typedPkg struct {
	files []*ast.File
	info  *types.Info
	pkg   *types.Package
	main  *ast.File // parser.go
}

func loadTyped(root string) *typedPkg {
	if err := os.Chdir(root); err != nil {
		die("chdir %s: %v", root, err)
	}
	dir := filepath.Join(root, "lib", "parser")
	bp, err := build.Default.ImportDir(dir, 0)
	if err != nil {
		die("go/build %s: %v", dir, err)
	}
	names := append([]string{}, bp.GoFiles...)
	sort.Strings(names)
	tp := &typedPkg{}
	for _, n := range names {
		f, err := parser.ParseFile(fset, filepath.Join(dir, n), nil, 0)
		if err != nil {
			die("parse: %v", err)
		}
		tp.files = append(tp.files, f)
		if n == "parser.go" {
			tp.main = f
		}
	}
	if tp.main == nil {
		die("parser.go is not among the files of package parser")
	}
	tp.info = &types.Info{
		Uses:       map[*ast.Ident]types.Object{},
		Defs:       map[*ast.Ident]types.Object{},
		Types:      map[ast.Expr]types.TypeAndValue{},
		Selections: map[*ast.SelectorExpr]*types.Selection{},
	}
	var terrs []string
	conf := types.Config{Importer: importer.ForCompiler(fset, "source", nil), Error: func(e error) { terrs = append(terrs, e.Error()) }}
	pkg, _ := conf.Check("github.com/mithrandie/csvq/lib/parser", fset, tp.files, tp.info)
	if len(terrs) > 0 {
		die("type-checking lib/parser failed:\n%s", strings.Join(terrs, "\n"))
	}
	tp.pkg = pkg
	return tp
}

func (tp *typedPkg) typeString(t types.Type) string {
	return types.TypeString(t, func(p *types.Package) string {
		if p == tp.pkg {
			return ""
		}
		return p.Name()
	})
}

// ---------- per action ----------

const (
	tagNil     = 0
	tagUnknown = 1
)

type assertSite struct {
	k       int    // operand yyDollar[k]; 0: the operand is something else
	field   string // its field
	target  string
	allowed []int
	guarded bool // stands where yyDollar[k].field == nil is excluded
	text    string
	ttype   types.Type
	nonNil  bool // not an assertion: a method call on the interface value (panics on nil only)
}

type indexSite struct {
	prod    int
	text    string
	guarded bool
	why     string
}

type actionTyping struct {
	prod     *production
	sources  []int // tag ≥ 0, or -k for a copy of $k
	asserts  []assertSite
	okForms  int
	reads    map[[2]string]bool // (k, field)
	callees  []string
	indexing []indexSite
}

type analyzer struct {
	tp       *typedPkg
	g        *grammar
	tags     map[string]int
	tagNames []string
	tagType  map[int]types.Type
}

func (a *analyzer) tag(t types.Type) int {
	s := a.tp.typeString(t)
	if id, ok := a.tags[s]; ok {
		return id
	}
	id := len(a.tagNames)
	a.tags[s] = id
	a.tagNames = append(a.tagNames, s)
	a.tagType[id] = t
	return id
}

// dollar: e = yyDollar[k].field → (k, field, true)
func dollar(e ast.Expr) (int, string, bool) {
	se, ok := e.(*ast.SelectorExpr)
	if !ok {
		return 0, "", false
	}
	ix, ok := se.X.(*ast.IndexExpr)
	if !ok || !isIdent(ix.X, "yyDollar") {
		return 0, "", false
	}
	k, ok := intLit(ix.Index)
	if !ok {
		return 0, "", false
	}
	return k, se.Sel.Name, true
}

func yyvalField(e ast.Expr) (string, bool) {
	se, ok := e.(*ast.SelectorExpr)
	if !ok || !isIdent(se.X, "yyVAL") {
		return "", false
	}
	return se.Sel.Name, true
}

// nilTest: cond is `yyDollar[k].f == nil` / `!= nil` → (k, f, isEq, true)
func nilTest(cond ast.Expr) (int, string, bool, bool) {
	be, ok := cond.(*ast.BinaryExpr)
	if !ok || (be.Op != token.EQL && be.Op != token.NEQ) {
		return 0, "", false, false
	}
	x, y := be.X, be.Y
	if isIdent(x, "nil") {
		x, y = y, x
	}
	if !isIdent(y, "nil") {
		return 0, "", false, false
	}
	k, f, ok := dollar(x)
	if !ok {
		return 0, "", false, false
	}
	return k, f, be.Op == token.EQL, true
}

// lenGuards: what a true condition says about lengths: (text of X, c) meaning len(X) > c
func lenGuards(cond ast.Expr) [][2]string {
	var out [][2]string
	add := func(x ast.Expr, c int) { out = append(out, [2]string{src(x), fmt.Sprint(c)}) }
	var walk func(e ast.Expr)
	walk = func(e ast.Expr) {
		switch v := e.(type) {
		case *ast.ParenExpr:
			walk(v.X)
		case *ast.BinaryExpr:
			if v.Op == token.LAND {
				walk(v.X)
				walk(v.Y)
				return
			}
			lenOf := func(e ast.Expr) ast.Expr {
				if c, ok := e.(*ast.CallExpr); ok && isIdent(c.Fun, "len") && len(c.Args) == 1 {
					return c.Args[0]
				}
				return nil
			}
			if x := lenOf(v.Y); x != nil {
				if c, ok := intLit(v.X); ok {
					switch v.Op {
					case token.LSS: // c < len(x)
						add(x, c)
					case token.LEQ: // c <= len(x)
						add(x, c-1)
					}
				}
			}
			if x := lenOf(v.X); x != nil {
				if c, ok := intLit(v.Y); ok {
					switch v.Op {
					case token.GTR: // len(x) > c
						add(x, c)
					case token.GEQ:
						add(x, c-1)
					}
				}
			}
			// an index expression that has been evaluated in the condition did not panic
			ast.Inspect(v, func(n ast.Node) bool {
				if ix, ok := n.(*ast.IndexExpr); ok {
					if c, ok := intLit(ix.Index); ok {
						add(ix.X, c)
					}
				}
				return true
			})
		}
	}
	walk(cond)
	return out
}

type walkCtx struct {
	nonNil [][2]string // (k, field) known not nil
	lens   [][2]string // (X, c): len(X) > c
}

func (a *analyzer) action(p *production, lhsField string, rhsFields []string, body *ast.BlockStmt) *actionTyping {
	at := &actionTyping{prod: p, reads: map[[2]string]bool{}}
	info := a.tp.info
	srcSet := map[int]bool{}
	calleeSet := map[string]bool{}

	var expr func(e ast.Expr, ctx walkCtx)
	var stmt func(s ast.Stmt, ctx walkCtx) bool // returns: assigns yyVAL.<lhsField> on every path through s

	assignSource := func(e ast.Expr) {
		tv, ok := info.Types[e]
		if !ok {
			die("parser.y:%d (production %d): no type for `%s`", p.line, p.num, src(e))
		}
		if tv.IsNil() {
			srcSet[tagNil] = true
			return
		}
		if !types.IsInterface(tv.Type) {
			srcSet[a.tag(tv.Type)] = true
			return
		}
		if k, f, ok := dollar(e); ok {
			if k < 1 || k > len(rhsFields) {
				die("production %d: $%d out of range", p.num, k)
			}
			_ = f
			srcSet[-k] = true
			return
		}
		srcSet[tagUnknown] = true
	}

	expr = func(e ast.Expr, ctx walkCtx) {
		switch x := e.(type) {
		case nil:
		case *ast.BasicLit, *ast.Ident:
		case *ast.ParenExpr:
			expr(x.X, ctx)
		case *ast.StarExpr:
			expr(x.X, ctx)
		case *ast.UnaryExpr:
			expr(x.X, ctx)
		case *ast.BinaryExpr:
			expr(x.X, ctx)
			if x.Op == token.LAND {
				c2 := ctx
				c2.lens = append(append([][2]string{}, ctx.lens...), lenGuards(x.X)...)
				expr(x.Y, c2)
			} else {
				expr(x.Y, ctx)
			}
		case *ast.KeyValueExpr:
			expr(x.Value, ctx)
		case *ast.CompositeLit:
			for _, el := range x.Elts {
				expr(el, ctx)
			}
		case *ast.SelectorExpr:
			if k, f, ok := dollar(x); ok {
				if k < 1 || k > len(rhsFields) {
					die("production %d: yyDollar[%d] but the production has %d symbols", p.num, k, len(rhsFields))
				}
				at.reads[[2]string{fmt.Sprint(k), f}] = true
				if rhsFields[k-1] != f {
					die("production %d (%s): reads yyDollar[%d].%s but symbol %s lives in field %q", p.num, p.lhs, k, f, p.rhs[k-1], rhsFields[k-1])
				}
				return
			}
			expr(x.X, ctx)
		case *ast.CallExpr:
			if tv, ok := info.Types[x.Fun]; ok && tv.IsType() {
				// a conversion
			} else {
				switch f := x.Fun.(type) {
				case *ast.Ident:
					if obj := info.Uses[f]; obj != nil {
						if _, isBuiltin := obj.(*types.Builtin); isBuiltin {
							calleeSet["builtin "+f.Name] = true
						} else {
							calleeSet[f.Name] = true
						}
					}
				case *ast.SelectorExpr:
					if sel := info.Selections[f]; sel != nil {
						calleeSet["method "+a.tp.typeString(sel.Recv())+"."+f.Sel.Name] = true
						if types.IsInterface(sel.Recv()) {
							// a method call on an interface value panics when the value is nil
							site := assertSite{target: "non-nil", text: src(x), nonNil: true}
							if k, fl, ok := dollar(f.X); ok {
								site.k, site.field = k, fl
								for _, nn := range ctx.nonNil {
									if nn[0] == fmt.Sprint(k) && nn[1] == fl {
										site.guarded = true
									}
								}
							}
							at.asserts = append(at.asserts, site)
						}
						expr(f.X, ctx)
					} else if pk, ok := f.X.(*ast.Ident); ok {
						calleeSet[pk.Name+"."+f.Sel.Name] = true
					}
				default:
					calleeSet["call of "+src(x.Fun)] = true
				}
			}
			for _, arg := range x.Args {
				expr(arg, ctx)
			}
		case *ast.IndexExpr:
			if isIdent(x.X, "yyDollar") {
				die("production %d: yyDollar[…] used as a whole value: `%s`", p.num, src(x))
			}
			expr(x.X, ctx)
			expr(x.Index, ctx)
			if tv, ok := info.Types[x.X]; ok {
				if _, isMap := tv.Type.Underlying().(*types.Map); isMap {
					return
				}
			}
			site := indexSite{prod: p.num, text: src(x)}
			if c, ok := intLit(x.Index); ok {
				for _, g := range ctx.lens {
					if g[0] == src(x.X) {
						var gc int
						fmt.Sscan(g[1], &gc)
						if gc >= c {
							site.guarded = true
							site.why = "len(" + g[0] + ") > " + g[1]
						}
					}
				}
			}
			at.indexing = append(at.indexing, site)
		case *ast.SliceExpr:
			expr(x.X, ctx)
			expr(x.Low, ctx)
			expr(x.High, ctx)
			expr(x.Max, ctx)
			site := indexSite{prod: p.num, text: src(x)}
			if x.High == nil && x.Max == nil {
				lo := 0
				okc := true
				if x.Low != nil {
					lo, okc = intLit(x.Low)
				}
				if okc {
					if lo == 0 {
						site.guarded, site.why = true, "x[0:] / x[:]"
					}
					for _, g := range ctx.lens {
						if g[0] == src(x.X) {
							var gc int
							fmt.Sscan(g[1], &gc)
							if gc+1 >= lo {
								site.guarded = true
								site.why = "len(" + g[0] + ") > " + g[1]
							}
						}
					}
				}
			}
			at.indexing = append(at.indexing, site)
		case *ast.TypeAssertExpr:
			if isIdent(x.X, "yylex") && src(x.Type) == "*Lexer" {
				return
			}
			site := assertSite{target: src(x.Type), text: src(x)}
			if k, f, ok := dollar(x.X); ok {
				site.k, site.field = k, f
				for _, nn := range ctx.nonNil {
					if nn[0] == fmt.Sprint(k) && nn[1] == f {
						site.guarded = true
					}
				}
			}
			expr(x.X, ctx)
			tt := info.Types[x.Type].Type
			if tt == nil {
				die("production %d: no type for the target of `%s`", p.num, src(x))
			}
			site.ttype = tt
			at.asserts = append(at.asserts, site)
		case *ast.FuncLit:
			die("production %d: function literal in an action", p.num)
		case *ast.ArrayType, *ast.MapType, *ast.InterfaceType, *ast.StructType, *ast.FuncType, *ast.ChanType, *ast.Ellipsis:
		default:
			die("%s: expression form %T in a semantic action", fset.Position(e.Pos()), e)
		}
	}

	block := func(list []ast.Stmt, ctx walkCtx) bool {
		all := false
		for _, s := range list {
			if stmt(s, ctx) {
				all = true
			}
		}
		return all
	}

	stmt = func(s ast.Stmt, ctx walkCtx) bool {
		switch x := s.(type) {
		case nil, *ast.EmptyStmt:
			return false
		case *ast.BlockStmt:
			return block(x.List, ctx)
		case *ast.AssignStmt:
			assigned := false
			if len(x.Lhs) == 2 && len(x.Rhs) == 1 {
				if ta, ok := x.Rhs[0].(*ast.TypeAssertExpr); ok {
					at.okForms++
					expr(ta.X, ctx)
					return false
				}
			}
			for _, r := range x.Rhs {
				expr(r, ctx)
			}
			for i, l := range x.Lhs {
				if f, ok := yyvalField(l); ok {
					if f != lhsField {
						die("production %d (%s): assigns yyVAL.%s but the nonterminal lives in field %q", p.num, p.lhs, f, lhsField)
					}
					if x.Tok != token.ASSIGN || len(x.Lhs) != len(x.Rhs) {
						die("production %d: `%s`: not a plain assignment to yyVAL", p.num, src(x))
					}
					assignSource(x.Rhs[i])
					assigned = true
					continue
				}
				if rootIdent(l) == "yyVAL" {
					die("production %d: `%s` writes below a field of yyVAL", p.num, src(x))
				}
				if k, f, ok := dollar(l); ok {
					// overwriting a whole field of a stack slot would change what the typing says about it
					die("production %d: `%s` overwrites yyDollar[%d].%s", p.num, src(x), k, f)
				}
				if x.Tok != token.DEFINE {
					expr(l, ctx)
				}
			}
			return assigned
		case *ast.DeclStmt:
			gd, ok := x.Decl.(*ast.GenDecl)
			if !ok {
				die("production %d: declaration form", p.num)
			}
			for _, sp := range gd.Specs {
				if vs, ok := sp.(*ast.ValueSpec); ok {
					for _, v := range vs.Values {
						expr(v, ctx)
					}
				}
			}
			return false
		case *ast.ExprStmt:
			expr(x.X, ctx)
			return false
		case *ast.IncDecStmt:
			expr(x.X, ctx)
			return false
		case *ast.IfStmt:
			if x.Init != nil {
				stmt(x.Init, ctx)
			}
			expr(x.Cond, ctx)
			thenCtx, elseCtx := ctx, ctx
			thenCtx.lens = append(append([][2]string{}, ctx.lens...), lenGuards(x.Cond)...)
			if k, f, isEq, ok := nilTest(x.Cond); ok {
				nn := append(append([][2]string{}, ctx.nonNil...), [2]string{fmt.Sprint(k), f})
				if isEq {
					elseCtx.nonNil = nn
				} else {
					thenCtx.nonNil = nn
				}
			}
			t := stmt(x.Body, thenCtx)
			e := false
			if x.Else != nil {
				e = stmt(x.Else, elseCtx)
			}
			return t && e
		case *ast.ForStmt:
			stmt(x.Init, ctx)
			expr(x.Cond, ctx)
			stmt(x.Post, ctx)
			stmt(x.Body, ctx)
			return false
		case *ast.RangeStmt:
			expr(x.X, ctx)
			stmt(x.Body, ctx)
			return false
		default:
			die("%s: statement form %T in a semantic action is outside what the typing knows", fset.Position(s.Pos()), s)
		}
		return false
	}

	definite := false
	if body != nil {
		definite = stmt(body, walkCtx{})
	}
	if !definite {
		// yyVAL = yyS[yyp+1]: the slot of $1 when there is one
		if len(rhsFields) >= 1 && rhsFields[0] == lhsField && lhsField != "" {
			srcSet[-1] = true
		} else {
			srcSet[tagUnknown] = true
		}
	}
	for s := range srcSet {
		at.sources = append(at.sources, s)
	}
	sort.Ints(at.sources)
	for c := range calleeSet {
		at.callees = append(at.callees, c)
	}
	sort.Strings(at.callees)
	return at
}

// helperSites: what in the body of a function of lib/parser can panic by itself (one level: its own statements)
func (a *analyzer) helperSites(fd *ast.FuncDecl) string {
	if fd.Body == nil {
		return "no body"
	}
	found := map[string]bool{}
	ast.Inspect(fd.Body, func(n ast.Node) bool {
		switch x := n.(type) {
		case *ast.IndexExpr:
			if tv, ok := a.tp.info.Types[x.X]; ok {
				if _, isMap := tv.Type.Underlying().(*types.Map); isMap {
					return true
				}
				if _, isSig := tv.Type.Underlying().(*types.Signature); isSig {
					return true
				}
			}
			found["index"] = true
		case *ast.SliceExpr:
			found["slice"] = true
		case *ast.TypeAssertExpr:
			found["type assertion"] = true // (refined below)
		case *ast.CallExpr:
			if isIdent(x.Fun, "panic") {
				found["panic call"] = true
			}
		case *ast.BinaryExpr:
			if x.Op == token.QUO || x.Op == token.REM {
				found["division"] = true
			}
		case *ast.StarExpr:
			if tv, ok := a.tp.info.Types[x]; ok && !tv.IsType() {
				found["pointer dereference"] = true
			}
		}
		return true
	})
	// assertions in the `v, ok := x.(T)` form and type switches cannot panic
	if found["type assertion"] {
		unchecked := false
		var walk func(n ast.Node) bool
		checked := map[*ast.TypeAssertExpr]bool{}
		ast.Inspect(fd.Body, func(n ast.Node) bool {
			switch x := n.(type) {
			case *ast.AssignStmt:
				if len(x.Lhs) == 2 && len(x.Rhs) == 1 {
					if ta, ok := x.Rhs[0].(*ast.TypeAssertExpr); ok {
						checked[ta] = true
					}
				}
			case *ast.TypeSwitchStmt:
				ast.Inspect(x.Assign, func(m ast.Node) bool {
					if ta, ok := m.(*ast.TypeAssertExpr); ok {
						checked[ta] = true
					}
					return true
				})
			}
			return true
		})
		_ = walk
		ast.Inspect(fd.Body, func(n ast.Node) bool {
			if ta, ok := n.(*ast.TypeAssertExpr); ok && !checked[ta] {
				unchecked = true
			}
			return true
		})
		delete(found, "type assertion")
		if unchecked {
			found["type assertion without ok"] = true
		}
	}
	if len(found) == 0 {
		return "none"
	}
	var ks []string
	for k := range found {
		ks = append(ks, k)
	}
	sort.Strings(ks)
	return strings.Join(ks, "; ")
}

func emitActions(pf *file, lf *file, dir string) {
	g := readGrammar(dir)
	toknames := pf.strArrays["yyToknames"]
	code := symbolCodes(g, toknames, pf.intArrays["yyR1"], pf.intArrays["yyR2"])
	tp := loadTyped(repo())
	var drv *ast.FuncDecl
	funcs := map[string]*ast.FuncDecl{}
	for _, f := range tp.files {
		for _, d := range f.Decls {
			if fd, ok := d.(*ast.FuncDecl); ok {
				if fd.Recv == nil {
					funcs[fd.Name.Name] = fd
				}
				if f == tp.main && recvName(fd) == "yyParserImpl" && fd.Name.Name == "Parse" {
					drv = fd
				}
			}
		}
	}
	if drv == nil {
		die("func (yyrcvr *yyParserImpl) Parse not found")
	}
	_, sw := findActionSwitch(drv)
	bodies := map[int]*ast.BlockStmt{}
	for _, cc := range sw.Body.List {
		c := cc.(*ast.CaseClause)
		if len(c.List) != 1 || len(c.Body) != 2 {
			die("switch yynt: unexpected case shape")
		}
		num, ok := intLit(c.List[0])
		if !ok {
			die("switch yynt: case label")
		}
		blk, ok := c.Body[1].(*ast.BlockStmt)
		if !ok {
			die("case %d: no block", num)
		}
		bodies[num] = blk
		if num < 1 || num >= len(g.prods) {
			die("case %d: no such production in parser.y", num)
		}
		// the //line directive in front of the block gives the action's place in parser.y
		pos := fset.Position(blk.Lbrace)
		if !strings.HasSuffix(pos.Filename, "parser.y") || pos.Line != g.prods[num].line {
			die("case %d: its action is at %s:%d, production %d of parser.y has its action at line %d: parser.go and parser.y do not belong together", num, pos.Filename, pos.Line, num, g.prods[num].line)
		}
	}
	for _, p := range g.prods[1:] {
		if p.hasAct != (bodies[p.num] != nil) {
			die("production %d (parser.y:%d): action in parser.y: %v, case in parser.go: %v", p.num, p.line, p.hasAct, bodies[p.num] != nil)
		}
	}

	an := &analyzer{tp: tp, g: g, tags: map[string]int{"nil": tagNil, "?": tagUnknown}, tagNames: []string{"nil", "?"}, tagType: map[int]types.Type{}}
	field := func(sym string) string {
		f, ok := g.field[sym]
		if !ok {
			if strings.HasPrefix(sym, "'") || sym == "$end" || sym == "$accept" || sym == "error" || sym == "$unk" {
				return ""
			}
			die("symbol %s has no %%type / %%token declaration", sym)
		}
		return f
	}
	// the field types of yySymType
	fieldType := map[string]types.Type{}
	if obj := tp.pkg.Scope().Lookup("yySymType"); obj != nil {
		st := obj.Type().Underlying().(*types.Struct)
		for i := 0; i < st.NumFields(); i++ {
			fieldType[st.Field(i).Name()] = st.Field(i).Type()
		}
	} else {
		die("yySymType not found")
	}
	// tokens: (*Lexer).Lex assigns lval.token only
	tokTag := an.tag(fieldType["token"])

	var typings []*actionTyping
	for i := range g.prods {
		p := &g.prods[i]
		if p.num == 0 {
			typings = append(typings, &actionTyping{prod: p, sources: []int{tagUnknown}})
			continue
		}
		var rf []string
		for _, s := range p.rhs {
			rf = append(rf, field(s))
		}
		typings = append(typings, an.action(p, field(p.lhs), rf, bodies[p.num]))
	}

	// types of the symbols: least solution
	typesOf := map[int]map[int]bool{}
	for name, c := range code {
		typesOf[c] = map[int]bool{}
		if c > 0 {
			f := field(name)
			if f == "token" || f == "" {
				typesOf[c][tokTag] = true
			} else {
				typesOf[c][tagUnknown] = true
			}
		}
	}
	for changed := true; changed; {
		changed = false
		for _, at := range typings {
			lhs := code[at.prod.lhs]
			for _, s := range at.sources {
				if s >= 0 {
					if !typesOf[lhs][s] {
						typesOf[lhs][s] = true
						changed = true
					}
					continue
				}
				for t := range typesOf[code[at.prod.rhs[-s-1]]] {
					if !typesOf[lhs][t] {
						typesOf[lhs][t] = true
						changed = true
					}
				}
			}
		}
	}
	// interface-typed fields whose static type is concrete keep that type: nothing to do (sources carry it)

	// assertions: allowed tags, and the check
	for _, at := range typings {
		for i := range at.asserts {
			s := &at.asserts[i]
			target := s.ttype
			for id := 2; id < len(an.tagNames); id++ {
				if s.nonNil {
					s.allowed = append(s.allowed, id)
					continue
				}
				t := an.tagType[id]
				if types.Identical(t, target) {
					s.allowed = append(s.allowed, id)
				} else if it, ok := target.Underlying().(*types.Interface); ok && !types.IsInterface(t) && types.Implements(t, it) {
					s.allowed = append(s.allowed, id)
				}
			}
			if len(s.allowed) == 0 && !s.nonNil {
				s.allowed = append(s.allowed, an.tag(target))
			}
			if s.k == 0 {
				die("production %d (%s, parser.y:%d): the operand of `%s` is not a yyDollar[k].field: its dynamic type is not tracked", at.prod.num, at.prod.lhs, at.prod.line, s.text)
			}
			sym := at.prod.rhs[s.k-1]
			for t := range typesOf[code[sym]] {
				ok := false
				for _, al := range s.allowed {
					ok = ok || al == t
				}
				if t == tagNil && s.guarded {
					ok = true
				}
				if !ok {
					die("production %d (%s, parser.y:%d): `%s` needs %s, but symbol %s ($%d) can carry a value of dynamic type %s: the action can panic",
						at.prod.num, at.prod.lhs, at.prod.line, s.text, s.target, sym, s.k, an.tagNames[t])
				}
			}
		}
	}

	// ---------- output ----------
	w.WriteString("/- GENERATED by extract/lalr (mode actions) from lib/parser/parser.y and the type-checked lib/parser — do not edit.\n")
	w.WriteString("   A typing of the semantic values: what dynamic types every action can leave in yyVAL, the type assertions and\n")
	w.WriteString("   index expressions of the actions, and what the actions call.  `typesOfSymbol` is a certificate Lean re-checks. -/\n")
	w.WriteString("namespace Csvq.Gen.Lalr\n\n")
	w.WriteString("/-- dynamic types, by tag: 0 = nil, 1 = unknown, then the concrete Go types the actions construct -/\ndef tagNames : List String := [")
	for i, n := range an.tagNames {
		if i > 0 {
			w.WriteString(", ")
		}
		if i%6 == 0 {
			w.WriteString("\n  ")
		}
		w.WriteString(leanStr(n))
	}
	w.WriteString("]\n\n")
	fmt.Fprintf(&w, "/-- the tag of a token's value (`lval.token`, the only field (*Lexer).Lex writes) -/\ndef tokenTag : Nat := %d\n\n", tokTag)

	var names []string
	for n := range code {
		names = append(names, n)
	}
	sort.Slice(names, func(i, j int) bool { return code[names[i]] > code[names[j]] })
	w.WriteString("/-- grammar symbols: code as yyChk stores it PLUS 32768 (token number, or minus the yyR1 number), name, field of yySymType -/\ndef symbols : List (Nat × String × String) := [")
	for i, n := range names {
		if i > 0 {
			w.WriteString(",")
		}
		fmt.Fprintf(&w, "\n  (%d, %s, %s)", code[n]+32768, leanStr(n), leanStr(field(n)))
	}
	w.WriteString("]\n\n")

	natList := func(xs []int) string {
		var b strings.Builder
		b.WriteString("[")
		for j, x := range xs {
			if j > 0 {
				b.WriteString(", ")
			}
			fmt.Fprintf(&b, "%d", x)
		}
		b.WriteString("]")
		return b.String()
	}
	w.WriteString("/-- certificate: the dynamic types (tags) a symbol's value can have; symbols by stored code ($accept, code 0, has no value) -/\ndef typesOfSymbol : List (Nat × List Nat) := [")
	firstT := true
	for _, n := range names {
		if code[n] == 0 {
			continue
		}
		if !firstT {
			w.WriteString(",")
		}
		firstT = false
		var ts []int
		for t := range typesOf[code[n]] {
			ts = append(ts, t)
		}
		sort.Ints(ts)
		fmt.Fprintf(&w, "\n  (%d, %s)", code[n]+32768, natList(ts))
	}
	w.WriteString("]\n\n")

	w.WriteString("/-- yyR1 number of the left-hand side of every production (entry p is production p) -/\ndef prodLhs : List Nat := ")
	var lhs []int
	for _, at := range typings {
		lhs = append(lhs, -code[at.prod.lhs])
	}
	w.WriteString(natList(lhs) + "\n\n")
	w.WriteString("/-- right-hand side of every production, first symbol first, symbols by stored code (code + 32768) -/\ndef prodRhs : List (List Nat) := [")
	for i, at := range typings {
		if i > 0 {
			w.WriteString(",")
		}
		if i%6 == 0 {
			w.WriteString("\n  ")
		} else {
			w.WriteString(" ")
		}
		var r []int
		for _, sy := range at.prod.rhs {
			r = append(r, code[sy]+32768)
		}
		w.WriteString(natList(r))
	}
	w.WriteString("]\n\n")
	w.WriteString("/-- what the action of every production can leave in yyVAL: a tag, or 10000 + j for a copy of $j -/\ndef prodSources : List (List Nat) := [")
	for i, at := range typings {
		if i > 0 {
			w.WriteString(",")
		}
		if i%10 == 0 {
			w.WriteString("\n  ")
		} else {
			w.WriteString(" ")
		}
		var r []int
		for _, sc := range at.sources {
			if sc < 0 {
				r = append(r, 10000-sc)
			} else {
				r = append(r, sc)
			}
		}
		sort.Ints(r)
		w.WriteString(natList(r))
	}
	w.WriteString("]\n\n")
	w.WriteString("/-- the type assertions without ok: (production, j of yyDollar[j], tags that satisfy it, nil excluded before it) -/\ndef prodAsserts : List (Nat × Nat × List Nat × Bool) := [")
	firstA := true
	for _, at := range typings {
		for _, sa := range at.asserts {
			if !firstA {
				w.WriteString(",")
			}
			firstA = false
			fmt.Fprintf(&w, "\n  (%d, %d, %s, %v)", at.prod.num, sa.k, natList(sa.allowed), sa.guarded)
		}
	}
	w.WriteString("]\n\n")

	w.WriteString("/-- the assertions again, readable: (production, text, symbol asserted on, nil excluded) -/\ndef assertionTexts : List (Nat × String × String × Bool) := [")
	first := true
	okForms := 0
	for _, at := range typings {
		okForms += at.okForms
		for _, s := range at.asserts {
			if !first {
				w.WriteString(",")
			}
			first = false
			fmt.Fprintf(&w, "\n  (%d, %s, %s, %v)", at.prod.num, leanStr(s.text), leanStr(at.prod.rhs[s.k-1]), s.guarded)
		}
	}
	w.WriteString("]\n\n")
	fmt.Fprintf(&w, "/-- assertions in the `v, ok := x.(T)` form (cannot panic) -/\ndef okFormAssertions : Nat := %d\n\n", okForms)

	w.WriteString("/-- index and slice expressions in the actions: (production, text, guarded by a length test, the test) -/\ndef indexSites : List (Nat × String × Bool × String) := [")
	first = true
	for _, at := range typings {
		for _, s := range at.indexing {
			if !first {
				w.WriteString(",")
			}
			first = false
			fmt.Fprintf(&w, "\n  (%d, %s, %v, %s)", s.prod, leanStr(s.text), s.guarded, leanStr(s.why))
		}
	}
	w.WriteString("]\n\n")

	w.WriteString("/-- the index / slice expressions no length test guards -/\ndef unguardedIndexSites : List (Nat × String) := [")
	first = true
	for _, at := range typings {
		for _, s := range at.indexing {
			if s.guarded {
				continue
			}
			if !first {
				w.WriteString(",")
			}
			first = false
			fmt.Fprintf(&w, "\n  (%d, %s)", s.prod, leanStr(s.text))
		}
	}
	w.WriteString("]\n\n")

	// what the actions call; the helpers of lib/parser among the callees, one level deep
	helper := map[string]bool{}
	w.WriteString("/-- what every action calls (production, callees) — actions that call nothing are left out -/\ndef actionCallees : List (Nat × List String) := [")
	first = true
	for _, at := range typings {
		if len(at.callees) == 0 {
			continue
		}
		if !first {
			w.WriteString(",")
		}
		first = false
		fmt.Fprintf(&w, "\n  (%d, [", at.prod.num)
		for j, c := range at.callees {
			if j > 0 {
				w.WriteString(", ")
			}
			w.WriteString(leanStr(c))
			if _, ok := funcs[c]; ok {
				helper[c] = true
			}
		}
		w.WriteString("])")
	}
	w.WriteString("]\n\n")
	ext := map[string]bool{}
	for _, at := range typings {
		for _, c := range at.callees {
			if _, ok := funcs[c]; !ok {
				ext[c] = true
			}
		}
	}
	var es []string
	for e := range ext {
		es = append(es, e)
	}
	sort.Strings(es)
	w.WriteString("/-- everything else the actions call (builtins, methods, other packages) -/\ndef externalCallees : List String := [")
	for i, e := range es {
		if i > 0 {
			w.WriteString(", ")
		}
		w.WriteString(leanStr(e))
	}
	w.WriteString("]\n\n")
	var hs []string
	for h := range helper {
		hs = append(hs, h)
	}
	sort.Strings(hs)
	w.WriteString("/-- the functions of lib/parser the actions call, with the panic sites of their own bodies (index, slice, type\n    assertion without ok, panic call, division, pointer dereference), one level deep -/\ndef helperPanicSites : List (String × String) := [")
	for i, h := range hs {
		if i > 0 {
			w.WriteString(",")
		}
		fmt.Fprintf(&w, "\n  (%s, %s)", leanStr(h), leanStr(an.helperSites(funcs[h])))
	}
	w.WriteString("]\n\n")
	_ = lf
}
