package main

// The rules section of lib/parser/parser.y: the productions in the order goyacc numbers them (production 0 is
// `$accept: <start> $end`), with their right-hand symbols, and the %type / %token<…> field of every symbol.
//
// Nothing read here is trusted by the Lean side: the right-hand symbols are checked against the tables (every state
// that can lie at position k of a handle is entered on the k-th symbol: yyChk), the lengths against yyR2, the left-hand
// sides against yyR1.

import (
	"fmt"
	"os"
	"path/filepath"
	"strings"
)

type production struct {
	num    int
	lhs    string
	rhs    []string
	line   int // line of the action's `{` in parser.y, 0 when the production has no action
	hasAct bool
}

type grammar struct {
	prods  []production      // index = production number; prods[0] is $accept
	field  map[string]string // symbol name -> field of yySymType ("" when none)
	tokens map[string]bool   // names declared by %token / %left …
}

func readGrammar(dir string) *grammar {
	b, err := os.ReadFile(filepath.Join(dir, "parser.y"))
	if err != nil {
		die("%v", err)
	}
	src := string(b)
	parts := strings.Split(src, "\n%%")
	if len(parts) < 2 {
		die("parser.y: no %%%% separator")
	}
	decl, rules := parts[0], parts[1]
	ruleStartLine := strings.Count(decl, "\n") + 2
	g := &grammar{field: map[string]string{}, tokens: map[string]bool{}}
	for _, ln := range strings.Split(decl, "\n") {
		t := strings.TrimSpace(ln)
		if !strings.HasPrefix(t, "%") {
			continue
		}
		f := strings.Fields(t)
		head := f[0]
		fld := ""
		if i := strings.Index(head, "<"); i >= 0 {
			if !strings.HasSuffix(head, ">") {
				die("parser.y: declaration %q", t)
			}
			fld = head[i+1 : len(head)-1]
			head = head[:i]
		}
		switch head {
		case "%type":
			for _, n := range f[1:] {
				g.field[n] = fld
			}
		case "%token":
			for _, n := range f[1:] {
				g.field[n] = fld
				g.tokens[n] = true
			}
		case "%left", "%right", "%nonassoc":
			for _, n := range f[1:] {
				g.tokens[n] = true
				if _, ok := g.field[n]; !ok {
					g.field[n] = ""
				}
			}
		case "%{", "%}", "%union{", "%union":
		default:
			die("parser.y: declaration %q is not one this reader knows", t)
		}
	}

	// tokenise the rules section
	type tok struct {
		kind string // word | char | : | '|' | ; | action | prec
		text string
		line int
	}
	var toks []tok
	rs := []rune(rules)
	line := ruleStartLine
	for i := 0; i < len(rs); {
		c := rs[i]
		switch {
		case c == '\n':
			line++
			i++
		case c == ' ' || c == '\t' || c == '\r':
			i++
		case c == '/' && i+1 < len(rs) && rs[i+1] == '/':
			for i < len(rs) && rs[i] != '\n' {
				i++
			}
		case c == '/' && i+1 < len(rs) && rs[i+1] == '*':
			i += 2
			for i+1 < len(rs) && !(rs[i] == '*' && rs[i+1] == '/') {
				if rs[i] == '\n' {
					line++
				}
				i++
			}
			i += 2
		case c == ':' || c == '|' || c == ';':
			toks = append(toks, tok{string(c), string(c), line})
			i++
		case c == '\'':
			j := i
			i++
			for i < len(rs) && rs[i] != '\'' {
				if rs[i] == '\\' {
					i++
				}
				i++
			}
			i++
			toks = append(toks, tok{"char", string(rs[j:i]), line})
		case c == '{':
			start := line
			depth := 0
			for i < len(rs) {
				switch rs[i] {
				case '\n':
					line++
				case '{':
					depth++
				case '}':
					depth--
				case '"', '`':
					q := rs[i]
					i++
					for i < len(rs) && rs[i] != q {
						if rs[i] == '\\' && q == '"' {
							i++
						}
						if rs[i] == '\n' {
							line++
						}
						i++
					}
				case '\'':
					i++
					for i < len(rs) && rs[i] != '\'' {
						if rs[i] == '\\' {
							i++
						}
						i++
					}
				case '/':
					if i+1 < len(rs) && rs[i+1] == '/' {
						for i < len(rs) && rs[i] != '\n' {
							i++
						}
						continue
					}
				}
				i++
				if depth == 0 {
					break
				}
			}
			if depth != 0 {
				die("parser.y:%d: unterminated action", start)
			}
			toks = append(toks, tok{"action", "", start})
		case c == '%':
			j := i
			i++
			for i < len(rs) && rs[i] >= 'a' && rs[i] <= 'z' {
				i++
			}
			if string(rs[j:i]) == "%%" || (j+1 < len(rs) && rs[j+1] == '%') {
				// the second %% : the rest is Go code
				i = len(rs)
				break
			}
			if string(rs[j:i]) != "%prec" {
				die("parser.y:%d: %q in the rules section", line, string(rs[j:i]))
			}
			toks = append(toks, tok{"prec", "", line})
		case c == '_' || c >= 'a' && c <= 'z' || c >= 'A' && c <= 'Z':
			j := i
			for i < len(rs) && (rs[i] == '_' || rs[i] >= 'a' && rs[i] <= 'z' || rs[i] >= 'A' && rs[i] <= 'Z' || rs[i] >= '0' && rs[i] <= '9') {
				i++
			}
			toks = append(toks, tok{"word", string(rs[j:i]), line})
		default:
			die("parser.y:%d: unexpected %q in the rules section", line, string(c))
		}
	}

	g.prods = append(g.prods, production{num: 0, lhs: "$accept"})
	i := 0
	for i < len(toks) {
		if toks[i].kind != "word" || i+1 >= len(toks) || toks[i+1].kind != ":" {
			die("parser.y:%d: expected `nonterminal :`", toks[i].line)
		}
		lhs := toks[i].text
		i += 2
		cur := production{lhs: lhs}
		flush := func() {
			cur.num = len(g.prods)
			g.prods = append(g.prods, cur)
			cur = production{lhs: lhs}
		}
		for i < len(toks) {
			t := toks[i]
			if t.kind == "word" && i+1 < len(toks) && toks[i+1].kind == ":" {
				break // the next rule
			}
			switch t.kind {
			case "word", "char":
				if cur.hasAct {
					die("parser.y:%d: a symbol after the action (mid-rule actions are not supported)", t.line)
				}
				cur.rhs = append(cur.rhs, t.text)
			case "prec":
				i++ // the symbol after %prec
			case "action":
				if cur.hasAct {
					die("parser.y:%d: two actions in one production", t.line)
				}
				cur.hasAct = true
				cur.line = t.line
			case "|":
				flush()
			case ";":
				// optional terminator
			default:
				die("parser.y:%d: unexpected %q", t.line, t.kind)
			}
			i++
		}
		flush()
	}
	if len(g.prods) < 2 {
		die("parser.y: no productions")
	}
	// production 0 (`$accept: start $end`) is never reduced: the tables give it length 0
	return g
}

// symbolCodes: the numbers the tables use. Tokens: position in yyToknames + 1; nonterminals: yyR1 of their productions
// (negated, as yyChk stores them).
func symbolCodes(g *grammar, toknames []string, r1, r2 []int) map[string]int {
	code := map[string]int{}
	for i, n := range toknames {
		if _, dup := code[n]; dup {
			die("yyToknames: %q twice", n)
		}
		code[n] = i + 1
	}
	if len(g.prods) != len(r1) || len(r1) != len(r2) {
		die("parser.y has %d productions (with $accept), yyR1 has %d entries, yyR2 %d: parser.go was not generated from this parser.y", len(g.prods), len(r1), len(r2))
	}
	nt := map[string]int{}
	for _, p := range g.prods {
		if len(p.rhs) != r2[p.num] {
			die("production %d (%s, parser.y:%d) has %d right-hand symbols, yyR2 says %d", p.num, p.lhs, p.line, len(p.rhs), r2[p.num])
		}
		if old, ok := nt[p.lhs]; ok && old != r1[p.num] {
			die("production %d: nonterminal %s has yyR1 number %d here and %d elsewhere", p.num, p.lhs, r1[p.num], old)
		}
		nt[p.lhs] = r1[p.num]
	}
	seen := map[int]string{}
	for n, c := range nt {
		if o, ok := seen[c]; ok {
			die("nonterminals %s and %s share the yyR1 number %d", n, o, c)
		}
		seen[c] = n
		if _, clash := code[n]; clash {
			die("%s is both a token and a nonterminal", n)
		}
		code[n] = -c
	}
	for _, p := range g.prods {
		for _, s := range p.rhs {
			if _, ok := code[s]; !ok {
				die("production %d: symbol %s is neither a token of yyToknames nor a nonterminal", p.num, s)
			}
		}
	}
	return code
}

// emitProdRhs: the right-hand sides, LAST symbol first, in the stored form of yyChk (code + 32768), production by
// production — a certificate like the others: Lean checks every symbol against the states that can lie at its place.
func emitProdRhs(pf *file, dir string) {
	g := readGrammar(dir)
	code := symbolCodes(g, pf.strArrays["yyToknames"], pf.intArrays["yyR1"], pf.intArrays["yyR2"])
	w.WriteString("/-- certificate (re-checked by Lean against yyChk): the right-hand side of every production, LAST symbol first (the\n    order in which a reduction meets them on the stack), each symbol as yyChk stores it plus 32768 (token number, or\n    minus the nonterminal's yyR1 number); entry p is production p -/\ndef prodRhsTop : List (List Nat) := [")
	for i, p := range g.prods {
		if i > 0 {
			w.WriteString(",")
		}
		if i%8 == 0 {
			w.WriteString("\n  ")
		} else {
			w.WriteString(" ")
		}
		w.WriteString("[")
		for j := len(p.rhs) - 1; j >= 0; j-- {
			if j < len(p.rhs)-1 {
				w.WriteString(", ")
			}
			fmt.Fprintf(&w, "%d", code[p.rhs[j]]+32768)
		}
		w.WriteString("]")
	}
	w.WriteString("]\n\n")
}
