package main

// Certificates computed from the tables. Nothing here is trusted: Csvq/Lemmas/LalrCheck.lean re-checks every one of them
// against the tables with a Bool checker evaluated by the kernel, and the theorems only use what the checker establishes.
//
//	below[u]  : bit mask of the states that may lie directly below u on the state stack (the edge relation E, as predecessors)
//	depth[u]  : a lower bound of the number of entries below u (d(0) = 0, d(u) ≤ d(t)+1 for every t ∈ below[u])
//	weight[u], rank[u] : the termination measure Φ(stack) = Σ weight + rank(top) strictly decreases on every reduction

import (
	"fmt"
	"math/big"
	"os"
	"sort"
)

type tables struct {
	exca, act, pact, pgo, r1, r2, chk, def []int
	last, flag, errCode                    int
	n                                      int // states
	maxTok                                 int
}

func (t *tables) shift(s, tok int) (int, bool) {
	i := t.pact[s] + tok
	if i < 0 || i >= t.last {
		return 0, false
	}
	u := t.act[i]
	if u < 0 || u >= t.n {
		die("yyAct[%d] = %d is not a state", i, u)
	}
	if t.chk[u] == tok {
		return u, true
	}
	return 0, false
}

func (t *tables) gotoState(s, nt int) int {
	g := t.pgo[nt]
	j := g + s + 1
	var u int
	if j >= t.last {
		u = t.act[g]
	} else {
		u = t.act[j]
		if t.chk[u] != -nt {
			u = t.act[g]
		}
	}
	return u
}

// reds: the productions state s may reduce by (its default, or every positive entry of its yyExca block)
func (t *tables) reds(s int) []int {
	d := t.def[s]
	if d > 0 {
		return []int{d}
	}
	if d != -2 {
		return nil
	}
	xi := 0
	for {
		if xi+1 >= len(t.exca) {
			die("state %d: yyDef = -2 but yyExca has no block for it", s)
		}
		if t.exca[xi] == -1 && t.exca[xi+1] == s {
			break
		}
		xi += 2
	}
	seen := map[int]bool{}
	var out []int
	for xi += 2; ; xi += 2 {
		if xi+1 >= len(t.exca) {
			die("state %d: yyExca block not terminated", s)
		}
		y := t.exca[xi+1]
		if y > 0 && !seen[y] {
			seen[y] = true
			out = append(out, y)
		}
		if t.exca[xi] < 0 {
			break
		}
	}
	sort.Ints(out)
	return out
}

type bitset []bool

func (t *tables) predsOf(below []bitset, set []int) []int {
	mark := make([]bool, t.n)
	for _, u := range set {
		for s := 0; s < t.n; s++ {
			if below[u][s] {
				mark[s] = true
			}
		}
	}
	var out []int
	for s, m := range mark {
		if m {
			out = append(out, s)
		}
	}
	return out
}

type cert struct {
	below  []bitset
	depth  []int
	weight []int
	rank   []int
	bound  int // max weight+rank
}

func computeCert(t *tables) *cert {
	n := t.n
	below := make([]bitset, n)
	for u := range below {
		below[u] = make(bitset, n)
	}
	edges := 0
	add := func(s, u int) bool {
		if !below[u][s] {
			below[u][s] = true
			edges++
			return true
		}
		return false
	}
	for s := 0; s < n; s++ {
		for tok := 0; tok <= t.maxTok; tok++ {
			if u, ok := t.shift(s, tok); ok {
				add(s, u)
			}
		}
	}
	reds := make([][]int, n)
	for s := 0; s < n; s++ {
		reds[s] = t.reds(s)
		for _, p := range reds[s] {
			if p >= len(t.r1) {
				die("state %d reduces by %d: no such production", s, p)
			}
		}
	}
	// anc(s, k): the states k entries below s, for every stack whose neighbours are related by `below`
	anc := func(s, k int) [][]int {
		levels := [][]int{{s}}
		for i := 0; i < k; i++ {
			levels = append(levels, t.predsOf(below, levels[i]))
		}
		return levels
	}
	for round := 0; ; round++ {
		changed := false
		for s := 0; s < n; s++ {
			for _, p := range reds[s] {
				lv := anc(s, t.r2[p])
				for _, b := range lv[t.r2[p]] {
					if add(b, t.gotoState(b, t.r1[p])) {
						changed = true
					}
				}
			}
		}
		if !changed {
			break
		}
		if round > 10000 {
			die("edge closure does not converge")
		}
	}
	// depth: BFS from state 0 along the edges
	const inf = 1 << 20
	depth := make([]int, n)
	for i := range depth {
		depth[i] = inf
	}
	depth[0] = 0
	queue := []int{0}
	succ := make([][]int, n)
	for u := 0; u < n; u++ {
		for s := 0; s < n; s++ {
			if below[u][s] {
				succ[s] = append(succ[s], u)
			}
		}
	}
	for len(queue) > 0 {
		s := queue[0]
		queue = queue[1:]
		for _, u := range succ[s] {
			if depth[u] == inf {
				depth[u] = depth[s] + 1
				queue = append(queue, u)
			}
		}
	}
	maxR2 := 0
	for _, k := range t.r2 {
		if k > maxR2 {
			maxR2 = k
		}
	}
	unreachable := 0
	for u := range depth {
		if depth[u] == inf {
			depth[u] = maxR2 + 1 // never on a stack; any value that satisfies the local conditions
			unreachable++
		}
	}
	for s := 0; s < n; s++ {
		for _, p := range reds[s] {
			if t.r2[p] > depth[s] {
				die("state %d reduces %d symbols (production %d) but may lie only %d above the bottom: the tables are not those of an LR automaton", s, t.r2[p], p, depth[s])
			}
		}
	}

	// termination measure. light states: least set closed under "a reduction all of whose popped entries may be light
	// pushes a light state" (an ε-reduction pops nothing).
	light := make([]bool, n)
	type red struct {
		s, p int
		lv   [][]int
	}
	var all []red
	for s := 0; s < n; s++ {
		for _, p := range reds[s] {
			all = append(all, red{s, p, anc(s, t.r2[p])})
		}
	}
	surelyHeavy := func(set []int) bool {
		if len(set) == 0 {
			return true // no stack reaches this configuration
		}
		for _, x := range set {
			if light[x] {
				return false
			}
		}
		return true
	}
	for {
		changed := false
		for _, r := range all {
			k := t.r2[r.p]
			h := 0
			for i := 0; i < k; i++ {
				if surelyHeavy(r.lv[i]) {
					h++
				}
			}
			if h == 0 {
				for _, b := range r.lv[k] {
					u := t.gotoState(b, t.r1[r.p])
					if !light[u] {
						light[u] = true
						changed = true
					}
				}
			}
		}
		if !changed {
			break
		}
	}
	// rank edges: reductions that do not lose weight must lose rank
	redge := make([]map[int]bool, n)
	for i := range redge {
		redge[i] = map[int]bool{}
	}
	for _, r := range all {
		k := t.r2[r.p]
		h := 0
		for i := 0; i < k; i++ {
			if surelyHeavy(r.lv[i]) {
				h++
			}
		}
		for _, b := range r.lv[k] {
			u := t.gotoState(b, t.r1[r.p])
			hu := 1
			if light[u] {
				hu = 0
			}
			if h < hu {
				die("internal: light closure")
			}
			if h == hu {
				redge[r.s][u] = true
			}
		}
	}
	// longest path ranks (rank[s] > rank[u] for every edge s -> u); a cycle is fatal
	rank := make([]int, n)
	state := make([]int, n) // 0 new, 1 on stack, 2 done
	var visit func(s int, path []int)
	visit = func(s int, path []int) {
		if state[s] == 2 {
			return
		}
		if state[s] == 1 {
			die("the reductions that keep the stack weight form a cycle through state %d (path %v): no termination measure of this shape", s, append(path, s))
		}
		state[s] = 1
		best := 0
		var us []int
		for u := range redge[s] {
			us = append(us, u)
		}
		sort.Ints(us)
		for _, u := range us {
			visit(u, append(path, s))
			if rank[u]+1 > best {
				best = rank[u] + 1
			}
		}
		rank[s] = best
		state[s] = 2
	}
	for s := 0; s < n; s++ {
		visit(s, nil)
	}
	maxRank := 0
	for _, r := range rank {
		if r > maxRank {
			maxRank = r
		}
	}
	c := maxRank + 1
	weight := make([]int, n)
	nLight := 0
	for u := range weight {
		if light[u] {
			nLight++
		} else {
			weight[u] = c
		}
	}
	if os.Getenv("LALR_DEBUG") != "" {
		sum := 0
		for _, r := range all {
			for _, l := range r.lv {
				sum += len(l)
			}
		}
		fmt.Fprintf(os.Stderr, "lalr: %d states, %d edges, %d unreachable, %d (state, production) pairs, Σ|anc| = %d, %d light, max rank %d, max depth needed %d\n",
			n, edges, unreachable, len(all), sum, nLight, maxRank, maxR2)
	}
	return &cert{below, depth, weight, rank, c + maxRank}
}

func emitCertificates(pf *file) {
	t := &tables{exca: pf.intArrays["yyExca"], act: pf.intArrays["yyAct"], pact: pf.intArrays["yyPact"], pgo: pf.intArrays["yyPgo"],
		r1: pf.intArrays["yyR1"], r2: pf.intArrays["yyR2"], chk: pf.intArrays["yyChk"], def: pf.intArrays["yyDef"],
		last: pf.consts["yyLast"], flag: pf.consts["yyFlag"], errCode: pf.consts["yyErrCode"]}
	t.n = len(t.pact)
	if len(t.def) != t.n || len(t.chk) != t.n {
		die("yyPact, yyDef, yyChk differ in length")
	}
	if len(t.r1) != len(t.r2) {
		die("yyR1, yyR2 differ in length")
	}
	for _, name := range []string{"yyTok1", "yyTok2", "yyTok3"} {
		for _, v := range pf.intArrays[name] {
			if v > t.maxTok {
				t.maxTok = v
			}
		}
	}
	c := computeCert(t)
	fmt.Fprintf(&w, "/-- the largest token number `yylex1` can return -/\ndef maxTok : Nat := %d\n\n", t.maxTok)
	// E in chunks of 32 rows: bit ((u % 32) * n + s) of chunk u / 32 is set when s may lie directly below u.
	// (one number per chunk: Lean reads a hexadecimal literal in quadratic time)
	fmt.Fprintf(&w, "/-- certificate (re-checked by Lean): bit `(u %% 32) * %d + s` of entry `u / 32` is set when state `s` may lie directly below state `u` on the stack -/\ndef belowChunks : List Nat := [", t.n)
	for c0 := 0; c0 < t.n; c0 += 32 {
		v := new(big.Int)
		for u := c0; u < c0+32 && u < t.n; u++ {
			for s := 0; s < t.n; s++ {
				if c.below[u][s] {
					v.SetBit(v, (u-c0)*t.n+s, 1)
				}
			}
		}
		if c0 > 0 {
			w.WriteString(",")
		}
		fmt.Fprintf(&w, "\n  0x%s", v.Text(16))
	}
	w.WriteString("]\n\n")
	// an oracle for "index of the lowest set bit" (the kernel has no fast log2): 2^i mod m is distinct for i < n,
	// entry (2^i mod m) of the table is i. Unused entries are 0. Lean verifies every answer it takes from it.
	m := t.n + 1
	var tbl []int
	for ; ; m++ {
		if m%2 == 0 {
			continue
		}
		seen := make(map[int]bool, t.n)
		ok := true
		r := 1
		for i := 0; i < t.n; i++ {
			if seen[r] {
				ok = false
				break
			}
			seen[r] = true
			r = r * 2 % m
		}
		if ok {
			tbl = make([]int, m)
			r = 1
			for i := 0; i < t.n; i++ {
				tbl[r] = i
				r = r * 2 % m
			}
			break
		}
	}
	fmt.Fprintf(&w, "/-- oracle (every answer is verified where it is used): `lowBitTable[2^i %% lowBitMod] = i` for i < %d -/\ndef lowBitMod : Nat := %d\n\n", t.n, m)
	emitNatVector("lowBitTable", "see lowBitMod", tbl)
	emitNatVector("depthBits", "certificate: a lower bound of the number of stack entries below each state", c.depth)
	emitNatVector("weightBits", "certificate: the weight of each state in the termination measure", c.weight)
	emitNatVector("rankBits", "certificate: the rank of each state (counts only for the top of the stack)", c.rank)
	fmt.Fprintf(&w, "/-- weight + rank of any state is at most this -/\ndef measureBound : Nat := %d\n\n", c.bound)
}
