module lalr

go 1.18
