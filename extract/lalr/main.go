// lalr: reads the goyacc output lib/parser/parser.go (and the lexer wrapper lib/parser/lexer.go, the scanner's token
// code declaration in scanner.go) and prints one of two Lean files (property C18), chosen by the argument:
//
// `lalr tables` → Csvq/Gen/LalrTables.lean
//
//	yyExca yyAct yyPact yyPgo yyR1 yyR2 yyChk yyDef yyTok1 yyTok2 yyTok3  → one packed number per table (entry i = bits
//	    [16 i, 16 i + 16) minus 32768) and its length; the decimal entries are repeated in the doc comment
//	yyLast yyPrivate yyFlag yyEofCode yyErrCode yyInitialStackSize, unknownCharacter (lexer.go) → defs
//	yyToknames, the token constants (IDENTIFIER = 57346 …)                  → Array String, List (String × Nat)
//	certificates computed from the tables (cert.go) — NOT trusted, Lean re-checks each of them against the tables:
//	    which states may lie directly below which on the state stack (bit masks, 32 rows per number),
//	    a depth lower bound per state, weight and rank per state (the termination measure), a residue table that
//	    answers "index of the lowest set bit" for the kernel, the right-hand side of every production (from parser.y;
//	    checked against yyChk for every state that can lie at each position of a handle)
//
// `lalr driver` → Csvq/Gen/LalrDriver.lean
//
//	the driver `func (yyrcvr *yyParserImpl) Parse(yylex yyLexer) int` → driverText : List String, the go/printer text
//	    of every top-level statement of its body, the semantic-action `switch yynt {…}` replaced by a placeholder
//	yylex1, yyParse, Parse (the exported wrapper), (*Lexer).Lex, the const block of EOF / Uncategorized
//	    → lex1Text, yyParseText, parseText, lexText, scannerConstText
//	the cases of `switch yynt` → actionCases : (case, window, max k, class); window = N of
//	    `yyDollar = yyS[yypt-N : yypt+1]`, max k = the largest constant k of a `yyDollar[k]`, class = "pure" (only
//	    `yyVAL.f = e` / `yylex.(*Lexer).f = e` with e built from composite literals, calls, constants and
//	    `yyDollar[k].field` reads) or "other(<what else occurs>)"; nonPureActions; yyR2 once more as a list
//
// `lalr actions` → Csvq/Gen/LalrActions.lean (actions.go, grammar.go): the typing of the semantic values — see actions.go
//
// The tables file changes only when the grammar's tables change (its Lean check takes a minute and a half); the
// driver file also when lexer.go or the loop's text changes.
//
// Stdlib only. VERIF_REPO (default /repo). Exits 1 on anything it does not understand: an integer table or yy
// constant the model does not know, a non-empty yyErrorMessages / yyStatenames, a case of the action switch that is
// not `yyDollar = yyS[yypt-N : yypt+1]` + one block, a `yyDollar` index that is not a positive constant, a statement
// in an action that leaves the loop (return / goto / break / defer / go), tables that are not those of an LR
// automaton (a reduction deeper than the stack can be, a cycle of reductions that keep the stack weight).
package main

import (
	"fmt"
	"go/ast"
	"go/parser"
	"go/printer"
	"go/token"
	"math/big"
	"os"
	"path/filepath"
	"sort"
	"strconv"
	"strings"
)

var fset = token.NewFileSet()

func die(format string, a ...interface{}) {
	fmt.Fprintf(os.Stderr, "lalr: "+format+"\n", a...)
	os.Exit(1)
}

func repo() string {
	if r := os.Getenv("VERIF_REPO"); r != "" {
		return r
	}
	return "/repo"
}

func src(n ast.Node) string {
	var sb strings.Builder
	cfg := printer.Config{Mode: printer.UseSpaces | printer.TabIndent, Tabwidth: 4}
	if err := cfg.Fprint(&sb, fset, n); err != nil {
		die("printer: %v", err)
	}
	return sb.String()
}

func leanStr(s string) string {
	var b strings.Builder
	b.WriteByte('"')
	for _, r := range s {
		switch {
		case r == '"':
			b.WriteString("\\\"")
		case r == '\\':
			b.WriteString("\\\\")
		case r == '\n':
			b.WriteString("\\n")
		case r == '\t':
			b.WriteString("\\t")
		case r < 0x20 || r == 0x7f:
			b.WriteString(fmt.Sprintf("\\x%02x", r))
		default:
			b.WriteRune(r)
		}
	}
	b.WriteByte('"')
	return b.String()
}

func intLit(e ast.Expr) (int, bool) {
	switch x := e.(type) {
	case *ast.BasicLit:
		if x.Kind != token.INT {
			return 0, false
		}
		n, err := strconv.Atoi(x.Value)
		if err != nil {
			return 0, false
		}
		return n, true
	case *ast.UnaryExpr:
		if x.Op == token.SUB {
			if n, ok := intLit(x.X); ok {
				return -n, true
			}
		}
	case *ast.ParenExpr:
		return intLit(x.X)
	}
	return 0, false
}

type file struct {
	consts    map[string]int
	constOrd  []string
	intArrays map[string][]int
	strArrays map[string][]string
	emptyLits map[string]bool // composite literals of other element types, empty
	funcs     map[string]*ast.FuncDecl
}

func recvName(fd *ast.FuncDecl) string {
	if fd.Recv == nil || len(fd.Recv.List) != 1 {
		return ""
	}
	t := fd.Recv.List[0].Type
	if st, ok := t.(*ast.StarExpr); ok {
		t = st.X
	}
	if id, ok := t.(*ast.Ident); ok {
		return id.Name
	}
	return "?"
}

func load(path string) *file {
	f, err := parser.ParseFile(fset, path, nil, 0)
	if err != nil {
		die("%v", err)
	}
	out := &file{consts: map[string]int{}, intArrays: map[string][]int{}, strArrays: map[string][]string{}, emptyLits: map[string]bool{}, funcs: map[string]*ast.FuncDecl{}}
	for _, d := range f.Decls {
		switch x := d.(type) {
		case *ast.FuncDecl:
			name := x.Name.Name
			if r := recvName(x); r != "" {
				name = r + "." + name
			}
			if _, dup := out.funcs[name]; dup {
				die("%s: function %s declared twice", path, name)
			}
			out.funcs[name] = x
		case *ast.GenDecl:
			for _, sp := range x.Specs {
				vs, ok := sp.(*ast.ValueSpec)
				if !ok {
					continue
				}
				if x.Tok == token.CONST {
					if len(vs.Names) == 1 && len(vs.Values) == 1 {
						if n, ok := intLit(vs.Values[0]); ok {
							out.consts[vs.Names[0].Name] = n
							out.constOrd = append(out.constOrd, vs.Names[0].Name)
						}
					}
					continue
				}
				if x.Tok != token.VAR || len(vs.Names) != 1 || len(vs.Values) != 1 {
					continue
				}
				cl, ok := vs.Values[0].(*ast.CompositeLit)
				if !ok {
					continue
				}
				at, ok := cl.Type.(*ast.ArrayType)
				if !ok {
					continue
				}
				name := vs.Names[0].Name
				if !strings.HasPrefix(name, "yy") {
					continue
				}
				if _, isEllipsis := at.Len.(*ast.Ellipsis); !isEllipsis {
					die("%s: array %s is not declared [...]T", path, name)
				}
				switch src(at.Elt) {
				case "int":
					var xs []int
					for _, e := range cl.Elts {
						n, ok := intLit(e)
						if !ok {
							die("%s: element `%s` of %s is not an integer literal", fset.Position(e.Pos()), src(e), name)
						}
						xs = append(xs, n)
					}
					out.intArrays[name] = xs
				case "string":
					xs := []string{}
					for _, e := range cl.Elts {
						bl, ok := e.(*ast.BasicLit)
						if !ok || bl.Kind != token.STRING {
							die("%s: element `%s` of %s is not a string literal", fset.Position(e.Pos()), src(e), name)
						}
						s, err := strconv.Unquote(bl.Value)
						if err != nil {
							die("%s: %v", fset.Position(e.Pos()), err)
						}
						xs = append(xs, s)
					}
					out.strArrays[name] = xs
				default:
					if len(cl.Elts) != 0 {
						die("%s: table %s of element type %s is not empty: the model does not know it", path, name, src(at.Elt))
					}
					out.emptyLits[name] = true
				}
			}
		}
	}
	return out
}

// ---------- the driver fingerprint ----------

func isIdent(e ast.Expr, name string) bool {
	id, ok := e.(*ast.Ident)
	return ok && id.Name == name
}

// stmtTexts: go/printer text of every top-level statement of a function body
func stmtTexts(fd *ast.FuncDecl) []string {
	out := []string{"func " + src(fd.Type)[4:]}
	if fd.Recv != nil {
		out[0] = "func (" + src(fd.Recv.List[0].Type) + ") " + fd.Name.Name + src(fd.Type)[4:]
	} else {
		out[0] = "func " + fd.Name.Name + src(fd.Type)[4:]
	}
	for _, s := range fd.Body.List {
		out = append(out, src(s))
	}
	return out
}

type action struct {
	num    int
	window int
	maxK   int
	class  string
}

// findActionSwitch: the one top-level `switch yynt {…}` of Parse
func findActionSwitch(fd *ast.FuncDecl) (int, *ast.SwitchStmt) {
	idx := -1
	var sw *ast.SwitchStmt
	for i, s := range fd.Body.List {
		if x, ok := s.(*ast.SwitchStmt); ok && x.Init == nil && isIdent(x.Tag, "yynt") {
			if sw != nil {
				die("Parse has two `switch yynt` statements")
			}
			idx, sw = i, x
		}
	}
	if sw == nil {
		die("Parse has no top-level `switch yynt` statement")
	}
	// no other switch over yynt nested anywhere else
	for i, s := range fd.Body.List {
		if i == idx {
			continue
		}
		ast.Inspect(s, func(n ast.Node) bool {
			if x, ok := n.(*ast.SwitchStmt); ok && isIdent(x.Tag, "yynt") {
				die("%s: a second `switch yynt`", fset.Position(x.Pos()))
			}
			return true
		})
	}
	return idx, sw
}

// dollarWindow: `yyDollar = yyS[yypt-N : yypt+1]` → N
func dollarWindow(s ast.Stmt) (int, bool) {
	as, ok := s.(*ast.AssignStmt)
	if !ok || as.Tok != token.ASSIGN || len(as.Lhs) != 1 || len(as.Rhs) != 1 || !isIdent(as.Lhs[0], "yyDollar") {
		return 0, false
	}
	sl, ok := as.Rhs[0].(*ast.SliceExpr)
	if !ok || !isIdent(sl.X, "yyS") || sl.Slice3 || sl.Low == nil || sl.High == nil {
		return 0, false
	}
	lo, ok := sl.Low.(*ast.BinaryExpr)
	if !ok || lo.Op != token.SUB || !isIdent(lo.X, "yypt") {
		return 0, false
	}
	n, ok := intLit(lo.Y)
	if !ok || n < 0 {
		return 0, false
	}
	hi, ok := sl.High.(*ast.BinaryExpr)
	if !ok || hi.Op != token.ADD || !isIdent(hi.X, "yypt") {
		return 0, false
	}
	if one, ok := intLit(hi.Y); !ok || one != 1 {
		return 0, false
	}
	return n, true
}

type classifier struct {
	why  map[string]bool
	maxK int
}

func (c *classifier) other(what string) { c.why[what] = true }

// dollarRead: yyDollar[k] with constant k (anything else with yyDollar: exit)
func (c *classifier) dollarIndex(ix *ast.IndexExpr) {
	k, ok := intLit(ix.Index)
	if !ok || k < 1 {
		die("%s: `%s`: yyDollar is indexed by something that is not a positive constant", fset.Position(ix.Pos()), src(ix))
	}
	if k > c.maxK {
		c.maxK = k
	}
}

func (c *classifier) expr(e ast.Expr) {
	switch x := e.(type) {
	case nil:
	case *ast.BasicLit, *ast.Ident:
	case *ast.ParenExpr:
		c.expr(x.X)
	case *ast.SelectorExpr:
		c.expr(x.X)
	case *ast.StarExpr:
		c.expr(x.X)
	case *ast.UnaryExpr:
		c.expr(x.X)
	case *ast.BinaryExpr:
		c.other("operator " + x.Op.String())
		c.expr(x.X)
		c.expr(x.Y)
	case *ast.KeyValueExpr:
		c.expr(x.Value)
	case *ast.CompositeLit:
		for _, el := range x.Elts {
			c.expr(el)
		}
	case *ast.CallExpr:
		switch f := x.Fun.(type) {
		case *ast.Ident:
		case *ast.SelectorExpr:
			if _, ok := f.X.(*ast.Ident); !ok {
				c.other("method call")
				c.expr(f.X)
			}
		case *ast.ArrayType, *ast.ParenExpr, *ast.StarExpr:
		default:
			c.other("call of " + fmt.Sprintf("%T", x.Fun))
		}
		for _, a := range x.Args {
			c.expr(a)
		}
	case *ast.IndexExpr:
		if isIdent(x.X, "yyDollar") {
			c.dollarIndex(x)
			return
		}
		c.other("index")
		c.expr(x.X)
		c.expr(x.Index)
	case *ast.SliceExpr:
		c.other("slice")
		c.expr(x.X)
		c.expr(x.Low)
		c.expr(x.High)
		c.expr(x.Max)
	case *ast.TypeAssertExpr:
		// yylex.(*Lexer) is the one assertion of the template
		if isIdent(x.X, "yylex") && src(x.Type) == "*Lexer" {
			return
		}
		c.other("type assertion without ok")
		c.expr(x.X)
	case *ast.FuncLit:
		c.other("function literal")
	case *ast.ArrayType, *ast.MapType, *ast.InterfaceType, *ast.StructType, *ast.FuncType, *ast.ChanType, *ast.Ellipsis:
	default:
		die("%s: expression form %T in a semantic action is outside what the classifier knows", fset.Position(e.Pos()), e)
	}
}

// target of a "pure" assignment: yyVAL.f or yylex.(*Lexer).f
func pureTarget(e ast.Expr) bool {
	se, ok := e.(*ast.SelectorExpr)
	if !ok {
		return false
	}
	if isIdent(se.X, "yyVAL") {
		return true
	}
	if ta, ok := se.X.(*ast.TypeAssertExpr); ok && isIdent(ta.X, "yylex") && src(ta.Type) == "*Lexer" {
		return true
	}
	return false
}

func rootIdent(e ast.Expr) string {
	for {
		switch x := e.(type) {
		case *ast.SelectorExpr:
			e = x.X
		case *ast.IndexExpr:
			e = x.X
		case *ast.StarExpr:
			e = x.X
		case *ast.ParenExpr:
			e = x.X
		case *ast.Ident:
			return x.Name
		default:
			return ""
		}
	}
}

func (c *classifier) stmt(s ast.Stmt) {
	switch x := s.(type) {
	case nil:
	case *ast.EmptyStmt:
	case *ast.BlockStmt:
		for _, t := range x.List {
			c.stmt(t)
		}
	case *ast.AssignStmt:
		if x.Tok == token.DEFINE {
			c.other("local variable")
		} else if x.Tok != token.ASSIGN {
			c.other("assignment " + x.Tok.String())
		}
		for _, l := range x.Lhs {
			if x.Tok == token.DEFINE {
				continue
			}
			if pureTarget(l) {
				continue
			}
			switch rootIdent(l) {
			case "yyDollar":
				c.other("writes into yyDollar")
			case "yyVAL":
				c.other("writes below a field of yyVAL")
			case "yylex":
				c.other("writes below a field of the lexer")
			default:
				c.other("assigns a local variable")
			}
			c.expr(l)
		}
		if len(x.Lhs) == 2 && len(x.Rhs) == 1 {
			if ta, ok := x.Rhs[0].(*ast.TypeAssertExpr); ok {
				c.other("type assertion with ok")
				c.expr(ta.X)
				break
			}
		}
		for _, r := range x.Rhs {
			c.expr(r)
		}
	case *ast.DeclStmt:
		c.other("local variable")
		gd, ok := x.Decl.(*ast.GenDecl)
		if !ok {
			die("%s: declaration form in a semantic action", fset.Position(s.Pos()))
		}
		for _, sp := range gd.Specs {
			if vs, ok := sp.(*ast.ValueSpec); ok {
				for _, v := range vs.Values {
					c.expr(v)
				}
			}
		}
	case *ast.IfStmt:
		c.other("if")
		c.stmt(x.Init)
		c.expr(x.Cond)
		c.stmt(x.Body)
		c.stmt(x.Else)
	case *ast.ForStmt:
		c.other("for")
		c.stmt(x.Init)
		c.expr(x.Cond)
		c.stmt(x.Post)
		c.stmt(x.Body)
	case *ast.RangeStmt:
		c.other("for range")
		c.expr(x.X)
		c.stmt(x.Body)
	case *ast.ExprStmt:
		c.other("call statement")
		c.expr(x.X)
	case *ast.IncDecStmt:
		c.other("inc/dec")
		c.expr(x.X)
	case *ast.SwitchStmt:
		c.other("switch")
		c.stmt(x.Init)
		c.expr(x.Tag)
		c.stmt(x.Body)
	case *ast.CaseClause:
		for _, e := range x.List {
			c.expr(e)
		}
		for _, t := range x.Body {
			c.stmt(t)
		}
	case *ast.ReturnStmt, *ast.BranchStmt, *ast.LabeledStmt, *ast.GoStmt, *ast.DeferStmt:
		// would change the control flow of the driver loop itself
		die("%s: `%s` inside a semantic action leaves / re-enters the driver loop; the model has no such edge", fset.Position(s.Pos()), src(s))
	default:
		die("%s: statement form %T in a semantic action is outside what the classifier knows", fset.Position(s.Pos()), s)
	}
}

func classify(sw *ast.SwitchStmt) []action {
	var out []action
	seen := map[int]bool{}
	for _, cc := range sw.Body.List {
		c, ok := cc.(*ast.CaseClause)
		if !ok {
			die("switch yynt: not a case clause")
		}
		if len(c.List) != 1 {
			die("%s: switch yynt: a case with %d values (default clause or list)", fset.Position(c.Pos()), len(c.List))
		}
		num, ok := intLit(c.List[0])
		if !ok || num < 1 || seen[num] {
			die("%s: switch yynt: case label `%s`", fset.Position(c.Pos()), src(c.List[0]))
		}
		seen[num] = true
		if len(c.Body) != 2 {
			die("%s: case %d: want `yyDollar = yyS[…]` followed by one block, got %d statements", fset.Position(c.Pos()), num, len(c.Body))
		}
		w, ok := dollarWindow(c.Body[0])
		if !ok {
			die("%s: case %d: first statement `%s` is not `yyDollar = yyS[yypt-N : yypt+1]`", fset.Position(c.Pos()), num, src(c.Body[0]))
		}
		blk, ok := c.Body[1].(*ast.BlockStmt)
		if !ok {
			die("%s: case %d: second statement is not a block", fset.Position(c.Pos()), num)
		}
		cl := &classifier{why: map[string]bool{}}
		cl.stmt(blk)
		class := "pure"
		if len(cl.why) > 0 {
			var ws []string
			for w := range cl.why {
				ws = append(ws, w)
			}
			sort.Strings(ws)
			class = "other(" + strings.Join(ws, "; ") + ")"
		}
		out = append(out, action{num, w, cl.maxK, class})
	}
	return out
}

// constDeclText: the printed `const (…)` declaration of path that declares name
func constDeclText(path, name string) string {
	f, err := parser.ParseFile(fset, path, nil, 0)
	if err != nil {
		die("%v", err)
	}
	for _, d := range f.Decls {
		gd, ok := d.(*ast.GenDecl)
		if !ok || gd.Tok != token.CONST {
			continue
		}
		for _, sp := range gd.Specs {
			if vs, ok := sp.(*ast.ValueSpec); ok {
				for _, n := range vs.Names {
					if n.Name == name {
						return src(gd)
					}
				}
			}
		}
	}
	die("%s: constant %s not found", path, name)
	return ""
}

// ---------- output ----------

var w strings.Builder

// emitIntArray: one table as a packed number (entry i = bits [16 i, 16 i + 16) minus 32768) and its length; the
// decimal entries are repeated in the doc comment for the reader.
func emitIntArray(name string, xs []int) {
	v := new(big.Int)
	for i := len(xs) - 1; i >= 0; i-- {
		if xs[i] < -32768 || xs[i] > 32767 {
			die("%s[%d] = %d does not fit the 16-bit packing", name, i, xs[i])
		}
		v.Lsh(v, 16)
		v.Or(v, big.NewInt(int64(xs[i]+32768)))
	}
	fmt.Fprintf(&w, "/-- `%s` of parser.go, %d entries:", name, len(xs))
	for i, x := range xs {
		if i%20 == 0 {
			w.WriteString("\n  ")
		}
		fmt.Fprintf(&w, "%d, ", x)
	}
	fmt.Fprintf(&w, "\n-/\ndef %sBits : Nat := 0x%s\ndef %sSize : Nat := %d\n\n", name, v.Text(16), name, len(xs))
}

// emitNatVector: a certificate vector, entry i = bits [16 i, 16 i + 16)
func emitNatVector(name, doc string, xs []int) {
	v := new(big.Int)
	for i := len(xs) - 1; i >= 0; i-- {
		if xs[i] < 0 || xs[i] > 65535 {
			die("%s[%d] = %d does not fit 16 bits", name, i, xs[i])
		}
		v.Lsh(v, 16)
		v.Or(v, big.NewInt(int64(xs[i])))
	}
	fmt.Fprintf(&w, "/-- %s -/\ndef %s : Nat := 0x%s\n\n", doc, name, v.Text(16))
}

func emitStrList(name, doc string, xs []string) {
	fmt.Fprintf(&w, "/-- %s -/\ndef %s : List String := [", doc, name)
	for i, s := range xs {
		if i > 0 {
			w.WriteString(",")
		}
		w.WriteString("\n  " + leanStr(s))
	}
	w.WriteString("]\n\n")
}

var tableNames = []string{"yyExca", "yyAct", "yyPact", "yyPgo", "yyR1", "yyR2", "yyChk", "yyDef", "yyTok1", "yyTok2", "yyTok3"}
var constNames = []string{"yyLast", "yyPrivate", "yyFlag", "yyEofCode", "yyErrCode", "yyInitialStackSize"}

func main() {
	dir := filepath.Join(repo(), "lib", "parser")
	pf := load(filepath.Join(dir, "parser.go"))
	lf := load(filepath.Join(dir, "lexer.go"))

	for _, n := range tableNames {
		if _, ok := pf.intArrays[n]; !ok {
			die("table %s not found in parser.go", n)
		}
	}
	for n := range pf.intArrays {
		known := false
		for _, k := range tableNames {
			known = known || k == n
		}
		if !known {
			die("parser.go has an integer table %s the model does not know", n)
		}
	}
	for _, n := range constNames {
		if _, ok := pf.consts[n]; !ok {
			die("constant %s not found in parser.go", n)
		}
	}
	for n := range pf.consts {
		if strings.HasPrefix(n, "yy") {
			known := false
			for _, k := range constNames {
				known = known || k == n
			}
			if !known {
				die("parser.go has a constant %s the model does not know", n)
			}
		}
	}
	toknames, ok := pf.strArrays["yyToknames"]
	if !ok {
		die("yyToknames not found")
	}
	if sn, ok := pf.strArrays["yyStatenames"]; !ok || len(sn) != 0 {
		die("yyStatenames missing or not empty")
	}
	if !pf.emptyLits["yyErrorMessages"] {
		die("yyErrorMessages missing or not empty (the model does not read it)")
	}
	if pf.consts["yyLast"] != len(pf.intArrays["yyAct"]) {
		die("yyLast = %d but yyAct has %d entries", pf.consts["yyLast"], len(pf.intArrays["yyAct"]))
	}

	drv, ok := pf.funcs["yyParserImpl.Parse"]
	if !ok {
		die("func (yyrcvr *yyParserImpl) Parse not found")
	}
	swIdx, sw := findActionSwitch(drv)
	actions := classify(sw)
	sw.Body = &ast.BlockStmt{Lbrace: sw.Body.Lbrace, Rbrace: sw.Body.Rbrace}
	driver := stmtTexts(drv)
	if !strings.HasPrefix(driver[swIdx+1], "switch yynt {") {
		die("internal: placeholder position")
	}
	driver[swIdx+1] = "switch yynt { /* semantic actions */ }"

	need := func(f *file, name string) *ast.FuncDecl {
		fd, ok := f.funcs[name]
		if !ok {
			die("function %s not found", name)
		}
		return fd
	}

	mode := "tables"
	if len(os.Args) > 1 {
		mode = os.Args[1]
	}
	switch mode {
	case "tables":
		w.WriteString("/- GENERATED by extract/lalr (mode tables) from lib/parser/parser.go — do not edit.\n")
		w.WriteString("   The goyacc tables and constants, packed (entry i of a table = bits [16 i, 16 i + 16) of its number, minus 32768;\n")
		w.WriteString("   the decimal entries are in the doc comments), the token names, and certificates Lean re-checks\n")
		w.WriteString("   (Csvq/Lemmas/LalrCheck.lean): nothing below `maxTok` is trusted. -/\n")
		w.WriteString("namespace Csvq.Gen.Lalr\n\n")
		for _, n := range constNames {
			fmt.Fprintf(&w, "def %s : Int := %d\n", n, pf.consts[n])
		}
		w.WriteString("\n")
		for _, n := range tableNames {
			emitIntArray(n, pf.intArrays[n])
		}
		fmt.Fprintf(&w, "/-- yyToknames (%d names; token number k is entry k-1) -/\ndef yyToknames : Array String := #[", len(toknames))
		for i, s := range toknames {
			if i > 0 {
				w.WriteString(", ")
			}
			if i%8 == 0 {
				w.WriteString("\n  ")
			}
			w.WriteString(leanStr(s))
		}
		w.WriteString("]\n\n")
		w.WriteString("/-- the token constants the scanner returns (`const IDENTIFIER = 57346` …) -/\ndef tokenConsts : List (String × Nat) := [")
		first := true
		for _, n := range pf.constOrd {
			if strings.HasPrefix(n, "yy") {
				continue
			}
			if !first {
				w.WriteString(", ")
			}
			first = false
			fmt.Fprintf(&w, "\n  (%s, %d)", leanStr(n), pf.consts[n])
		}
		w.WriteString("]\n\n")
		if v, ok := lf.consts["unknownCharacter"]; ok {
			fmt.Fprintf(&w, "/-- lexer.go -/\ndef unknownCharacter : Int := %d\n\n", v)
		} else {
			die("constant unknownCharacter not found in lexer.go")
		}
		emitCertificates(pf)
		emitProdRhs(pf, dir)
	case "driver":
		w.WriteString("/- GENERATED by extract/lalr (mode driver) from lib/parser/parser.go, lexer.go, scanner.go — do not edit.\n")
		w.WriteString("   The text of the goyacc driver loop outside the semantic actions, of yylex1 and of the lexer wrapper\n")
		w.WriteString("   (compared with the reviewed copy in Csvq/Ref/Lalr.lean), and the classification of the semantic actions. -/\n")
		w.WriteString("namespace Csvq.Gen.Lalr\n\n")
		emitStrList("driverText", "every top-level statement of `(*yyParserImpl).Parse`, the action switch replaced by a placeholder", driver)
		emitStrList("lex1Text", "`yylex1`", stmtTexts(need(pf, "yylex1")))
		emitStrList("yyParseText", "`yyParse`", stmtTexts(need(pf, "yyParse")))
		emitStrList("parseText", "`Parse` (the exported entry point)", stmtTexts(need(pf, "Parse")))
		emitStrList("lexText", "`(*Lexer).Lex` of lexer.go", stmtTexts(need(lf, "Lexer.Lex")))
		emitStrList("scannerConstText", "the declaration of the scanner's EOF / Uncategorized codes (scanner.go)", []string{constDeclText(filepath.Join(dir, "scanner.go"), "EOF")})
		w.WriteString("/-- the cases of `switch yynt`: (production, N of `yyDollar = yyS[yypt-N : yypt+1]`, largest k of a `yyDollar[k]`, class) -/\n")
		w.WriteString("def actionCases : List (Nat × Nat × Nat × String) := [")
		for i, a := range actions {
			if i > 0 {
				w.WriteString(",")
			}
			fmt.Fprintf(&w, "\n  (%d, %d, %d, %s)", a.num, a.window, a.maxK, leanStr(a.class))
		}
		w.WriteString("]\n\n")
		w.WriteString("/-- the cases whose class is not \"pure\" -/\ndef nonPureActions : List (Nat × String) := [")
		firstNP := true
		for _, a := range actions {
			if a.class == "pure" {
				continue
			}
			if !firstNP {
				w.WriteString(",")
			}
			firstNP = false
			fmt.Fprintf(&w, "\n  (%d, %s)", a.num, leanStr(a.class))
		}
		w.WriteString("]\n\n")
		// yyR2 once more, as a plain list: `actions_window` compares it with the windows above
		w.WriteString("/-- yyR2 as a list (the same numbers as LalrTables.yyR2Bits; theorem driver_r2_eq_tables) -/\ndef r2List : List Nat := [")
		for i, x := range pf.intArrays["yyR2"] {
			if i > 0 {
				w.WriteString(", ")
			}
			if x < 0 {
				die("yyR2[%d] = %d is negative", i, x)
			}
			fmt.Fprintf(&w, "%d", x)
		}
		w.WriteString("]\n\n")
	case "actions":
		emitActions(pf, lf, dir)
	default:
		die("usage: lalr tables|driver|actions")
	}
	w.WriteString("end Csvq.Gen.Lalr\n")
	fmt.Print(w.String())
}
