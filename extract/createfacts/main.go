// createfacts: reads lib/option/flags.go, lib/query/file_info.go, lib/query/query.go and lib/query/transaction.go of
// csvq and prints Csvq/Gen/CreateFacts.lean — how the format and the attributes of a CREATED table are decided and how
// COMMIT writes the file, regenerated from the source:
//   - the extension constants of lib/option (CsvExt …) resolved to their texts;
//   - NewFileInfoForCreate (the CREATE side): the decision from the extension text to the format — a `switch` over the
//     extension or a lookup in a package-level map —, as a table; whether the key is folded to lower case
//     (strings.ToLower(filepath.Ext(p))) or taken as spelled (filepath.Ext(p)); the default; that the decided value
//     is what the returned FileInfo carries;
//   - SearchFilePath (the LOAD side, automatic selection): the same three facts; its default must be the caller's
//     defaultFormat parameter;
//   - Transaction.Commit: for the loop over the created files and the loop over the updated files, every call in source
//     order with its arguments, and the condition under which the ending line break is encoded and written,
//     TRANSLATED into a Lean Bool function of (STRIP_ENDING_LINE_BREAK, format, SingleLine);
//   - the FileInfo.Set… methods (ALTER TABLE … SET): the FileInfo fields each one assigns; SetTableAttribute: which
//     attribute name reaches which setter.
//
// Stdlib only.  Fails loudly (exit 1) on anything outside the shapes it knows.
package main

import (
	"fmt"
	"go/ast"
	"go/parser"
	"go/printer"
	"go/token"
	"os"
	"path/filepath"
	"sort"
	"strconv"
	"strings"
)

var fset = token.NewFileSet()

func die(format string, a ...interface{}) {
	fmt.Fprintf(os.Stderr, "createfacts: "+format+"\n", a...)
	os.Exit(1)
}

func src(n ast.Node) string {
	var sb strings.Builder
	_ = printer.Fprint(&sb, fset, n)
	return strings.Join(strings.Fields(sb.String()), " ")
}

func lit(s string) string {
	return "\"" + strings.ReplaceAll(strings.ReplaceAll(s, "\\", "\\\\"), "\"", "\\\"") + "\""
}

func list(xs []string) string {
	q := make([]string, len(xs))
	for i, x := range xs {
		q[i] = lit(x)
	}
	return "[" + strings.Join(q, ", ") + "]"
}

func parse(path string) *ast.File {
	f, err := parser.ParseFile(fset, path, nil, 0)
	if err != nil {
		die("%v", err)
	}
	return f
}

func fn(f *ast.File, recv, name string) *ast.FuncDecl {
	for _, d := range f.Decls {
		if x, ok := d.(*ast.FuncDecl); ok && x.Name.Name == name {
			if recv == "" && x.Recv == nil {
				return x
			}
			if recv != "" && x.Recv != nil && strings.Contains(src(x.Recv.List[0].Type), recv) {
				return x
			}
		}
	}
	die("%s.%s not found", recv, name)
	return nil
}

// ---- constants of lib/option ----

var extConst = map[string]string{} // CsvExt -> ".csv"
var formats = map[string]bool{}    // CSV, TSV, …

func readOption(f *ast.File) {
	for _, d := range f.Decls {
		g, ok := d.(*ast.GenDecl)
		if !ok || g.Tok != token.CONST {
			continue
		}
		isFormat := false
		for _, s := range g.Specs {
			vs := s.(*ast.ValueSpec)
			if vs.Type != nil && src(vs.Type) == "Format" {
				isFormat = true
			}
			for i, n := range vs.Names {
				if strings.HasSuffix(n.Name, "Ext") && i < len(vs.Values) {
					if bl, ok := vs.Values[i].(*ast.BasicLit); ok && bl.Kind == token.STRING {
						v, err := strconv.Unquote(bl.Value)
						if err != nil {
							die("constant %s: %v", n.Name, err)
						}
						extConst[n.Name] = v
					}
				}
				if isFormat {
					formats[n.Name] = true
				}
			}
		}
	}
	if len(extConst) == 0 || !formats["CSV"] || !formats["FIXED"] {
		die("extension / format constants of lib/option not found")
	}
}

func leanFormat(e ast.Expr) string {
	s := src(e)
	if !strings.HasPrefix(s, "option.") || !formats[s[7:]] || s[7:] == "AutoSelect" {
		die("not a format constant: %s", s)
	}
	return "Format." + strings.ToLower(s[7:])
}

func extText(e ast.Expr) string {
	s := src(e)
	if strings.HasPrefix(s, "option.") {
		if v, ok := extConst[s[7:]]; ok {
			return v
		}
	}
	if bl, ok := e.(*ast.BasicLit); ok && bl.Kind == token.STRING {
		v, err := strconv.Unquote(bl.Value)
		if err == nil {
			return v
		}
	}
	die("not an extension constant: %s", s)
	return ""
}

func leanChars(s string) string {
	var q []string
	for _, r := range s {
		if r == '\'' || r == '\\' || r < 0x20 || r > 0x7e {
			die("extension text outside printable ASCII: %q", s)
		}
		q = append(q, "'"+string(r)+"'")
	}
	return "[" + strings.Join(q, ", ") + "]"
}

// keyFolds analyses the expression the decision is made on: the extension of `pathVar`, folded to lower case or not
func keyFolds(e ast.Expr, pathVar string) bool {
	switch src(e) {
	case "strings.ToLower(filepath.Ext(" + pathVar + "))":
		return true
	case "filepath.Ext(" + pathVar + ")":
		return false
	}
	die("the format is decided on %s — neither filepath.Ext(%s) nor its strings.ToLower", src(e), pathVar)
	return false
}

type decision struct {
	shape   string
	folds   bool
	rows    [][2]string // extension text, Lean format
	dflt    string      // Lean format, or "<parameter>"
	effects []string
}

func (d decision) lean() string {
	var rs []string
	for _, r := range d.rows {
		rs = append(rs, "("+leanChars(r[0])+", "+r[1]+")")
	}
	return fmt.Sprintf("{ folds := %v, table := [%s] }", d.folds, strings.Join(rs, ", "))
}

// assignedFormat: the single `format = <x>` of a case body; the other assignments go to effects
func caseBody(label string, body []ast.Stmt, d *decision, formatVar string) (string, bool) {
	val, found := "", false
	for _, st := range body {
		as, ok := st.(*ast.AssignStmt)
		if !ok || len(as.Lhs) != 1 || len(as.Rhs) != 1 {
			die("statement outside the supported subset in the extension decision: %s", src(st))
		}
		if src(as.Lhs[0]) == formatVar {
			if found {
				die("two assignments to %s in one case", formatVar)
			}
			val, found = src(as.Rhs[0]), true
			continue
		}
		d.effects = append(d.effects, label+": "+src(as))
	}
	return val, found
}

func switchDecision(sw *ast.SwitchStmt, pathVar, formatVar string, params map[string]bool) decision {
	d := decision{shape: "switch", folds: keyFolds(sw.Tag, pathVar)}
	seen := map[string]bool{}
	for _, c := range sw.Body.List {
		cc := c.(*ast.CaseClause)
		label := "default"
		if cc.List != nil {
			var ls []string
			for _, e := range cc.List {
				ls = append(ls, src(e))
			}
			label = strings.Join(ls, ", ")
		}
		v, ok := caseBody(label, cc.Body, &d, formatVar)
		if !ok {
			die("case %s does not decide the format", label)
		}
		if cc.List == nil {
			if params[v] {
				d.dflt = "<parameter>"
			} else {
				d.dflt = leanFormat(mustExpr(v))
			}
			continue
		}
		for _, e := range cc.List {
			t := extText(e)
			if seen[t] {
				die("extension %q decided twice", t)
			}
			seen[t] = true
			d.rows = append(d.rows, [2]string{t, leanFormat(mustExpr(v))})
		}
	}
	if d.dflt == "" {
		die("the extension switch has no default")
	}
	return d
}

func mustExpr(s string) ast.Expr {
	e, err := parser.ParseExpr(s)
	if err != nil {
		die("%v", err)
	}
	return e
}

// mapDecision: `format, ok := M[key]` with M a package-level map literal, followed by `if !ok { format = D }`
func mapDecision(file *ast.File, body []ast.Stmt, pathVar, formatVar string) (decision, bool) {
	for i, st := range body {
		as, ok := st.(*ast.AssignStmt)
		if !ok || len(as.Lhs) != 2 || len(as.Rhs) != 1 || src(as.Lhs[0]) != formatVar {
			continue
		}
		ix, ok := as.Rhs[0].(*ast.IndexExpr)
		if !ok {
			continue
		}
		d := decision{shape: "map", folds: keyFolds(ix.Index, pathVar)}
		okVar := src(as.Lhs[1])
		var ml *ast.CompositeLit
		for _, dd := range file.Decls {
			if g, isG := dd.(*ast.GenDecl); isG && g.Tok == token.VAR {
				for _, s := range g.Specs {
					vs := s.(*ast.ValueSpec)
					for k, n := range vs.Names {
						if n.Name == src(ix.X) && k < len(vs.Values) {
							ml, _ = vs.Values[k].(*ast.CompositeLit)
						}
					}
				}
			}
		}
		if ml == nil || src(ml.Type) != "map[string]option.Format" {
			die("the map %s the format is looked up in is not a package-level map[string]option.Format literal", src(ix.X))
		}
		seen := map[string]bool{}
		for _, el := range ml.Elts {
			kv := el.(*ast.KeyValueExpr)
			t := extText(kv.Key)
			if seen[t] {
				die("extension %q decided twice", t)
			}
			seen[t] = true
			d.rows = append(d.rows, [2]string{t, leanFormat(kv.Value)})
		}
		if i+1 >= len(body) {
			die("no default after the map lookup")
		}
		is, ok := body[i+1].(*ast.IfStmt)
		if !ok || src(is.Cond) != "!"+okVar || is.Else != nil || len(is.Body.List) != 1 {
			die("the statement after the map lookup is not `if !%s { %s = … }`: %s", okVar, formatVar, src(body[i+1]))
		}
		v, found := caseBody("default", is.Body.List, &d, formatVar)
		if !found {
			die("no default format after the map lookup")
		}
		d.dflt = leanFormat(mustExpr(v))
		// what the later statements do per format (delimiter / encoding of the new table)
		for _, st2 := range body[i+2:] {
			if sw, ok := st2.(*ast.SwitchStmt); ok && src(sw.Tag) == formatVar {
				for _, c := range sw.Body.List {
					cc := c.(*ast.CaseClause)
					var ls []string
					for _, e := range cc.List {
						ls = append(ls, src(e))
					}
					for _, s := range cc.Body {
						d.effects = append(d.effects, strings.Join(ls, ", ")+": "+src(s))
					}
				}
			}
		}
		return d, true
	}
	return decision{}, false
}

func createSide(file *ast.File) (decision, bool) {
	f := fn(file, "", "NewFileInfoForCreate")
	// the path the extension is taken from is the result of CreateFilePath
	pathVar := ""
	ast.Inspect(f.Body, func(n ast.Node) bool {
		if as, ok := n.(*ast.AssignStmt); ok && len(as.Rhs) == 1 {
			if c, ok := as.Rhs[0].(*ast.CallExpr); ok && src(c.Fun) == "CreateFilePath" {
				pathVar = src(as.Lhs[0])
			}
		}
		return true
	})
	if pathVar == "" {
		die("NewFileInfoForCreate: no path from CreateFilePath")
	}
	var d decision
	found := false
	for _, st := range f.Body.List {
		if sw, ok := st.(*ast.SwitchStmt); ok && sw.Tag != nil && strings.Contains(src(sw.Tag), "Ext(") {
			d, found = switchDecision(sw, pathVar, "format", nil), true
		}
	}
	if !found {
		d, found = mapDecision(file, f.Body.List, pathVar, "format")
	}
	if !found {
		die("NewFileInfoForCreate: no decision from the extension to the format found (neither a switch over the extension nor a map lookup)")
	}
	// the decided value and the path are what the returned FileInfo carries
	reaches := false
	ast.Inspect(f.Body, func(n ast.Node) bool {
		if cl, ok := n.(*ast.CompositeLit); ok && src(cl.Type) == "FileInfo" {
			hasF, hasP := false, false
			for _, el := range cl.Elts {
				if kv, ok := el.(*ast.KeyValueExpr); ok {
					if src(kv.Key) == "Format" && src(kv.Value) == "format" {
						hasF = true
					}
					if src(kv.Key) == "Path" && src(kv.Value) == pathVar {
						hasP = true
					}
				}
			}
			reaches = hasF && hasP
		}
		return true
	})
	return d, reaches
}

func loadSide(file *ast.File) decision {
	f := fn(file, "", "SearchFilePath")
	params := map[string]bool{}
	for _, p := range f.Type.Params.List {
		if src(p.Type) == "option.Format" {
			for _, n := range p.Names {
				params[n.Name] = true
			}
		}
	}
	var inner *ast.SwitchStmt
	n := 0
	ast.Inspect(f.Body, func(x ast.Node) bool {
		if sw, ok := x.(*ast.SwitchStmt); ok && sw.Tag != nil && strings.Contains(src(sw.Tag), "Ext(") {
			inner = sw
			n++
		}
		return true
	})
	if n != 1 {
		die("SearchFilePath: %d switches over the extension (expected 1)", n)
	}
	// the path the extension is taken from is the one found by SearchFilePathFromAllTypes and returned
	pathVar := "fpath"
	if !strings.Contains(src(f.Body), pathVar+", err = SearchFilePathFromAllTypes(filename, repository)") {
		die("SearchFilePath: the automatic selection no longer takes its path from SearchFilePathFromAllTypes")
	}
	rs := f.Body.List[len(f.Body.List)-1]
	if src(rs) != "return fpath, format, err" {
		die("SearchFilePath returns %s", src(rs))
	}
	d := switchDecision(inner, pathVar, "format", params)
	if d.dflt != "<parameter>" {
		die("SearchFilePath: the default of the automatic selection is not the caller's default format")
	}
	return d
}

// ---- Transaction.Commit ----

var vocab = map[string]string{
	"tx.Flags.ExportOptions.StripEndingLineBreak": "strip",
	"fileInfo.SingleLine":                         "single",
}

func cond(e ast.Expr) string {
	switch x := e.(type) {
	case *ast.ParenExpr:
		return "(" + cond(x.X) + ")"
	case *ast.UnaryExpr:
		if x.Op == token.NOT {
			return "(!" + cond(x.X) + ")"
		}
	case *ast.BinaryExpr:
		switch x.Op {
		case token.LAND:
			return "(" + cond(x.X) + " && " + cond(x.Y) + ")"
		case token.LOR:
			return "(" + cond(x.X) + " || " + cond(x.Y) + ")"
		case token.EQL, token.NEQ:
			l, r := x.X, x.Y
			if src(r) == "fileInfo.Format" {
				l, r = r, l
			}
			if src(l) == "fileInfo.Format" {
				s := "(Format.eqb fmt " + leanFormat(r) + ")"
				if x.Op == token.NEQ {
					return "(!" + s + ")"
				}
				return s
			}
		}
	case *ast.SelectorExpr:
		if v, ok := vocab[src(x)]; ok {
			return v
		}
	}
	die("Transaction.Commit: unsupported condition in front of the ending line break: %s", src(e))
	return ""
}

type loopFacts struct {
	calls []string // "callee(args)" in source order
	tail  string   // Lean Bool expression
	tailW string   // the same for the Write of the encoded line break
}

var skipCall = map[string]bool{"NewSystemError": true, "NewCommitError": true, "err.Error": true, "append": true, "file.VerifPoint": true}

func isErrCheck(e ast.Expr) bool { return src(e) == "err != nil" }

func commitLoop(body *ast.BlockStmt) loopFacts {
	var lf loopFacts
	gotTail, gotW := false, false
	var walk func(n ast.Node, guards []ast.Expr)
	guardText := func(guards []ast.Expr) string {
		if len(guards) == 0 {
			return "true"
		}
		var q []string
		for _, g := range guards {
			q = append(q, cond(g))
		}
		return strings.Join(q, " && ")
	}
	walkExpr := func(n ast.Node, guards []ast.Expr) {
		ast.Inspect(n, func(x ast.Node) bool {
			if _, isFn := x.(*ast.FuncLit); isFn {
				die("Transaction.Commit: function literal inside a commit loop")
			}
			c, ok := x.(*ast.CallExpr)
			if !ok {
				return true
			}
			name := src(c.Fun)
			if skipCall[name] {
				return true
			}
			var as []string
			for _, a := range c.Args {
				as = append(as, src(a))
			}
			lf.calls = append(lf.calls, name+"("+strings.Join(as, ", ")+")")
			if name == "EncodeEndingLineBreak" {
				if gotTail {
					die("Transaction.Commit: the ending line break is encoded twice in one loop")
				}
				lf.tail, gotTail = guardText(guards), true
			}
			if name == "fp.Write" {
				if gotW {
					die("Transaction.Commit: two direct writes in one loop")
				}
				lf.tailW, gotW = guardText(guards), true
			}
			return true
		})
	}
	walk = func(n ast.Node, guards []ast.Expr) {
		switch x := n.(type) {
		case *ast.BlockStmt:
			for _, s := range x.List {
				walk(s, guards)
			}
		case *ast.IfStmt:
			if x.Init != nil {
				walkExpr(x.Init, guards)
			}
			walkExpr(x.Cond, guards)
			if isErrCheck(x.Cond) {
				// the error exits: nothing of interest may happen there
				for _, s := range x.Body.List {
					if _, ok := s.(*ast.ReturnStmt); !ok {
						die("Transaction.Commit: an error branch of a commit loop does more than return: %s", src(s))
					}
				}
				if x.Else != nil {
					die("Transaction.Commit: else branch of an error check inside a commit loop")
				}
				return
			}
			walk(x.Body, append(append([]ast.Expr{}, guards...), x.Cond))
			if x.Else != nil {
				die("Transaction.Commit: else branch inside a commit loop: %s", src(x.Else))
			}
		case *ast.ForStmt, *ast.RangeStmt, *ast.SwitchStmt, *ast.TypeSwitchStmt, *ast.SelectStmt, *ast.GoStmt, *ast.DeferStmt:
			die("Transaction.Commit: control statement outside the supported subset inside a commit loop: %s", src(x))
		default:
			walkExpr(n, guards)
		}
	}
	walk(body, nil)
	if !gotTail {
		lf.tail = "false"
	}
	if !gotW {
		lf.tailW = "false"
	}
	return lf
}

func commitLoops(file *ast.File) (created, updated loopFacts) {
	f := fn(file, "Transaction", "Commit")
	// createdFiles, updatedFiles := tx.UncommittedViews.UncommittedFiles()
	if !strings.Contains(src(f.Body), "createdFiles, updatedFiles := tx.UncommittedViews.UncommittedFiles()") {
		die("Transaction.Commit: the created / updated files no longer come from UncommittedViews.UncommittedFiles()")
	}
	nc, nu := 0, 0
	ast.Inspect(f.Body, func(n ast.Node) bool {
		r, ok := n.(*ast.RangeStmt)
		if !ok {
			return true
		}
		switch src(r.X) {
		case "createdFiles", "updatedFiles":
			if r.Value == nil || src(r.Value) != "fileInfo" {
				die("Transaction.Commit: the loop over %s does not name its element fileInfo", src(r.X))
			}
			if src(r.X) == "createdFiles" {
				created = commitLoop(r.Body)
				nc++
			} else {
				updated = commitLoop(r.Body)
				nu++
			}
			return false
		}
		return true
	})
	if nc != 1 || nu != 1 {
		die("Transaction.Commit: %d loops over createdFiles, %d over updatedFiles (expected one each)", nc, nu)
	}
	return
}

// ---- ALTER TABLE … SET ----

func setters(file *ast.File) []string {
	var out []string
	for _, d := range file.Decls {
		f, ok := d.(*ast.FuncDecl)
		if !ok || f.Recv == nil || !strings.HasPrefix(f.Name.Name, "Set") || !strings.Contains(src(f.Recv.List[0].Type), "FileInfo") {
			continue
		}
		if strings.Contains(f.Name.Name, "Default") {
			continue
		}
		recv := f.Recv.List[0].Names[0].Name
		var fields []string
		seen := map[string]bool{}
		ast.Inspect(f.Body, func(n ast.Node) bool {
			if as, ok := n.(*ast.AssignStmt); ok {
				for _, l := range as.Lhs {
					if se, ok := l.(*ast.SelectorExpr); ok && src(se.X) == recv && !seen[se.Sel.Name] {
						seen[se.Sel.Name] = true
						fields = append(fields, se.Sel.Name)
					}
				}
			}
			return true
		})
		sort.Strings(fields)
		out = append(out, "("+lit(f.Name.Name)+", "+list(fields)+")")
	}
	sort.Strings(out)
	return out
}

func attributeDispatch(file *ast.File) []string {
	f := fn(file, "", "SetTableAttribute")
	var out []string
	ast.Inspect(f.Body, func(n ast.Node) bool {
		cc, ok := n.(*ast.CaseClause)
		if !ok || len(cc.List) != 1 || len(cc.Body) != 1 {
			return true
		}
		as, ok := cc.Body[0].(*ast.AssignStmt)
		if !ok || len(as.Rhs) != 1 {
			return true
		}
		c, ok := as.Rhs[0].(*ast.CallExpr)
		if !ok {
			return true
		}
		se, ok := c.Fun.(*ast.SelectorExpr)
		if !ok || src(se.X) != "fileInfo" || !strings.HasPrefix(se.Sel.Name, "Set") {
			return true
		}
		neg := ""
		if len(c.Args) == 1 && strings.HasPrefix(src(c.Args[0]), "!") {
			neg = "!"
		}
		out = append(out, "("+lit(src(cc.List[0]))+", "+lit(neg+se.Sel.Name)+")")
		return true
	})
	if len(out) == 0 {
		die("SetTableAttribute: no attribute reaches a FileInfo setter")
	}
	return out
}

func main() {
	repo := os.Getenv("VERIF_REPO")
	if repo == "" {
		repo = "/repo"
	}
	readOption(parse(filepath.Join(repo, "lib/option/flags.go")))
	fi := parse(filepath.Join(repo, "lib/query/file_info.go"))
	cd, reaches := createSide(fi)
	ld := loadSide(fi)
	cl, ul := commitLoops(parse(filepath.Join(repo, "lib/query/transaction.go")))
	st := setters(fi)
	qf := parse(filepath.Join(repo, "lib/query/query.go"))
	ad := attributeDispatch(qf)
	ow := optionWrites(repo)
	cas := createdAttrSources(fi, qf)
	rsrc, rov, rtail := resultFacts(parse(filepath.Join(repo, "lib/query/processor.go")))

	var b strings.Builder
	w := func(format string, a ...interface{}) { fmt.Fprintf(&b, format+"\n", a...) }
	w("/- GENERATED by extract/createfacts from lib/option/flags.go, lib/query/file_info.go, lib/query/query.go and")
	w("   lib/query/transaction.go — do not edit. -/")
	w("import Csvq.Model.CreateTable")
	w("namespace Csvq.Gen")
	w("open Csvq.CreateTable")
	w("")
	w("/-- NewFileInfoForCreate: from the extension of the new file to its format (shape of the source: %s) -/", cd.shape)
	w("def createDecision : Decision := %s", cd.lean())
	w("")
	w("/-- … the format of every other extension -/")
	w("def createDefault : Format := %s", cd.dflt)
	w("")
	w("/-- … the decided value and the path it was decided from are the Format / Path of the returned FileInfo -/")
	w("def createDecisionReachesFileInfo : Bool := %v", reaches)
	w("")
	w("/-- … what else the decision sets for the new table -/")
	w("def createEffects : List String := %s", list(cd.effects))
	w("")
	w("/-- SearchFilePath, automatic selection: from the extension of the file found to the format it is loaded with;")
	w("    every other extension is loaded with the caller's default format (a parameter) -/")
	w("def loadDecision : Decision := %s", ld.lean())
	w("")
	for _, x := range []struct {
		n  string
		lf loopFacts
	}{{"created", cl}, {"updated", ul}} {
		w("/-- Transaction.Commit, loop over the %s files: every call in source order -/", x.n)
		w("def %sLoopCalls : List String := %s", x.n, list(x.lf.calls))
		w("")
		w("/-- … the ending line break is encoded exactly when (translated) -/")
		w("def %sLoopTail (strip : Bool) (fmt : Format) (single : Bool) : Bool := %s", x.n, x.lf.tail)
		w("")
		w("/-- … and written exactly when (translated) -/")
		w("def %sLoopTailWrite (strip : Bool) (fmt : Format) (single : Bool) : Bool := %s", x.n, x.lf.tailW)
		w("")
	}
	w("/-- the FileInfo fields every ALTER TABLE … SET setter assigns -/")
	w("def setterWrites : List (String × List String) := [%s]", strings.Join(st, ", "))
	w("")
	w("/-- SetTableAttribute: attribute name constant → setter (`!`: the value is negated on the way) -/")
	w("def attributeSetters : List (String × String) := [%s]", strings.Join(ad, ", "))
	w("")
	w("/-- every function under lib/ that assigns a field of Flags.ExportOptions / Flags.ImportOptions, with the fields (for")
	w("    the methods of *Flags: closed under the *Flags methods they call) -/")
	w("def optionWrites : List (String × List String) := [%s]", strings.Join(ow, ", "))
	w("")
	w("/-- CreateTable: where every field of the new table's FileInfo comes from (`<p> e`: through parameter p of")
	w("    NewFileInfoForCreate, called with e) -/")
	w("def createdAttrSources : List (String × String) := [%s]", strings.Join(cas, ", "))
	w("")
	w("/-- … the fields among them that are taken from a session option: (FileInfo field, option field) -/")
	w("def createdAttrOptionReads : List (String × String) := [%s]", strings.Join(optionReads(cas), ", "))
	w("")
	w("/-- the SELECT that writes a result: the options handed to EncodeView, what is overridden in them, the condition in")
	w("    front of the ending line break -/")
	w("def resultOptionsSource : String := %s", lit(rsrc))
	w("def resultOptionsOverrides : List String := %s", list(rov))
	w("def resultTailCond : String := %s", lit(rtail))
	w("")
	w("end Csvq.Gen")
	fmt.Print(b.String())
}
