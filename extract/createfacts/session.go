// session.go — the SESSION's options as a dimension of created tables and result files:
//   - every assignment to a field of Flags.ExportOptions / Flags.ImportOptions anywhere under lib/, with the function
//     it stands in; for the methods of *Flags the set is closed under calls of other *Flags methods on the same
//     receiver (a format setter that goes through a helper which also assigns Delimiter shows up as a write of
//     Delimiter by the format setter); taking the address of either struct is refused;
//   - CreateTable (lib/query/query.go): where every field of the new table's FileInfo comes from — the arguments of
//     NewFileInfoForCreate followed through its parameters into the FileInfo literal, and the assignments
//     `fileInfo.X = …` behind the call;
//   - Processor.ExecuteStatement (lib/query/processor.go), the SELECT that writes a result: the options value handed to
//     EncodeView, what is overridden in it, the condition in front of the ending line break.
package main

import (
	"go/ast"
	"go/parser"
	"go/token"
	"os"
	"path/filepath"
	"sort"
	"strings"
)

func optionField(e ast.Expr) (string, bool) {
	se, ok := e.(*ast.SelectorExpr)
	if !ok {
		return "", false
	}
	if se.Sel.Name == "ExportOptions" || se.Sel.Name == "ImportOptions" {
		// the whole struct is assigned — unless this is the local field of another struct literal (never the case on
		// the left of an assignment under lib/)
		if _, isSel := se.X.(*ast.SelectorExpr); isSel || isIdent(se.X) {
			return se.Sel.Name + ".*", true
		}
	}
	in, ok := se.X.(*ast.SelectorExpr)
	if !ok {
		return "", false
	}
	if in.Sel.Name == "ExportOptions" || in.Sel.Name == "ImportOptions" {
		return in.Sel.Name + "." + se.Sel.Name, true
	}
	return "", false
}

func isIdent(e ast.Expr) bool { _, ok := e.(*ast.Ident); return ok }

type fnWrites struct {
	pkg, recv, name string
	recvVar         string
	direct          map[string]bool
	calls           []string // methods called on the own receiver
}

func (f fnWrites) qual() string {
	if f.recv != "" {
		return f.pkg + "." + f.recv + "." + f.name
	}
	return f.pkg + "." + f.name
}

func optionWrites(repo string) []string {
	var fns []*fnWrites
	root := filepath.Join(repo, "lib")
	_ = filepath.Walk(root, func(path string, info os.FileInfo, err error) error {
		if err != nil || info.IsDir() || !strings.HasSuffix(path, ".go") || strings.HasSuffix(path, "_test.go") {
			return nil
		}
		f, perr := parser.ParseFile(fset, path, nil, 0)
		if perr != nil {
			die("%v", perr)
		}
		for _, d := range f.Decls {
			fd, ok := d.(*ast.FuncDecl)
			if !ok || fd.Body == nil {
				continue
			}
			fw := &fnWrites{pkg: f.Name.Name, name: fd.Name.Name, direct: map[string]bool{}}
			if fd.Recv != nil && len(fd.Recv.List) == 1 {
				fw.recv = strings.TrimPrefix(src(fd.Recv.List[0].Type), "*")
				if len(fd.Recv.List[0].Names) == 1 {
					fw.recvVar = fd.Recv.List[0].Names[0].Name
				}
			}
			ast.Inspect(fd.Body, func(n ast.Node) bool {
				switch x := n.(type) {
				case *ast.AssignStmt:
					for _, l := range x.Lhs {
						if fld, ok := optionField(l); ok {
							fw.direct[fld] = true
						}
					}
				case *ast.IncDecStmt:
					if fld, ok := optionField(x.X); ok {
						fw.direct[fld] = true
					}
				case *ast.UnaryExpr:
					if x.Op == token.AND {
						s := src(x.X)
						if strings.HasSuffix(s, ".ExportOptions") || strings.HasSuffix(s, ".ImportOptions") ||
							strings.Contains(s, ".ExportOptions.") || strings.Contains(s, ".ImportOptions.") {
							die("%s takes the address of %s: writes through it cannot be listed", fw.qual(), s)
						}
					}
				case *ast.CallExpr:
					if se, ok := x.Fun.(*ast.SelectorExpr); ok && fw.recvVar != "" && src(se.X) == fw.recvVar {
						fw.calls = append(fw.calls, se.Sel.Name)
					}
				}
				return true
			})
			fns = append(fns, fw)
		}
		return nil
	})
	// closure over calls of methods of the same receiver type
	byName := map[string]*fnWrites{}
	for _, f := range fns {
		if f.recv != "" {
			byName[f.pkg+"."+f.recv+"."+f.name] = f
		}
	}
	var closure func(f *fnWrites, seen map[string]bool, out map[string]bool)
	closure = func(f *fnWrites, seen map[string]bool, out map[string]bool) {
		if seen[f.qual()] {
			return
		}
		seen[f.qual()] = true
		for k := range f.direct {
			out[k] = true
		}
		for _, c := range f.calls {
			if g, ok := byName[f.pkg+"."+f.recv+"."+c]; ok {
				closure(g, seen, out)
			}
		}
	}
	var rows []string
	for _, f := range fns {
		out := map[string]bool{}
		closure(f, map[string]bool{}, out)
		if len(out) == 0 {
			continue
		}
		var fs []string
		for k := range out {
			fs = append(fs, k)
		}
		sort.Strings(fs)
		rows = append(rows, "("+lit(f.qual())+", "+list(fs)+")")
	}
	sort.Strings(rows)
	if len(rows) == 0 {
		die("no assignment to a field of ExportOptions / ImportOptions found under lib/")
	}
	return rows
}

// createdAttrSources: FileInfo field of a created table -> the expression it is taken from
func createdAttrSources(fi, q *ast.File) []string {
	nf := fn(fi, "", "NewFileInfoForCreate")
	var params []string
	for _, p := range nf.Type.Params.List {
		for _, n := range p.Names {
			params = append(params, n.Name)
		}
	}
	ct := fn(q, "", "CreateTable")
	alias := map[string]string{}
	var callArgs []string
	fiVar := ""
	var rows []string
	nAssign := 0
	seen := map[string]bool{}
	resolve := func(source string) string {
		for a, full := range alias {
			if strings.HasPrefix(source, a+".") {
				source = full + source[len(a):]
			}
		}
		return strings.TrimPrefix(source, "queryScope.Tx.")
	}
	add := func(field, source string) {
		if seen[field] {
			die("CreateTable: FileInfo.%s of the new table is set twice", field)
		}
		seen[field] = true
		rows = append(rows, "("+lit(field)+", "+lit(source)+")")
	}
	for _, st := range ct.Body.List {
		as, ok := st.(*ast.AssignStmt)
		if !ok {
			if is, isIf := st.(*ast.IfStmt); isIf && isErrCheck(is.Cond) {
				continue
			}
			if fiVar != "" {
				break // the attributes are set between the call and the first statement that is neither an assignment nor an error check
			}
			continue
		}
		if len(as.Lhs) == 1 && len(as.Rhs) == 1 && isIdent(as.Lhs[0]) && as.Tok == token.DEFINE {
			if _, isSel := as.Rhs[0].(*ast.SelectorExpr); isSel {
				alias[src(as.Lhs[0])] = src(as.Rhs[0])
			}
		}
		if len(as.Rhs) == 1 {
			if c, ok := as.Rhs[0].(*ast.CallExpr); ok && src(c.Fun) == "NewFileInfoForCreate" {
				fiVar = src(as.Lhs[0])
				for _, a := range c.Args {
					callArgs = append(callArgs, resolve(src(a)))
				}
				if len(callArgs) != len(params) {
					die("CreateTable: NewFileInfoForCreate called with %d arguments for %d parameters", len(callArgs), len(params))
				}
				// the FileInfo literal of NewFileInfoForCreate
				found := false
				ast.Inspect(nf.Body, func(n ast.Node) bool {
					cl, ok := n.(*ast.CompositeLit)
					if !ok || src(cl.Type) != "FileInfo" {
						return true
					}
					found = true
					for _, el := range cl.Elts {
						kv, ok := el.(*ast.KeyValueExpr)
						if !ok {
							die("NewFileInfoForCreate: positional FileInfo literal")
						}
						v := src(kv.Value)
						for i, p := range params {
							if v == p {
								v = "<" + p + "> " + callArgs[i]
							}
						}
						add(src(kv.Key), v)
					}
					return false
				})
				if !found {
					die("NewFileInfoForCreate: no FileInfo literal")
				}
				continue
			}
		}
		if fiVar != "" && len(as.Lhs) == 1 && len(as.Rhs) == 1 {
			if se, ok := as.Lhs[0].(*ast.SelectorExpr); ok && src(se.X) == fiVar {
				add(se.Sel.Name, resolve(src(as.Rhs[0])))
				nAssign++
			}
		}
	}
	if fiVar == "" {
		die("CreateTable: no call of NewFileInfoForCreate")
	}
	// … and nothing behind that point assigns an attribute of the new table again
	n := 0
	ast.Inspect(ct.Body, func(x ast.Node) bool {
		if as, ok := x.(*ast.AssignStmt); ok {
			for _, l := range as.Lhs {
				if se, ok := l.(*ast.SelectorExpr); ok && src(se.X) == fiVar {
					n++
				}
			}
		}
		return true
	})
	if n != nAssign {
		die("CreateTable: %d assignments to fields of the new FileInfo, %d of them in front of the first other statement", n, nAssign)
	}
	return rows
}

// optionReads: the rows of createdAttrSources whose source mentions Flags.<Export|Import>Options.<field>
func optionReads(rows []string) []string {
	var out []string
	for _, r := range rows {
		i := strings.Index(r, "Flags.")
		if i < 0 {
			continue
		}
		fld := strings.TrimSuffix(r[i+len("Flags."):], "\")")
		if strings.ContainsAny(fld, " ()") {
			die("CreateTable: an attribute of the new table is computed from a session option: %s", r)
		}
		out = append(out, r[:strings.Index(r, ", ")]+", "+lit(fld)+")")
	}
	return out
}

// resultFacts: the SELECT branch of ExecuteStatement that writes a result
func resultFacts(p *ast.File) (source string, overrides []string, tail string) {
	f := fn(p, "Processor", "ExecuteStatement")
	var call *ast.CallExpr
	n := 0
	ast.Inspect(f.Body, func(x ast.Node) bool {
		if c, ok := x.(*ast.CallExpr); ok && src(c.Fun) == "EncodeView" {
			call = c
			n++
		}
		return true
	})
	if n != 1 || len(call.Args) != 5 {
		die("ExecuteStatement: %d calls of EncodeView (expected one with five arguments)", n)
	}
	ov := src(call.Args[3])
	ast.Inspect(f.Body, func(x ast.Node) bool {
		switch s := x.(type) {
		case *ast.AssignStmt:
			if len(s.Lhs) == 1 && len(s.Rhs) == 1 {
				if src(s.Lhs[0]) == ov && s.Tok == token.DEFINE {
					source = src(s.Rhs[0])
				}
				if se, ok := s.Lhs[0].(*ast.SelectorExpr); ok && src(se.X) == ov {
					overrides = append(overrides, src(s))
				}
			}
		case *ast.IfStmt:
			if strings.Contains(src(s.Body), "EncodeEndingLineBreak(") && !strings.Contains(src(s.Cond), "err") {
				tail = src(s.Cond)
			}
		}
		return true
	})
	if source == "" {
		die("ExecuteStatement: the options handed to EncodeView (%s) are not defined by one := ", ov)
	}
	if tail == "" {
		die("ExecuteStatement: no condition in front of the ending line break of a result")
	}
	return
}
