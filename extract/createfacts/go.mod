module createfacts

go 1.18
