module encfacts

go 1.18
