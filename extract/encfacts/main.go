// encfacts: reads lib/query/encode.go, file_info.go and load_view.go of csvq and prints
// Csvq/Gen/EncFacts.lean — the DECISIONS of writing and loading a table file that live in csvq itself
// (the byte-level writers and readers are in the go-text dependency) (property C02):
//
//   - cellQuote / headerQuote   encodeCSV: the Quote flag handed to csv.NewField, as Lean functions
//   - writerOptions             which options reach csv / ltsv / fixedlen NewWriter and the fields set on the writer
//   - convertFieldContents      the body of every case of ConvertFieldContents' type switch (text, effect, alignment)
//   - endingLineBreak           EncodeEndingLineBreak: (formats, encodings) -> the encoding the line break is written in
//   - exportOptionsMap          FileInfo.ExportOptions: which FileInfo attribute overrides which session option
//   - loaderStores              per loader: every store into fileInfo (field, value, guard), in order
//   - Det / scanStep / scan / lineBreak   jsonLineBreakDetector.scan and .LineBreak translated statement by statement
//   - fixedlenMeasure / fixedlenPositions / fixedlenSeparator / fixedlenAlign
//     the measure pass, the running-sum positions, the separating blank and the padding by
//     alignment of the go-text fixedlen writer (read from the module the tree's go.mod pins)
//
// Stdlib only.  Exits 1 on anything outside the subset it translates; calls it does not translate appear as
// source text tokens that the theorems compare with the reviewed ones.
package main

import (
	"fmt"
	"go/ast"
	"go/parser"
	"go/printer"
	"go/token"
	"os"
	"path/filepath"
	"strconv"
	"strings"
)

var fset = token.NewFileSet()

func die(format string, a ...interface{}) {
	fmt.Fprintf(os.Stderr, "encfacts: "+format+"\n", a...)
	os.Exit(1)
}

func src(n ast.Node) string {
	var sb strings.Builder
	_ = printer.Fprint(&sb, fset, n)
	return strings.Join(strings.Fields(sb.String()), " ")
}

func pos(n ast.Node) string { return fset.Position(n.Pos()).String() }

func repo() string {
	if r := os.Getenv("VERIF_REPO"); r != "" {
		return r
	}
	return "/repo"
}

func parse(rel string) *ast.File {
	f, err := parser.ParseFile(fset, filepath.Join(repo(), rel), nil, 0)
	if err != nil {
		die("%v", err)
	}
	return f
}

func findFunc(f *ast.File, recv, name string) *ast.FuncDecl {
	for _, d := range f.Decls {
		fd, ok := d.(*ast.FuncDecl)
		if !ok || fd.Name.Name != name {
			continue
		}
		if recv == "" && fd.Recv == nil {
			return fd
		}
		if recv != "" && fd.Recv != nil && strings.TrimPrefix(src(fd.Recv.List[0].Type), "*") == recv {
			return fd
		}
	}
	die("function %s.%s not found", recv, name)
	return nil
}

func q(s string) string { return strconv.Quote(s) }

func qlist(l []string) string {
	qs := make([]string, len(l))
	for i, s := range l {
		qs[i] = q(s)
	}
	return "[" + strings.Join(qs, ", ") + "]"
}

// ---------- boolean expressions of the quoting decision ----------

// quoteExpr: && || ! ( ), options.<Field> (a Bool parameter), effect == option.<X>Effect,
// strings.ContainsAny(<text>, "<set>") where <text> is the field's text
func quoteExpr(e ast.Expr, textSrc string, params map[string]bool) string {
	switch x := e.(type) {
	case *ast.ParenExpr:
		return "(" + quoteExpr(x.X, textSrc, params) + ")"
	case *ast.BinaryExpr:
		switch x.Op {
		case token.LAND:
			return "(" + quoteExpr(x.X, textSrc, params) + " && " + quoteExpr(x.Y, textSrc, params) + ")"
		case token.LOR:
			return "(" + quoteExpr(x.X, textSrc, params) + " || " + quoteExpr(x.Y, textSrc, params) + ")"
		case token.EQL:
			if src(x.X) == "effect" && strings.HasPrefix(src(x.Y), "option.") {
				return "(effect == " + q(strings.TrimPrefix(src(x.Y), "option.")) + ")"
			}
		}
	case *ast.UnaryExpr:
		if x.Op == token.NOT {
			return "(!" + quoteExpr(x.X, textSrc, params) + ")"
		}
	case *ast.SelectorExpr:
		if src(x.X) == "options" {
			params[x.Sel.Name] = true
			return lowerFirst(x.Sel.Name)
		}
	case *ast.Ident:
		if x.Name == "true" || x.Name == "false" {
			return x.Name
		}
	case *ast.CallExpr:
		if src(x.Fun) == "strings.ContainsAny" && len(x.Args) == 2 && src(x.Args[0]) == textSrc {
			if lit, ok := x.Args[1].(*ast.BasicLit); ok && lit.Kind == token.STRING {
				s, err := strconv.Unquote(lit.Value)
				if err != nil {
					die("%s: %v", pos(lit), err)
				}
				var cs []string
				for _, r := range s {
					cs = append(cs, fmt.Sprintf("Char.ofNat %d", r))
				}
				return "(containsAny str [" + strings.Join(cs, ", ") + "])"
			}
		}
	}
	die("%s: expression `%s` is outside the quoting-decision subset", pos(e), src(e))
	return ""
}

func lowerFirst(s string) string { return strings.ToLower(s[:1]) + s[1:] }

// newFieldCall: the csv.NewField(text, quote) call assigned to fields[…] in a statement list
func newFieldCall(stmts []ast.Stmt) (*ast.CallExpr, int) {
	for i, st := range stmts {
		if as, ok := st.(*ast.AssignStmt); ok && len(as.Rhs) == 1 {
			if c, ok := as.Rhs[0].(*ast.CallExpr); ok && src(c.Fun) == "csv.NewField" && len(c.Args) == 2 {
				return c, i
			}
		}
	}
	return nil, -1
}

func emitQuoting(enc *ast.File) {
	fn := findFunc(enc, "", "encodeCSV")
	var headerLoop, cellLoop *ast.RangeStmt
	ast.Inspect(fn.Body, func(n ast.Node) bool {
		if r, ok := n.(*ast.RangeStmt); ok {
			switch src(r.X) {
			case "view.Header":
				headerLoop = r
			case "view.RecordSet[i]":
				cellLoop = r
			}
		}
		return true
	})
	if headerLoop == nil || cellLoop == nil {
		die("encodeCSV: the loops over view.Header / view.RecordSet[i] were not found")
	}
	// header: fields[i] = csv.NewField(view.Header[i].Column, <expr>)
	hc, _ := newFieldCall(headerLoop.Body.List)
	if hc == nil || len(headerLoop.Body.List) != 1 {
		die("%s: header loop is not a single csv.NewField assignment", pos(headerLoop))
	}
	hp := map[string]bool{}
	hexpr := quoteExpr(hc.Args[1], src(hc.Args[0]), hp)
	if src(hc.Args[0]) != "view.Header[i].Column" || len(hp) != 1 || !hp["EncloseAll"] {
		die("%s: header field `%s` not recognised", pos(hc), src(hc))
	}
	fmt.Printf("/-- encodeCSV: the Quote flag of a header field (text = the column name) -/\ndef headerQuote (encloseAll : Bool) (str : List Char) : Bool :=\n  %s\n\n", hexpr)

	// cells: str, effect, _ := ConvertFieldContents(cell, false, …); quote := false; if C { quote = true } …; fields[j] = csv.NewField(str, quote)
	body := cellLoop.Body.List
	cc, idx := newFieldCall(body)
	if cc == nil || idx != len(body)-1 || src(cc.Args[0]) != "str" || src(cc.Args[1]) != "quote" {
		die("%s: the cell loop does not end in fields[j] = csv.NewField(str, quote)", pos(cellLoop))
	}
	first, ok := body[0].(*ast.AssignStmt)
	if !ok || len(first.Lhs) != 3 || src(first.Lhs[0]) != "str" || src(first.Lhs[1]) != "effect" || !strings.HasPrefix(src(first.Rhs[0]), "ConvertFieldContents(") {
		die("%s: the cell loop does not start with str, effect, _ := ConvertFieldContents(…)", pos(cellLoop))
	}
	call := first.Rhs[0].(*ast.CallExpr)
	if len(call.Args) != 3 || src(call.Args[1]) != "false" {
		die("%s: ConvertFieldContents is not called with forTextTable = false", pos(call))
	}
	cp := map[string]bool{}
	var lines []string
	for _, st := range body[1:idx] {
		switch s := st.(type) {
		case *ast.AssignStmt:
			if len(s.Lhs) == 1 && src(s.Lhs[0]) == "quote" && len(s.Rhs) == 1 {
				lines = append(lines, "  let quote : Bool := "+quoteExpr(s.Rhs[0], "str", cp))
				continue
			}
		case *ast.IfStmt:
			if s.Init == nil && s.Else == nil && len(s.Body.List) == 1 {
				if as, ok := s.Body.List[0].(*ast.AssignStmt); ok && len(as.Lhs) == 1 && src(as.Lhs[0]) == "quote" {
					lines = append(lines, "  let quote : Bool := if "+quoteExpr(s.Cond, "str", cp)+" then "+quoteExpr(as.Rhs[0], "str", cp)+" else quote")
					continue
				}
			}
		}
		die("%s: statement `%s` is outside the quoting-decision subset", pos(st), src(st))
	}
	if len(cp) != 1 || !cp["EncloseAll"] {
		die("encodeCSV: the cell quoting decision uses other options than EncloseAll: %v", cp)
	}
	fmt.Printf("/-- encodeCSV: the Quote flag of a record field (effect, str = ConvertFieldContents of the cell) -/\ndef cellQuote (encloseAll : Bool) (effect : String) (str : List Char) : Bool :=\n%s\n  quote\n\n", strings.Join(lines, "\n"))
}

// ---------- which options reach the writers ----------

func writerFacts(enc *ast.File, fname string) []string {
	fn := findFunc(enc, "", fname)
	var out []string
	ast.Inspect(fn.Body, func(n ast.Node) bool {
		switch x := n.(type) {
		case *ast.CallExpr:
			f := src(x.Fun)
			if strings.HasSuffix(f, ".NewWriter") || strings.HasSuffix(f, ".NewMeasure") {
				var args []string
				for _, a := range x.Args {
					args = append(args, src(a))
				}
				out = append(out, f+"("+strings.Join(args, ", ")+")")
			}
		case *ast.AssignStmt:
			if len(x.Lhs) == 1 && len(x.Rhs) == 1 {
				l := src(x.Lhs[0])
				if strings.HasPrefix(l, "w.") || strings.HasPrefix(l, "m.") || l == "options.DelimiterPositions" {
					out = append(out, l+" = "+src(x.Rhs[0]))
				}
			}
		}
		return true
	})
	return out
}

// ---------- ConvertFieldContents ----------

func emitConvert(enc *ast.File) {
	fn := findFunc(enc, "", "ConvertFieldContents")
	var sw *ast.TypeSwitchStmt
	for _, st := range fn.Body.List {
		if s, ok := st.(*ast.TypeSwitchStmt); ok {
			sw = s
		}
	}
	if sw == nil {
		die("ConvertFieldContents: type switch not found")
	}
	var inits []string
	for _, st := range fn.Body.List {
		if d, ok := st.(*ast.DeclStmt); ok {
			inits = append(inits, src(d))
		}
	}
	var items []string
	for _, c := range sw.Body.List {
		cl := c.(*ast.CaseClause)
		var types []string
		for _, t := range cl.List {
			types = append(types, strings.TrimPrefix(src(t), "*value."))
		}
		var body []string
		for _, st := range cl.Body {
			body = append(body, src(st))
		}
		items = append(items, "("+q(strings.Join(types, ","))+", "+q(strings.Join(body, "; "))+")")
	}
	fmt.Printf("/-- ConvertFieldContents: initial values of text / effect / alignment -/\ndef convertInit : List String :=\n  %s\n\n", qlist(inits))
	fmt.Printf("/-- ConvertFieldContents: (value type, body of its case) -/\ndef convertFieldContents : List (String × String) :=\n  [%s]\n\n", strings.Join(items, ",\n   "))
}

// ---------- EncodeEndingLineBreak ----------

func caseNames(cl *ast.CaseClause, prefix string) []string {
	var out []string
	for _, e := range cl.List {
		s := src(e)
		if !strings.HasPrefix(s, prefix) {
			die("%s: case `%s` not recognised", pos(e), s)
		}
		out = append(out, strings.TrimPrefix(s, prefix))
	}
	return out
}

func emitEnding(enc *ast.File) {
	fn := findFunc(enc, "", "EncodeEndingLineBreak")
	l := fn.Body.List
	if len(l) != 3 || src(l[0]) != "b := []byte(lineBreak.Value())" || src(l[2]) != "return b, nil" {
		die("EncodeEndingLineBreak: body shape not recognised")
	}
	sw, ok := l[1].(*ast.SwitchStmt)
	if !ok || src(sw.Tag) != "format" {
		die("EncodeEndingLineBreak: switch format not found")
	}
	var items []string
	for _, c := range sw.Body.List {
		cl := c.(*ast.CaseClause)
		formats := caseNames(cl, "option.")
		if len(cl.Body) != 1 {
			die("%s: case body not recognised", pos(cl))
		}
		in, ok := cl.Body[0].(*ast.SwitchStmt)
		if !ok || src(in.Tag) != "encoding" {
			die("%s: inner switch encoding not found", pos(cl))
		}
		for _, c2 := range in.Body.List {
			cl2 := c2.(*ast.CaseClause)
			encs := caseNames(cl2, "text.")
			if len(cl2.Body) != 1 {
				die("%s: case body not recognised", pos(cl2))
			}
			r, ok := cl2.Body[0].(*ast.ReturnStmt)
			if !ok || len(r.Results) != 1 {
				die("%s: return not recognised", pos(cl2))
			}
			call, ok := r.Results[0].(*ast.CallExpr)
			if !ok || src(call.Fun) != "text.Encode" || len(call.Args) != 2 || src(call.Args[0]) != "b" || !strings.HasPrefix(src(call.Args[1]), "text.") {
				die("%s: `%s` not recognised", pos(r), src(r))
			}
			items = append(items, "("+qlist(formats)+", "+qlist(encs)+", "+q(strings.TrimPrefix(src(call.Args[1]), "text."))+")")
		}
	}
	fmt.Printf("/-- EncodeEndingLineBreak: for these formats and encodings the line break is written in that encoding; raw bytes otherwise -/\ndef endingLineBreak : List (List String × List String × String) :=\n  [%s]\n\n", strings.Join(items, ",\n   "))
}

// ---------- FileInfo.ExportOptions ----------

func emitExportOptions(fi *ast.File) {
	fn := findFunc(fi, "FileInfo", "ExportOptions")
	l := fn.Body.List
	if len(l) < 2 || src(l[0]) != "ops := tx.Flags.ExportOptions.Copy()" || src(l[len(l)-1]) != "return ops" {
		die("ExportOptions: does not start from a copy of the session's export options and return it")
	}
	var items, overrides []string
	assigned := map[string]bool{}
	overridden := map[string]bool{}
	for _, st := range l[1 : len(l)-1] {
		if ifs, ok := st.(*ast.IfStmt); ok {
			// if f.<flag> { ops.<Option> = nil | true | false }: an attribute that is withheld from the writer, after
			// the unconditional assignment of the same option
			if ifs.Init != nil || ifs.Else != nil || len(ifs.Body.List) != 1 || !strings.HasPrefix(src(ifs.Cond), "f.") || strings.ContainsAny(src(ifs.Cond), " (&|!") {
				die("%s: statement `%s` is not if f.<flag> { ops.<Option> = nil | true | false }", pos(st), src(st))
			}
			as, ok := ifs.Body.List[0].(*ast.AssignStmt)
			if !ok || as.Tok != token.ASSIGN || len(as.Lhs) != 1 || len(as.Rhs) != 1 || !strings.HasPrefix(src(as.Lhs[0]), "ops.") {
				die("%s: statement `%s` is not if f.<flag> { ops.<Option> = nil | true | false }", pos(st), src(st))
			}
			opt, v := strings.TrimPrefix(src(as.Lhs[0]), "ops."), src(as.Rhs[0])
			if v != "nil" && v != "true" && v != "false" {
				die("%s: the value `%s` of a conditional override is not nil | true | false", pos(as), v)
			}
			if !assigned[opt] {
				die("%s: the override of ops.%s comes before its unconditional assignment", pos(as), opt)
			}
			overridden[opt] = true
			overrides = append(overrides, "("+q(opt)+", "+q(src(ifs.Cond))+", "+q(v)+")")
			continue
		}
		as, ok := st.(*ast.AssignStmt)
		if !ok || len(as.Lhs) != 1 || len(as.Rhs) != 1 || !strings.HasPrefix(src(as.Lhs[0]), "ops.") {
			die("%s: statement `%s` is not ops.<Option> = f.<Attribute> | true | false", pos(st), src(st))
		}
		rhs := src(as.Rhs[0])
		switch {
		case strings.HasPrefix(rhs, "f."):
			rhs = strings.TrimPrefix(rhs, "f.")
		case rhs == "false" || rhs == "true":
			rhs = "const " + rhs // a session option a FILE never takes over (terminal colours)
		default:
			die("%s: statement `%s` is not ops.<Option> = f.<Attribute> | true | false", pos(st), src(st))
		}
		opt := strings.TrimPrefix(src(as.Lhs[0]), "ops.")
		if overridden[opt] {
			die("%s: ops.%s is assigned again after its conditional override", pos(as), opt)
		}
		assigned[opt] = true
		items = append(items, "("+q(opt)+", "+q(rhs)+")")
	}
	fmt.Printf("/-- FileInfo.ExportOptions: (export option, FileInfo attribute that overrides the session's value), unconditionally, in order -/\ndef exportOptionsMap : List (String × String) :=\n  [%s]\n\n", strings.Join(items, ", "))
	fmt.Printf("/-- FileInfo.ExportOptions: what is withheld from the writer AFTER the unconditional mapping: (export option, condition on the FileInfo, value) -/\ndef exportOptionsOverrides : List (String × String × String) :=\n  [%s]\n\n", strings.Join(overrides, ", "))
}

// ---------- every store into the delimiter positions of a FileInfo, and the flag next to it ----------

func emitPositionStores() {
	dir := filepath.Join(repo(), "lib/query")
	ents, err := os.ReadDir(dir)
	if err != nil {
		die("%v", err)
	}
	var items []string
	for _, e := range ents {
		if !strings.HasSuffix(e.Name(), ".go") || strings.HasSuffix(e.Name(), "_test.go") {
			continue
		}
		f := parse("lib/query/" + e.Name())
		for _, d := range f.Decls {
			fn, ok := d.(*ast.FuncDecl)
			if !ok || fn.Body == nil {
				continue
			}
			// blocks, so that the flag store is looked for next to the positions store
			ast.Inspect(fn.Body, func(n ast.Node) bool {
				blk, ok := n.(*ast.BlockStmt)
				if !ok {
					return true
				}
				flag := ""
				var stores []string
				for _, st := range blk.List {
					as, ok := st.(*ast.AssignStmt)
					if !ok {
						continue
					}
					for _, lh := range as.Lhs {
						sel, ok := lh.(*ast.SelectorExpr)
						if !ok {
							continue
						}
						base := src(sel.X)
						switch sel.Sel.Name {
						case "DelimiterPositions":
							if base == "ops" || base == "options" {
								continue // ExportOptions / ImportOptions values, not a FileInfo
							}
							stores = append(stores, src(as))
						case "positionsDetected":
							if flag != "" {
								die("%s: two stores into positionsDetected in one block", pos(as))
							}
							flag = src(as)
						}
					}
				}
				if flag != "" && len(stores) == 0 {
					die("%s: `%s` without a store into DelimiterPositions in the same block", pos(blk), flag)
				}
				for _, s := range stores {
					items = append(items, "("+q(fn.Name.Name)+", "+q(s)+", "+q(flag)+")")
				}
				return true
			})
		}
	}
	fmt.Printf("/-- every store into the DelimiterPositions of a FileInfo in lib/query: (function, statement, the store into\n    positionsDetected next to it in the same block, \"\" = none) -/\ndef fileInfoPositionStores : List (String × String × String) :=\n  [%s]\n\n", strings.Join(items, ",\n   "))
}

// ---------- the loaders' stores into fileInfo ----------

func definition(fn *ast.FuncDecl, name string) string {
	def := ""
	ast.Inspect(fn.Body, func(n ast.Node) bool {
		if as, ok := n.(*ast.AssignStmt); ok && as.Tok == token.DEFINE && len(as.Rhs) == 1 {
			for _, l := range as.Lhs {
				if src(l) == name && def == "" {
					def = src(as.Rhs[0])
				}
			}
		}
		return true
	})
	return def
}

// the statement after which the records / the JSON text have been read: a store that needs what the reader
// detected while reading them must come after it
var readMarks = []string{"readRecordSet(", "json.LoadTable(", "wg.Wait()"}

func stores(fn *ast.FuncDecl) []string {
	var items []string
	phase := "before the records are read"
	var walk func(stmts []ast.Stmt, guard string)
	walk = func(stmts []ast.Stmt, guard string) {
		for _, st := range stmts {
			if _, isIf := st.(*ast.IfStmt); !isIf {
				for _, m := range readMarks {
					if strings.Contains(src(st), m) {
						phase = "after the records are read"
					}
				}
			}
			switch s := st.(type) {
			case *ast.AssignStmt:
				if len(s.Lhs) == 1 && strings.HasPrefix(src(s.Lhs[0]), "fileInfo.") && len(s.Rhs) == 1 {
					rhs := src(s.Rhs[0])
					if id, ok := s.Rhs[0].(*ast.Ident); ok {
						if d := definition(fn, id.Name); d != "" {
							rhs = id.Name + " := " + d
						}
					}
					items = append(items, "("+q(strings.TrimPrefix(src(s.Lhs[0]), "fileInfo."))+", "+q(rhs)+", "+q(guard)+", "+q(phase)+")")
				}
			case *ast.IfStmt:
				g := src(s.Cond)
				if s.Init != nil {
					g = src(s.Init) + "; " + g
				}
				if guard != "" {
					g = guard + " && " + g
				}
				walk(s.Body.List, g)
				if s.Else != nil {
					if b, ok := s.Else.(*ast.BlockStmt); ok {
						walk(b.List, "!("+g+")")
					} else {
						walk([]ast.Stmt{s.Else}, "!("+g+")")
					}
				}
			case *ast.BlockStmt:
				walk(s.List, guard)
			case *ast.ForStmt, *ast.RangeStmt, *ast.SwitchStmt, *ast.TypeSwitchStmt, *ast.GoStmt, *ast.DeferStmt, *ast.SelectStmt:
				// a store into fileInfo inside one of these is outside the subset
				ast.Inspect(s, func(n ast.Node) bool {
					if as, ok := n.(*ast.AssignStmt); ok {
						for _, l := range as.Lhs {
							if strings.HasPrefix(src(l), "fileInfo.") {
								die("%s: store `%s` inside a loop / switch / closure is outside the subset", pos(as), src(as))
							}
						}
					}
					return true
				})
			}
		}
	}
	walk(fn.Body.List, "")
	return items
}

// every call in the loader that is handed fileInfo itself (it could store into it)
func fileInfoEscapes(fn *ast.FuncDecl) []string {
	var out []string
	ast.Inspect(fn.Body, func(n ast.Node) bool {
		if c, ok := n.(*ast.CallExpr); ok {
			for _, a := range c.Args {
				if src(a) == "fileInfo" {
					out = append(out, src(c.Fun))
				}
			}
		}
		return true
	})
	return out
}

func emitLoaders(lv *ast.File) {
	var items []string
	for _, name := range []string{"loadViewFromCSVFile", "loadViewFromFixedLengthTextFile", "loadViewFromLTSVFile", "loadViewFromJsonFile", "loadViewFromJsonLinesFile"} {
		fn := findFunc(lv, "", name)
		if esc := fileInfoEscapes(fn); len(esc) > 0 {
			die("%s hands fileInfo to %v: stores made there are outside the subset", name, esc)
		}
		items = append(items, "("+q(name)+", ["+strings.Join(stores(fn), ", ")+"])")
	}
	fmt.Printf("/-- the loaders: every store into fileInfo as (attribute, value, guard, before / after the records are read), in order -/\ndef loaderStores : List (String × List (String × String × String × String)) :=\n  [%s]\n\n", strings.Join(items, ",\n   "))
}

// ---------- jsonLineBreakDetector ----------

var detFields = map[string]string{"detected": "String", "inString": "Bool", "escaped": "Bool", "pendingCR": "Bool"}

func detValue(e ast.Expr) string {
	switch x := e.(type) {
	case *ast.Ident:
		if x.Name == "true" || x.Name == "false" {
			return x.Name
		}
	case *ast.SelectorExpr:
		if src(x.X) == "text" {
			return q(x.Sel.Name)
		}
		if src(x.X) == "d" {
			if _, ok := detFields[x.Sel.Name]; ok {
				return "d." + x.Sel.Name
			}
		}
	case *ast.BasicLit:
		if x.Kind == token.STRING {
			s, _ := strconv.Unquote(x.Value)
			return q(s)
		}
	}
	die("%s: value `%s` is outside the detector subset", pos(e), src(e))
	return ""
}

func detCond(e ast.Expr) string {
	switch x := e.(type) {
	case *ast.ParenExpr:
		return "(" + detCond(x.X) + ")"
	case *ast.SelectorExpr:
		if src(x.X) == "d" && detFields[x.Sel.Name] == "Bool" {
			return "d." + x.Sel.Name
		}
	case *ast.UnaryExpr:
		if x.Op == token.NOT {
			return "(!" + detCond(x.X) + ")"
		}
	case *ast.BinaryExpr:
		switch x.Op {
		case token.LAND:
			return "(" + detCond(x.X) + " && " + detCond(x.Y) + ")"
		case token.LOR:
			return "(" + detCond(x.X) + " || " + detCond(x.Y) + ")"
		case token.EQL, token.NEQ:
			op := " == "
			if x.Op == token.NEQ {
				op = " != "
			}
			if src(x.X) == "c" {
				if lit, ok := x.Y.(*ast.BasicLit); ok && lit.Kind == token.CHAR {
					r, _, _, err := strconv.UnquoteChar(lit.Value[1:len(lit.Value)-1], '\'')
					if err != nil {
						die("%s: %v", pos(lit), err)
					}
					return fmt.Sprintf("(c%s%d)", op, r)
				}
			}
			if src(x.X) == "d.detected" {
				return "(d.detected" + op + detValue(x.Y) + ")"
			}
		}
	}
	die("%s: condition `%s` is outside the detector subset", pos(e), src(e))
	return ""
}

// detStmts: statements of the loop body -> a Lean expression of type Det × Bool (state, "return reached"),
// `rest` = what follows the statement list
func detStmts(stmts []ast.Stmt, rest string, ind string) string {
	if len(stmts) == 0 {
		return rest
	}
	st, tail := stmts[0], stmts[1:]
	after := detStmts(tail, rest, ind)
	switch s := st.(type) {
	case *ast.ReturnStmt:
		if len(s.Results) != 0 {
			die("%s: return with a value", pos(s))
		}
		return "(d, true)"
	case *ast.AssignStmt:
		if len(s.Lhs) == 1 && len(s.Rhs) == 1 && s.Tok == token.ASSIGN && strings.HasPrefix(src(s.Lhs[0]), "d.") {
			f := strings.TrimPrefix(src(s.Lhs[0]), "d.")
			if _, ok := detFields[f]; ok {
				return "let d : Det := { d with " + f + " := " + detValue(s.Rhs[0]) + " }\n" + ind + after
			}
		}
	case *ast.IfStmt:
		if s.Init == nil {
			els := after
			if s.Else != nil {
				switch e := s.Else.(type) {
				case *ast.BlockStmt:
					els = detStmts(e.List, after, ind+"  ")
				case *ast.IfStmt:
					els = detStmts([]ast.Stmt{e}, after, ind+"  ")
				}
			}
			return "if " + detCond(s.Cond) + " then\n" + ind + "  " + detStmts(s.Body.List, after, ind+"  ") + "\n" + ind + "else\n" + ind + "  " + els
		}
	case *ast.SwitchStmt:
		if s.Init == nil && s.Tag == nil {
			out := after
			// build from the last case backwards
			for i := len(s.Body.List) - 1; i >= 0; i-- {
				cl := s.Body.List[i].(*ast.CaseClause)
				if len(cl.List) == 0 {
					if i != len(s.Body.List)-1 {
						die("%s: default is not the last case", pos(cl))
					}
					out = detStmts(cl.Body, after, ind+"  ")
					continue
				}
				var cs []string
				for _, c := range cl.List {
					cs = append(cs, detCond(c))
				}
				out = "if " + strings.Join(cs, " || ") + " then\n" + ind + "  " + detStmts(cl.Body, after, ind+"  ") + "\n" + ind + "else\n" + ind + "  " + out
			}
			return out
		}
	}
	die("%s: statement `%s` is outside the detector subset", pos(st), src(st))
	return ""
}

func emitDetector(lv *ast.File) {
	// the fields
	var ts *ast.StructType
	for _, d := range lv.Decls {
		if g, ok := d.(*ast.GenDecl); ok {
			for _, sp := range g.Specs {
				if t, ok := sp.(*ast.TypeSpec); ok && t.Name.Name == "jsonLineBreakDetector" {
					ts, _ = t.Type.(*ast.StructType)
				}
			}
		}
	}
	if ts == nil {
		die("type jsonLineBreakDetector not found")
	}
	seen := map[string]bool{}
	for _, f := range ts.Fields.List {
		for _, n := range f.Names {
			switch n.Name {
			case "reader":
			case "detected":
				if src(f.Type) != "text.LineBreak" {
					die("jsonLineBreakDetector.detected is not a text.LineBreak")
				}
				seen[n.Name] = true
			default:
				if detFields[n.Name] != "Bool" || src(f.Type) != "bool" {
					die("jsonLineBreakDetector: field %s %s is outside the subset", n.Name, src(f.Type))
				}
				seen[n.Name] = true
			}
		}
	}
	if len(seen) != 4 {
		die("jsonLineBreakDetector: expected the state fields detected, inString, escaped, pendingCR")
	}
	fmt.Printf("/-- the state of jsonLineBreakDetector (detected: \"\" | \"LF\" | \"CRLF\" | \"CR\", the names of go-text's constants) -/\nstructure Det where\n  detected : String := \"\"\n  inString : Bool := false\n  escaped : Bool := false\n  pendingCR : Bool := false\n  deriving DecidableEq, Repr\n\n")

	scan := findFunc(lv, "jsonLineBreakDetector", "scan")
	l := scan.Body.List
	if len(l) != 2 {
		die("jsonLineBreakDetector.scan: expected a guard and a loop")
	}
	guard, ok := l[0].(*ast.IfStmt)
	if !ok || guard.Else != nil || len(guard.Body.List) != 1 || src(guard.Body.List[0]) != "return" {
		die("jsonLineBreakDetector.scan: leading guard not recognised")
	}
	loop, ok := l[1].(*ast.RangeStmt)
	if !ok || src(loop.X) != "b" || src(loop.Value) != "c" || src(loop.Key) != "_" {
		die("jsonLineBreakDetector.scan: loop `for _, c := range b` not found")
	}
	fmt.Printf("/-- one pass of the loop body of jsonLineBreakDetector.scan: the new state, and whether `return` was reached -/\ndef scanStep (d : Det) (c : Nat) : Det × Bool :=\n  %s\n\n", detStmts(loop.Body.List, "(d, false)", "  "))
	fmt.Printf("def scanLoop : Det → List Nat → Det\n  | d, [] => d\n  | d, c :: cs =>\n    match scanStep d c with\n    | (d', true) => d'\n    | (d', false) => scanLoop d' cs\n\n")
	fmt.Printf("/-- jsonLineBreakDetector.scan -/\ndef scan (d : Det) (b : List Nat) : Det :=\n  if %s then d else scanLoop d b\n\n", detCond(guard.Cond))

	lb := findFunc(lv, "jsonLineBreakDetector", "LineBreak")
	ll := lb.Body.List
	if len(ll) != 2 {
		die("jsonLineBreakDetector.LineBreak: body shape not recognised")
	}
	is, ok := ll[0].(*ast.IfStmt)
	r2, ok2 := ll[1].(*ast.ReturnStmt)
	if !ok || !ok2 || is.Else != nil || len(is.Body.List) != 1 || len(r2.Results) != 1 {
		die("jsonLineBreakDetector.LineBreak: body shape not recognised")
	}
	r1, ok := is.Body.List[0].(*ast.ReturnStmt)
	if !ok || len(r1.Results) != 1 {
		die("jsonLineBreakDetector.LineBreak: body shape not recognised")
	}
	fmt.Printf("/-- jsonLineBreakDetector.LineBreak -/\ndef lineBreak (d : Det) : String :=\n  if %s then %s else %s\n\n", detCond(is.Cond), detValue(r1.Results[0]), detValue(r2.Results[0]))

	// how the loaders use it
	var uses []string
	for _, name := range []string{"loadViewFromJsonFile", "loadViewFromJsonLinesFile"} {
		fn := findFunc(lv, "", name)
		ast.Inspect(fn.Body, func(n ast.Node) bool {
			switch x := n.(type) {
			case *ast.CompositeLit:
				if strings.HasSuffix(src(x.Type), "jsonLineBreakDetector") {
					uses = append(uses, name+": "+src(x))
				}
			case *ast.CallExpr:
				if strings.HasPrefix(src(x.Fun), "lineBreakDetector.") || (len(x.Args) == 1 && src(x.Args[0]) == "lineBreakDetector") {
					uses = append(uses, name+": "+src(x))
				}
			}
			return true
		})
	}
	fmt.Printf("/-- where the detector gets its bytes from -/\ndef detectorUses : List String :=\n  %s\n\n", qlist(uses))
	rd := findFunc(lv, "jsonLineBreakDetector", "Read")
	var rs []string
	for _, st := range rd.Body.List {
		rs = append(rs, src(st))
	}
	fmt.Printf("/-- jsonLineBreakDetector.Read -/\ndef detectorRead : List String :=\n  %s\n\n", qlist(rs))
}

// ---------- go-text/fixedlen: widths, positions, padding (the pinned dependency) ----------

// goTextDir: the directory of the go-text module version named in the tree's go.mod
func goTextDir() string {
	b, err := os.ReadFile(filepath.Join(repo(), "go.mod"))
	if err != nil {
		die("%v", err)
	}
	ver := ""
	for _, l := range strings.Split(string(b), "\n") {
		f := strings.Fields(l)
		for i, w := range f {
			if w == "github.com/mithrandie/go-text" && i+1 < len(f) {
				ver = f[i+1]
			}
		}
	}
	if ver == "" {
		die("go.mod does not name github.com/mithrandie/go-text")
	}
	var roots []string
	if c := os.Getenv("GOMODCACHE"); c != "" {
		roots = append(roots, c)
	}
	if g := os.Getenv("GOPATH"); g != "" {
		roots = append(roots, filepath.Join(g, "pkg", "mod"))
	}
	if h, err := os.UserHomeDir(); err == nil {
		roots = append(roots, filepath.Join(h, "go", "pkg", "mod"))
	}
	roots = append(roots, "/root/go/pkg/mod")
	for _, r := range roots {
		d := filepath.Join(r, "github.com", "mithrandie", "go-text@"+ver)
		if st, err := os.Stat(d); err == nil && st.IsDir() {
			return d
		}
	}
	die("module github.com/mithrandie/go-text@%s not found in the module cache", ver)
	return ""
}

func parseAbs(path string) *ast.File {
	f, err := parser.ParseFile(fset, path, nil, 0)
	if err != nil {
		die("%v", err)
	}
	return f
}

// the statements of the one `for … range` loop of fn
func rangeBody(fn *ast.FuncDecl) []string {
	var out []string
	found := 0
	ast.Inspect(fn.Body, func(n ast.Node) bool {
		if r, ok := n.(*ast.RangeStmt); ok && found == 0 {
			found++
			for _, st := range r.Body.List {
				out = append(out, src(st))
			}
			return false
		}
		return true
	})
	if found != 1 {
		die("%s: expected one range loop (%s)", fn.Name.Name, pos(fn))
	}
	return out
}

func emitFixedlen() {
	dir := goTextDir()
	measure := parseAbs(filepath.Join(dir, "fixedlen", "measure.go"))
	writer := parseAbs(filepath.Join(dir, "fixedlen", "writer.go"))
	fmt.Printf("/-- go-text fixedlen `Measure.Measure`: per field of a record, the width of its column so far and the byte size of the text -/\ndef fixedlenMeasure : List String :=\n  %s\n\n",
		qlist(rangeBody(findFunc(measure, "Measure", "Measure"))))
	fmt.Printf("/-- `Measure.GeneratePositions`: the running sums of the widths -/\ndef fixedlenPositions : List String :=\n  %s\n\n",
		qlist(rangeBody(findFunc(measure, "Measure", "GeneratePositions"))))
	// Writer.Write: the separating pad character
	wr := findFunc(writer, "Writer", "Write")
	var sep []string
	ast.Inspect(wr.Body, func(n ast.Node) bool {
		if ifs, ok := n.(*ast.IfStmt); ok && strings.Contains(src(ifs.Cond), "InsertSpace") {
			sep = append(sep, src(ifs.Cond))
			ast.Inspect(ifs.Body, func(m ast.Node) bool {
				if c, ok := m.(*ast.CallExpr); ok && strings.HasPrefix(src(c.Fun), "e.writer.") {
					sep = append(sep, src(c))
				}
				return true
			})
			return false
		}
		return true
	})
	if len(sep) != 2 {
		die("Writer.Write: the InsertSpace branch is not `if … { e.writer.WriteByte(…) }` (%s)", pos(wr))
	}
	fmt.Printf("/-- `Writer.Write`: when, and what, is written between two fields -/\ndef fixedlenSeparator : List String :=\n  %s\n\n", qlist(sep))
	// addField: per alignment, what is written in which order
	af := findFunc(writer, "Writer", "addField")
	var sw *ast.SwitchStmt
	var pre []string
	for _, st := range af.Body.List {
		switch x := st.(type) {
		case *ast.SwitchStmt:
			sw = x
		case *ast.AssignStmt:
			pre = append(pre, src(x))
		case *ast.IfStmt:
			pre = append(pre, "if "+src(x.Cond)+" { error }")
		}
	}
	if sw == nil || src(sw.Tag) != "field.Alignment" {
		die("addField: no switch on field.Alignment (%s)", pos(af))
	}
	var cases []string
	for _, c := range sw.Body.List {
		cl := c.(*ast.CaseClause)
		label := "default"
		if len(cl.List) > 0 {
			label = strings.Join(caseNames(cl, ""), "|")
		}
		var writes []string
		for _, st := range cl.Body {
			ast.Inspect(st, func(m ast.Node) bool {
				switch y := m.(type) {
				case *ast.CallExpr:
					if strings.HasPrefix(src(y.Fun), "e.writer.") && len(y.Args) == 1 {
						writes = append(writes, src(y.Args[0]))
						return false
					}
				case *ast.AssignStmt:
					if len(y.Lhs) == 1 && len(y.Rhs) == 1 {
						if _, isCall := y.Rhs[0].(*ast.CallExpr); !isCall {
							writes = append(writes, src(y))
						}
					}
				}
				return true
			})
		}
		cases = append(cases, "("+q(label)+", "+qlist(writes)+")")
	}
	fmt.Printf("/-- `Writer.addField`: the size test, then per alignment what is written in which order -/\ndef fixedlenFit : List String :=\n  %s\n\ndef fixedlenAlign : List (String × List String) :=\n  [%s]\n\n",
		qlist(pre), strings.Join(cases, ",\n   "))
}

// ---------- what reaches the position detection and the record reader of the fixed-length loader ----------

// srcTerm: where the bytes of an io.Reader expression come from, as a Csvq.Gen.Enc.LoaderSrc term
func srcTerm(fn *ast.FuncDecl, e ast.Expr, depth int) string {
	if depth > 8 {
		die("%s: definition chain of `%s` is too long", pos(e), src(e))
	}
	id, ok := e.(*ast.Ident)
	if !ok {
		die("%s: reader argument `%s` is not a variable (outside the subset)", pos(e), src(e))
	}
	if id.Name == "fp" {
		for _, f := range fn.Type.Params.List {
			for _, n := range f.Names {
				if n.Name == "fp" && src(f.Type) == "*file.Reader" {
					return ".file"
				}
			}
		}
		die("%s: `fp` is not the *file.Reader parameter of the loader", pos(e))
	}
	var rhs ast.Expr
	count := 0
	ast.Inspect(fn.Body, func(n ast.Node) bool {
		if as, ok := n.(*ast.AssignStmt); ok && len(as.Rhs) == 1 {
			for _, l := range as.Lhs {
				if src(l) == id.Name {
					count++
					rhs = as.Rhs[0]
					if as.Tok != token.DEFINE {
						die("%s: `%s` is assigned more than once / not by := (outside the subset)", pos(as), id.Name)
					}
				}
			}
		}
		return true
	})
	if count != 1 {
		die("%s: `%s` has %d definitions (outside the subset)", pos(e), id.Name, count)
	}
	call, ok := rhs.(*ast.CallExpr)
	if !ok {
		die("%s: `%s` is not defined by a call (outside the subset)", pos(rhs), id.Name)
	}
	switch src(call.Fun) {
	case "fp.HeadBytes":
		if len(call.Args) == 0 {
			return ".head"
		}
	case "io.ReadAll":
		if len(call.Args) == 1 {
			return ".readAll (" + srcTerm(fn, call.Args[0], depth+1) + ")"
		}
	case "bytes.NewReader":
		if len(call.Args) == 1 {
			return ".bytesReader (" + srcTerm(fn, call.Args[0], depth+1) + ")"
		}
	}
	die("%s: `%s := %s` is none of fp.HeadBytes() / io.ReadAll(x) / bytes.NewReader(x) (outside the subset)", pos(rhs), id.Name, src(rhs))
	return ""
}

func emitFixedSources(lv *ast.File) {
	// the head the file.Reader keeps
	lf := findFunc(lv, "", "loadViewFromFile")
	headLen := ""
	ast.Inspect(lf.Body, func(n ast.Node) bool {
		if c, ok := n.(*ast.CallExpr); ok && src(c.Fun) == "file.NewReader" && len(c.Args) == 2 {
			if headLen != "" {
				die("loadViewFromFile: more than one file.NewReader")
			}
			if _, err := strconv.Atoi(src(c.Args[1])); err != nil {
				die("%s: the head length `%s` of file.NewReader is not a literal", pos(c), src(c.Args[1]))
			}
			headLen = src(c.Args[1])
		}
		return true
	})
	if headLen == "" {
		die("loadViewFromFile: file.NewReader(fp, <head length>) not found")
	}
	fn := findFunc(lv, "", "loadViewFromFixedLengthTextFile")
	boolLit := func(b bool) string {
		if b {
			return "true"
		}
		return "false"
	}
	var detGuard, detInput, posStore string
	var detSettings []string
	var readerInputs []string
	var pending []string // r = x assignments seen: (guard, term, consumed)
	readerVar := ""
	var walk func(stmts []ast.Stmt, guard string, consumed map[string]bool) map[string]bool
	walk = func(stmts []ast.Stmt, guard string, consumed map[string]bool) map[string]bool {
		for _, st := range stmts {
			// reads and rewinds of this statement (not inside nested blocks: those are walked)
			visit := func(n ast.Node) {
				ast.Inspect(n, func(m ast.Node) bool {
					switch c := m.(type) {
					case *ast.BlockStmt:
						return false
					case *ast.CallExpr:
						f := src(c.Fun)
						switch {
						case f == "fixedlen.NewDelimiter" && len(c.Args) == 2:
							if detInput != "" {
								die("%s: more than one fixedlen.NewDelimiter", pos(c))
							}
							detGuard, detInput = guard, srcTerm(fn, c.Args[0], 0)
							consumed[src(c.Args[0])] = true
						case f == "io.ReadAll" && len(c.Args) == 1:
							consumed[src(c.Args[0])] = true
						case strings.HasSuffix(f, ".Seek") && len(c.Args) == 2 && src(c.Args[0]) == "0" && src(c.Args[1]) == "io.SeekStart":
							consumed[strings.TrimSuffix(f, ".Seek")] = false
						case strings.HasSuffix(f, ".Read") || strings.HasSuffix(f, ".ReadByte") || strings.HasSuffix(f, ".ReadRune") || f == "io.Copy" || f == "io.ReadFull":
							die("%s: `%s` reads from a source outside the subset", pos(c), src(c))
						case f == "fixedlen.NewReader" && len(c.Args) == 3:
							a := src(c.Args[0])
							if a == readerVar && readerVar != "" {
								readerInputs = append(readerInputs, pending...)
							} else {
								readerInputs = append(readerInputs, "("+q(guard)+", "+srcTerm(fn, c.Args[0], 0)+", "+boolLit(consumed[a])+")")
							}
						}
					}
					return true
				})
			}
			switch s := st.(type) {
			case *ast.DeclStmt:
				if src(s) == "var r io.Reader" {
					readerVar = "r"
				}
			case *ast.AssignStmt:
				visit(s)
				if len(s.Lhs) == 1 && src(s.Lhs[0]) == readerVar && readerVar != "" && s.Tok == token.ASSIGN {
					a := src(s.Rhs[0])
					pending = append(pending, "("+q(guard)+", "+srcTerm(fn, s.Rhs[0], 0)+", "+boolLit(consumed[a])+")")
				}
				if len(s.Lhs) == 2 && src(s.Lhs[0]) == "fileInfo.DelimiterPositions" {
					if posStore != "" || guard != detGuard {
						die("%s: a second store into fileInfo.DelimiterPositions, or one outside the branch of the detector", pos(s))
					}
					posStore = src(s)
				}
				if len(s.Lhs) == 1 && strings.HasPrefix(src(s.Lhs[0]), "d.") && guard == detGuard && detInput != "" {
					detSettings = append(detSettings, src(s))
				}
			case *ast.IfStmt:
				if s.Init != nil {
					visit(s.Init)
				}
				g := src(s.Cond)
				if s.Init != nil {
					g = src(s.Init) + "; " + g
				}
				full := g
				if guard != "" {
					full = guard + " && " + g
				}
				cp := func() map[string]bool {
					m := map[string]bool{}
					for k, v := range consumed {
						m[k] = v
					}
					return m
				}
				a := walk(s.Body.List, full, cp())
				b := cp()
				if s.Else != nil {
					neg := "!(" + g + ")"
					if guard != "" {
						neg = guard + " && " + neg
					}
					if blk, ok := s.Else.(*ast.BlockStmt); ok {
						b = walk(blk.List, neg, cp())
					} else {
						b = walk([]ast.Stmt{s.Else}, neg, cp())
					}
				}
				for k := range a {
					consumed[k] = a[k] || b[k]
				}
				for k := range b {
					consumed[k] = a[k] || b[k]
				}
			case *ast.BlockStmt:
				consumed = walk(s.List, guard, consumed)
			case *ast.ForStmt, *ast.RangeStmt, *ast.SwitchStmt, *ast.TypeSwitchStmt, *ast.GoStmt, *ast.DeferStmt, *ast.SelectStmt:
				ast.Inspect(s, func(m ast.Node) bool {
					if c, ok := m.(*ast.CallExpr); ok {
						switch src(c.Fun) {
						case "fixedlen.NewDelimiter", "fixedlen.NewReader", "io.ReadAll":
							die("%s: `%s` inside a loop / switch / closure is outside the subset", pos(c), src(c))
						}
					}
					return true
				})
			default:
				visit(st)
			}
		}
		return consumed
	}
	walk(fn.Body.List, "", map[string]bool{})
	if detInput == "" || posStore == "" || len(readerInputs) == 0 {
		die("loadViewFromFixedLengthTextFile: fixedlen.NewDelimiter / the store of its positions / fixedlen.NewReader not found")
	}
	fmt.Printf(`/-- where the bytes that a go-text reader / detector is handed come from, inside a loader.  fp is the file.Reader the
    loader is given (it replays its head: reading fp yields the file from its first byte) -/
inductive LoaderSrc where
  | file                          -- fp itself
  | head                          -- fp.HeadBytes(): a copy of the first loaderHeadLen bytes
  | readAll (s : LoaderSrc)       -- io.ReadAll(s)
  | bytesReader (s : LoaderSrc)   -- bytes.NewReader(s)
  deriving DecidableEq, Repr

/-- loadViewFromFile: the length of the head file.NewReader keeps (for the detection of the encoding) -/
def loaderHeadLen : Nat := %s

/-- loadViewFromFixedLengthTextFile, automatic delimiter positions: the branch of the position detection, what
    fixedlen.NewDelimiter is handed, the settings of the detector, the store of what it finds -/
def fixedAutoGuard : String := %s
def fixedAutoDetectorInput : LoaderSrc := %s
def fixedAutoDetectorSettings : List String :=
  %s
def fixedAutoPositionsStore : String := %s

/-- what fixedlen.NewReader (the record reader) is handed: (branch, source, the source has been read from before and
    not been rewound by Seek(0, io.SeekStart)) -/
def fixedReaderInputs : List (String × LoaderSrc × Bool) :=
  [%s]

`, headLen, q(detGuard), detInput, qlist(detSettings), q(posStore), strings.Join(readerInputs, ", "))
}

func main() {
	enc := parse("lib/query/encode.go")
	fi := parse("lib/query/file_info.go")
	lv := parse("lib/query/load_view.go")
	fmt.Println("-- GENERATED by /verif/extract/encfacts from lib/query/encode.go, file_info.go, load_view.go — do not edit.")
	fmt.Println()
	fmt.Println("namespace Csvq.Gen.Enc")
	fmt.Println()
	fmt.Println("/-- strings.ContainsAny on characters -/")
	fmt.Println("def containsAny (s : List Char) (set : List Char) : Bool := s.any fun c => set.contains c")
	fmt.Println()
	emitQuoting(enc)
	fmt.Printf("/-- what reaches the go-text writers: constructor calls and the fields set on them -/\ndef csvWriter : List String :=\n  %s\n\ndef ltsvWriter : List String :=\n  %s\n\ndef fixedWriter : List String :=\n  %s\n\n",
		qlist(writerFacts(enc, "encodeCSV")), qlist(writerFacts(enc, "encodeLTSV")), qlist(writerFacts(enc, "encodeFixedLengthFormat")))
	emitConvert(enc)
	emitEnding(enc)
	emitExportOptions(fi)
	emitPositionStores()
	emitLoaders(lv)
	emitFixedSources(lv)
	emitDetector(lv)
	emitFixedlen()
	fmt.Println("end Csvq.Gen.Enc")
}
