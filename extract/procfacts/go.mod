module procfacts

go 1.18
