package main

// endfacts: what the END of a transaction does and under which conditions, regenerated from
// lib/query/transaction.go (Commit, Rollback), lib/query/reference_scope.go (StoreTemporaryTable,
// RestoreTemporaryTable), and what lib/file/container.go createHandler does when the new handler cannot be registered.
//
// For every call expression of the four functions (function literals included — the bodies handed to Range):
//   (function, callee as written, the conditions of the enclosing if / else / for statements from the outside in,
//    every name READ by those conditions)
// and per function the names read by the conditions of the `if`s that can leave the function / the loop early.
// A condition is rendered `init; cond` when the `if` has an init statement; an else branch stands under `!(cond)`;
// a loop body under `range X` / `for cond`.  Statement kinds that could hide a condition (switch, select, goto,
// labelled statements) are refused.  Nothing is filtered here: the classification of the callees (changes transaction
// state / prints / pure) and the vocabulary conditions may read are reviewed lists on the Lean side, and a callee or a
// name outside them fails the obligation.

import (
	"go/ast"
	"go/parser"
	"go/token"
	"path/filepath"
	"sort"
	"strings"
)

type endCall struct {
	fn, callee string
	enclosing  []string
	reads      []string
}

// names read by an expression: selector chains as written, plain identifiers, the callee of every call
func readsOf(n ast.Node, into map[string]bool) {
	if n == nil {
		return
	}
	ast.Inspect(n, func(m ast.Node) bool {
		switch x := m.(type) {
		case *ast.SelectorExpr:
			into[src(x)] = true
			// the root of the chain may itself be a call or an index: look inside, but not at the selector's own parts again
			root := x.X
			for {
				if s, ok := root.(*ast.SelectorExpr); ok {
					root = s.X
					continue
				}
				break
			}
			if _, ok := root.(*ast.Ident); !ok {
				readsOf(root, into)
			}
			return false
		case *ast.Ident:
			into[x.Name] = true
		case *ast.FuncLit:
			die("function literal inside a condition: %s", src(x))
		}
		return true
	})
}

func sortedKeys(m map[string]bool) []string {
	var ks []string
	for k := range m {
		ks = append(ks, k)
	}
	sort.Strings(ks)
	return ks
}

type endWalker struct {
	fn    string
	exits map[string]bool // names read by the conditions of earlier ifs that can leave the function
	out   []endCall
}

func containsReturn(b ast.Node) bool {
	found := false
	ast.Inspect(b, func(m ast.Node) bool {
		if _, ok := m.(*ast.FuncLit); ok {
			return false
		}
		if _, ok := m.(*ast.ReturnStmt); ok {
			found = true
		}
		return true
	})
	return found
}

// calls records every call expression inside n (not descending into function literals: their bodies are walked as blocks)
func (w *endWalker) calls(n ast.Node, conds []string, condReads map[string]bool) {
	if n == nil {
		return
	}
	ast.Inspect(n, func(m ast.Node) bool {
		switch x := m.(type) {
		case *ast.FuncLit:
			w.block(x.Body.List, conds, condReads)
			return false
		case *ast.CallExpr:
			w.out = append(w.out, endCall{w.fn, src(x.Fun), append([]string(nil), conds...), sortedKeys(condReads)})
		}
		return true
	})
}

func with(m map[string]bool, n ...ast.Node) map[string]bool {
	r := map[string]bool{}
	for k := range m {
		r[k] = true
	}
	for _, x := range n {
		readsOf(x, r)
	}
	return r
}

func (w *endWalker) block(stmts []ast.Stmt, conds []string, condReads map[string]bool) {
	for _, st := range stmts {
		w.stmt(st, conds, condReads)
	}
}

func (w *endWalker) stmt(st ast.Stmt, conds []string, condReads map[string]bool) {
	switch x := st.(type) {
	case *ast.IfStmt:
		text := src(x.Cond)
		if x.Init != nil {
			w.stmt(x.Init, conds, condReads) // the init statement runs under the OUTER conditions
			text = src(x.Init) + "; " + text
		}
		w.calls(x.Cond, conds, condReads)
		inner := with(condReads, x.Cond)
		if x.Init != nil {
			inner = with(inner, x.Init)
		}
		w.block(x.Body.List, append(append([]string(nil), conds...), text), inner)
		if x.Else != nil {
			w.stmt(x.Else, append(append([]string(nil), conds...), "!("+text+")"), inner)
		}
		if containsReturn(x.Body) || (x.Else != nil && containsReturn(x.Else)) {
			for k := range inner {
				w.exits[k] = true
			}
		}
	case *ast.BlockStmt:
		w.block(x.List, conds, condReads)
	case *ast.RangeStmt:
		w.calls(x.X, conds, condReads)
		w.block(x.Body.List, append(append([]string(nil), conds...), "range "+src(x.X)), with(condReads, x.X))
	case *ast.ForStmt:
		if x.Init != nil {
			w.stmt(x.Init, conds, condReads)
		}
		text := "for"
		inner := condReads
		if x.Cond != nil {
			text = "for " + src(x.Cond)
			inner = with(condReads, x.Cond)
			w.calls(x.Cond, conds, inner)
		}
		if x.Post != nil {
			w.stmt(x.Post, append(append([]string(nil), conds...), text), inner)
		}
		w.block(x.Body.List, append(append([]string(nil), conds...), text), inner)
	case *ast.AssignStmt, *ast.ExprStmt, *ast.ReturnStmt, *ast.DeclStmt, *ast.IncDecStmt, *ast.DeferStmt, *ast.GoStmt:
		w.calls(x, conds, condReads)
	case *ast.BranchStmt:
		if x.Tok == token.GOTO || x.Label != nil {
			die("%s: goto / labelled branch", w.fn)
		}
		// break / continue inside a loop: what follows in the loop body depends on the enclosing conditions
		for k := range condReads {
			w.exits[k] = true
		}
	case *ast.EmptyStmt:
	default:
		die("%s: unsupported statement kind %T: %s", w.fn, st, src(st))
	}
}

var exitReads [][2]string // (function, names read by the conditions that can leave it early — joined)

func walkEnd(f *ast.File, recv, name string) []endCall {
	m := method(f, recv, name)
	w := &endWalker{fn: name, exits: map[string]bool{}}
	w.block(m.Body.List, nil, map[string]bool{})
	exitReads = append(exitReads, [2]string{name, list(sortedKeys(w.exits))})
	return w.out
}

var outputFlagFields = []string{
	"Flags.Quiet", "Flags.Stats", "Flags.ExportOptions.Color", "Flags.ExportOptions.Format",
	"Flags.ExportOptions.EastAsianEncoding", "Flags.ExportOptions.CountDiacriticalSign", "Flags.ExportOptions.CountFormatCode",
	"Flags.ExportOptions.JsonEscape",
}

func endFacts(repo string, p func(string, ...interface{})) {
	tf, err := parser.ParseFile(fset, filepath.Join(repo, "lib/query/transaction.go"), nil, 0)
	if err != nil {
		die("%v", err)
	}
	rf, err := parser.ParseFile(fset, filepath.Join(repo, "lib/query/reference_scope.go"), nil, 0)
	if err != nil {
		die("%v", err)
	}
	var all []endCall
	all = append(all, walkEnd(tf, "Transaction", "Commit")...)
	all = append(all, walkEnd(tf, "Transaction", "Rollback")...)
	all = append(all, walkEnd(rf, "ReferenceScope", "StoreTemporaryTable")...)
	all = append(all, walkEnd(rf, "ReferenceScope", "RestoreTemporaryTable")...)
	p("/-- every call of Transaction.Commit / Rollback and ReferenceScope.StoreTemporaryTable / RestoreTemporaryTable:\n")
	p("    (function, callee, conditions of the enclosing if / else / loop statements from the outside in, every name read by\n")
	p("    those conditions) -/\n")
	p("def txEndCalls : List (String × String × List String × List String) := [\n")
	for i, c := range all {
		sep := ","
		if i == len(all)-1 {
			sep = ""
		}
		p("  (%s, %s, %s, %s)%s\n", lit(c.fn), lit(c.callee), list(c.enclosing), list(c.reads), sep)
	}
	p("]\n\n")
	p("/-- per function: every name read by the condition of an `if` whose branch can leave the function (or the loop) early —\n")
	p("    whatever follows such an `if` runs only when the condition allows it -/\n")
	p("def txEndExitReads : List (String × List String) := [")
	for i, e := range exitReads {
		if i > 0 {
			p(", ")
		}
		p("(%s, %s)", lit(e[0]), e[1])
	}
	p("]\n\n")

	// functions of transaction.go whose body reads an output flag — directly, or by calling one that does
	reader := map[string]bool{}
	bodies := map[string]*ast.FuncDecl{}
	for _, d := range tf.Decls {
		if fd, ok := d.(*ast.FuncDecl); ok && fd.Body != nil {
			bodies[fd.Name.Name] = fd
			t := src(fd.Body)
			for _, fl := range outputFlagFields {
				if strings.Contains(t, fl) {
					reader[fd.Name.Name] = true
				}
			}
		}
	}
	// getters that only REPORT a flag's value to the procedure (@@QUIET as a value) are readers too; nothing is left out
	for changed := true; changed; {
		changed = false
		for name, fd := range bodies {
			if reader[name] {
				continue
			}
			ast.Inspect(fd.Body, func(m ast.Node) bool {
				if c, ok := m.(*ast.CallExpr); ok {
					if sel, ok := c.Fun.(*ast.SelectorExpr); ok && src(sel.X) == "tx" && reader[sel.Sel.Name] && !reader[name] {
						reader[name] = true
						changed = true
					}
				}
				return true
			})
		}
	}
	p("/-- the session fields that only decide what is PRINTED (as the extractor searches for them) -/\ndef outputFlagFields : List String := %s\n\n", list(outputFlagFields))
	p("/-- the functions of lib/query/transaction.go that read one of them, directly or through a method of the transaction -/\n")
	p("def outputFlagReaders : List String := %s\n\n", list(sortedKeys(reader)))

	// ---- lib/file/container.go createHandler: the branch of a failed registration
	cf, err := parser.ParseFile(fset, filepath.Join(repo, "lib/file/container.go"), nil, 0)
	if err != nil {
		die("%v", err)
	}
	ch := method(cf, "Container", "createHandler")
	newVar, addArgs := "", []string(nil)
	var failed [][2]string
	for _, st := range ch.Body.List {
		switch x := st.(type) {
		case *ast.AssignStmt:
			if len(x.Rhs) == 1 {
				if c, ok := x.Rhs[0].(*ast.CallExpr); ok && src(c.Fun) == "fn" && len(x.Lhs) == 2 {
					newVar = src(x.Lhs[0])
				}
			}
		case *ast.IfStmt:
			if x.Init == nil {
				continue
			}
			a, ok := x.Init.(*ast.AssignStmt)
			if !ok || len(a.Rhs) != 1 {
				continue
			}
			c, ok := a.Rhs[0].(*ast.CallExpr)
			if !ok || src(c.Fun) != "c.Add" {
				continue
			}
			if addArgs != nil {
				die("createHandler registers twice")
			}
			if src(x.Cond) != "err != nil" || x.Else != nil {
				die("createHandler: unexpected test behind c.Add: %s", src(x.Cond))
			}
			for _, ar := range c.Args {
				addArgs = append(addArgs, src(ar))
			}
			ast.Inspect(x.Body, func(m ast.Node) bool {
				if cc, ok := m.(*ast.CallExpr); ok {
					var as []string
					for _, ar := range cc.Args {
						as = append(as, src(ar))
					}
					failed = append(failed, [2]string{src(cc.Fun), strings.Join(as, ", ")})
				}
				return true
			})
		}
	}
	if newVar == "" || addArgs == nil {
		die("createHandler: `h, err := fn(…)` or `if err := c.Add(…); err != nil` not found")
	}
	pairs := func(xs [][2]string) string {
		var q []string
		for _, x := range xs {
			q = append(q, "("+lit(x[0])+", "+lit(x[1])+")")
		}
		return "[" + strings.Join(q, ", ") + "]"
	}
	p("/-- Container.createHandler: the variable the new handler is assigned to, the arguments of the registration `c.Add(…)`,\n")
	p("    and every call (callee, arguments) of the branch taken when the registration fails -/\n")
	p("def createHandlerNewVar : String := %s\ndef createHandlerAddArgs : List String := %s\n", lit(newVar), list(addArgs))
	p("def createHandlerFailedAddCalls : List (String × String) := %s\n\n", pairs(failed))
	hf, err := parser.ParseFile(fset, filepath.Join(repo, "lib/file/handler.go"), nil, 0)
	if err != nil {
		die("%v", err)
	}
	var iso [][2]string
	var isoParams []string
	for _, d := range hf.Decls {
		if fd, ok := d.(*ast.FuncDecl); ok && fd.Recv == nil && fd.Name.Name == "closeIsolatedHandler" {
			for _, f := range fd.Type.Params.List {
				for _, n := range f.Names {
					isoParams = append(isoParams, n.Name)
				}
			}
			ast.Inspect(fd.Body, func(m ast.Node) bool {
				if cc, ok := m.(*ast.CallExpr); ok {
					var as []string
					for _, ar := range cc.Args {
						as = append(as, src(ar))
					}
					iso = append(iso, [2]string{src(cc.Fun), strings.Join(as, ", ")})
				}
				return true
			})
		}
	}
	p("/-- lib/file/handler.go closeIsolatedHandler (empty lists when the function does not exist): parameters and calls -/\n")
	p("def closeIsolatedParams : List String := %s\ndef closeIsolatedCalls : List (String × String) := %s\n\n", list(isoParams), pairs(iso))
}
