// keyfacts: reads lib/query/utils.go of csvq and prints Csvq/Gen/KeyFacts.lean — the shape of the comparison
// keys used by DISTINCT / GROUP BY / set operators / PARTITION BY (property C04):
//
//   - keyLadder        SerializeKey: the conversion tried at each rung and the writer it uses, in order
//   - strictLadder     SerializeIdenticalKey: the value type of each case and the writer it uses
//   - keyTags          the bytes every writer puts in front of its payload
//   - keyPayloads      what every writer appends after the tag (the call / literal, as source text)
//   - keySeparator     the byte SerializeComparisonKeys writes between two keys
//   - keyEscaped / keyEscapeByte   writeEscapedKeyString: which bytes are escaped, and with what
//   - floatKeyNormalisesZero       floatKeyString folds -0 into 0
//
// Stdlib only.  Fails loudly (exit 1) on anything it does not recognise.
package main

import (
	"fmt"
	"go/ast"
	"go/parser"
	"go/printer"
	"go/token"
	"os"
	"path/filepath"
	"strconv"
	"strings"
)

var fset = token.NewFileSet()

func die(format string, a ...interface{}) {
	fmt.Fprintf(os.Stderr, "keyfacts: "+format+"\n", a...)
	os.Exit(1)
}

func src(n ast.Node) string {
	var sb strings.Builder
	_ = printer.Fprint(&sb, fset, n)
	return sb.String()
}

func repo() string {
	if r := os.Getenv("VERIF_REPO"); r != "" {
		return r
	}
	return "/repo"
}

func findFunc(f *ast.File, name string) *ast.FuncDecl {
	for _, d := range f.Decls {
		if fd, ok := d.(*ast.FuncDecl); ok && fd.Recv == nil && fd.Name.Name == name {
			return fd
		}
	}
	die("function %s not found", name)
	return nil
}

// the serialize* calls of a block, as "name(arg texts…)"
func writerCalls(n ast.Node) []string {
	var out []string
	ast.Inspect(n, func(x ast.Node) bool {
		if c, ok := x.(*ast.CallExpr); ok {
			if id, ok := c.Fun.(*ast.Ident); ok && (strings.HasPrefix(id.Name, "serialize") || strings.HasPrefix(id.Name, "Serialize")) {
				var args []string
				for _, a := range c.Args[1:] {
					args = append(args, src(a))
				}
				out = append(out, id.Name+"("+strings.Join(args, ",")+")")
			}
		}
		return true
	})
	return out
}

// the conversion a rung of SerializeKey tests: value.IsNull(val) / x := value.ToXxx(val…); !value.IsNull(x) / val.(*value.String)
func rungTest(is *ast.IfStmt) string {
	if is.Init == nil {
		c, ok := is.Cond.(*ast.CallExpr)
		if ok && src(c.Fun) == "value.IsNull" && len(c.Args) == 1 && src(c.Args[0]) == "val" {
			return "IsNull"
		}
		die("%s: rung condition `%s` not recognised", fset.Position(is.Pos()), src(is.Cond))
	}
	as, ok := is.Init.(*ast.AssignStmt)
	if !ok || len(as.Rhs) != 1 {
		die("%s: rung init not recognised", fset.Position(is.Pos()))
	}
	switch r := as.Rhs[0].(type) {
	case *ast.CallExpr:
		fn := src(r.Fun)
		if !strings.HasPrefix(fn, "value.To") || len(r.Args) < 1 || src(r.Args[0]) != "val" {
			die("%s: rung conversion `%s` not recognised", fset.Position(is.Pos()), src(r))
		}
		// the condition must be !value.IsNull(<the converted value>)
		u, ok := is.Cond.(*ast.UnaryExpr)
		if !ok || u.Op != token.NOT {
			die("%s: rung condition `%s` not recognised", fset.Position(is.Pos()), src(is.Cond))
		}
		c, ok := u.X.(*ast.CallExpr)
		if !ok || src(c.Fun) != "value.IsNull" || src(c.Args[0]) != src(as.Lhs[0]) {
			die("%s: rung condition `%s` not recognised", fset.Position(is.Pos()), src(is.Cond))
		}
		return strings.TrimPrefix(fn, "value.")
	case *ast.TypeAssertExpr:
		if src(r.X) != "val" || src(is.Cond) != "ok" {
			die("%s: rung type test not recognised", fset.Position(is.Pos()))
		}
		return "is" + strings.TrimPrefix(src(r.Type), "*value.")
	}
	die("%s: rung not recognised", fset.Position(is.Pos()))
	return ""
}

type pair struct{ a, b string }

// names of the writers called in a rung, in order
func writerNames(calls string) string {
	var q []string
	for _, c := range strings.Split(calls, ";") {
		if c == "" {
			continue
		}
		q = append(q, fmt.Sprintf("%q", c[:strings.Index(c, "(")]))
	}
	return "[" + strings.Join(q, ", ") + "]"
}

func leanRungs(l []pair) string {
	var q []string
	for _, p := range l {
		q = append(q, fmt.Sprintf("(%q, %s)", p.a, writerNames(p.b)))
	}
	return "[" + strings.Join(q, ", ") + "]"
}

func leanPairs(l []pair) string {
	var q []string
	for _, p := range l {
		q = append(q, fmt.Sprintf("(%q, %q)", p.a, p.b))
	}
	return "[" + strings.Join(q, ", ") + "]"
}

func byteList(cl *ast.CompositeLit) []string {
	var out []string
	for _, e := range cl.Elts {
		bl, ok := e.(*ast.BasicLit)
		if !ok || bl.Kind != token.INT {
			die("%s: byte literal", fset.Position(e.Pos()))
		}
		out = append(out, bl.Value)
	}
	return out
}

func main() {
	f, err := parser.ParseFile(fset, filepath.Join(repo(), "lib", "query", "utils.go"), nil, 0)
	if err != nil {
		die("%v", err)
	}

	// ---- SerializeKey: an if / else-if chain over `val` ----
	var ladder []pair
	{
		fd := findFunc(f, "SerializeKey")
		if len(fd.Body.List) != 1 {
			die("SerializeKey: body is no longer one if / else-if chain")
		}
		var cur ast.Stmt = fd.Body.List[0]
		for cur != nil {
			switch x := cur.(type) {
			case *ast.IfStmt:
				ladder = append(ladder, pair{rungTest(x), strings.Join(writerCalls(x.Body), ";")})
				cur = x.Else
			case *ast.BlockStmt:
				ladder = append(ladder, pair{"else", strings.Join(writerCalls(x), ";")})
				cur = nil
			default:
				die("SerializeKey: chain element %T", cur)
			}
		}
	}

	// ---- SerializeIdenticalKey: a type switch ----
	var strict []pair
	{
		fd := findFunc(f, "SerializeIdenticalKey")
		if len(fd.Body.List) != 1 {
			die("SerializeIdenticalKey: body is no longer one type switch")
		}
		ts, ok := fd.Body.List[0].(*ast.TypeSwitchStmt)
		if !ok {
			die("SerializeIdenticalKey: body is no longer one type switch")
		}
		for _, c := range ts.Body.List {
			cc := c.(*ast.CaseClause)
			name := "default"
			if len(cc.List) > 0 {
				var ns []string
				for _, t := range cc.List {
					ns = append(ns, strings.TrimPrefix(src(t), "*value."))
				}
				name = strings.Join(ns, "|")
			}
			var calls []string
			for _, s := range cc.Body {
				calls = append(calls, writerCalls(s)...)
			}
			strict = append(strict, pair{name, strings.Join(calls, ";")})
		}
	}

	// ---- the writers: tag bytes and payload ----
	var tags, payloads []string
	for _, d := range f.Decls {
		fd, ok := d.(*ast.FuncDecl)
		if !ok || fd.Recv != nil || !strings.HasPrefix(fd.Name.Name, "serialize") {
			continue
		}
		var tag []string
		var pay []string
		first := true
		ast.Inspect(fd.Body, func(x ast.Node) bool {
			c, ok := x.(*ast.CallExpr)
			if !ok {
				return true
			}
			fn := src(c.Fun)
			switch {
			case fn == "buf.Write" && first:
				conv, ok := c.Args[0].(*ast.CompositeLit)
				if !ok {
					die("%s: first write of %s is not a byte literal", fset.Position(c.Pos()), fd.Name.Name)
				}
				tag = byteList(conv)
				first = false
			case fn == "buf.WriteString" || fn == "buf.Write" || fn == "buf.WriteByte" || fn == "writeEscapedKeyString":
				if first {
					die("%s: %s writes a payload before its tag", fset.Position(c.Pos()), fd.Name.Name)
				}
				a := c.Args[len(c.Args)-1]
				pay = append(pay, strings.TrimPrefix(fn, "buf.")+":"+src(a))
				return false
			case strings.HasPrefix(fn, "serialize"):
				pay = append(pay, "->"+fn+"("+src(c.Args[len(c.Args)-1])+")")
				return false
			}
			return true
		})
		if tag == nil && len(pay) == 1 && strings.HasPrefix(pay[0], "->") {
			tags = append(tags, fmt.Sprintf("(%q, [])", fd.Name.Name)) // pure delegation
		} else if tag == nil {
			die("%s writes no tag", fd.Name.Name)
		} else {
			tags = append(tags, fmt.Sprintf("(%q, [%s])", fd.Name.Name, strings.Join(tag, ", ")))
		}
		payloads = append(payloads, fmt.Sprintf("(%q, %q)", fd.Name.Name, strings.Join(pay, ";")))
	}

	// ---- SerializeComparisonKeys: the separator and the strict switch ----
	sep := ""
	strictSwitch := ""
	{
		fd := findFunc(f, "SerializeComparisonKeys")
		ast.Inspect(fd.Body, func(x ast.Node) bool {
			switch n := x.(type) {
			case *ast.CallExpr:
				if src(n.Fun) == "buf.WriteByte" {
					if sep != "" {
						die("SerializeComparisonKeys: two separators")
					}
					sep = src(n.Args[0])
				}
			case *ast.IfStmt:
				if src(n.Cond) == "flags.StrictEqual" {
					a, b := writerCalls(n.Body), []string{}
					if n.Else != nil {
						b = writerCalls(n.Else)
					}
					strictSwitch = strings.Join(a, ";") + " / " + strings.Join(b, ";")
				}
			}
			return true
		})
		if _, err := strconv.Atoi(sep); err != nil {
			die("SerializeComparisonKeys: separator `%s` is not a byte literal", sep)
		}
	}

	// ---- writeEscapedKeyString ----
	var escaped []string
	escByte := ""
	{
		fd := findFunc(f, "writeEscapedKeyString")
		ast.Inspect(fd.Body, func(x ast.Node) bool {
			switch n := x.(type) {
			case *ast.IfStmt:
				var walk func(e ast.Expr)
				walk = func(e ast.Expr) {
					switch b := e.(type) {
					case *ast.BinaryExpr:
						if b.Op == token.LOR {
							walk(b.X)
							walk(b.Y)
							return
						}
						if b.Op == token.EQL && src(b.X) == "s[i]" {
							escaped = append(escaped, src(b.Y))
							return
						}
					case *ast.ParenExpr:
						walk(b.X)
						return
					}
					die("writeEscapedKeyString: condition `%s` not recognised", src(e))
				}
				walk(n.Cond)
				ast.Inspect(n.Body, func(y ast.Node) bool {
					if c, ok := y.(*ast.CallExpr); ok && src(c.Fun) == "buf.WriteByte" {
						escByte = src(c.Args[0])
					}
					return true
				})
			}
			return true
		})
		if escByte == "" || len(escaped) == 0 {
			die("writeEscapedKeyString: escape rule not recognised")
		}
	}

	// ---- floatKeyString ----
	zero := false
	{
		fd := findFunc(f, "floatKeyString")
		ast.Inspect(fd.Body, func(x ast.Node) bool {
			if is, ok := x.(*ast.IfStmt); ok && src(is.Cond) == "f == 0" && len(is.Body.List) == 1 && src(is.Body.List[0]) == "f = 0" {
				zero = true
			}
			return true
		})
	}

	var o strings.Builder
	o.WriteString("-- GENERATED by /verif/extract/keyfacts from lib/query/utils.go — do not edit.\n\nnamespace Csvq.Gen\n\n")
	o.WriteString("/-- SerializeKey: (conversion tested, writer calls of the rung), in order -/\ndef keyLadder : List (String × String) :=\n  " + leanPairs(ladder) + "\n\n")
	o.WriteString("/-- SerializeKey: (conversion tested, names of the writers it calls), in order -/\ndef keyLadderW : List (String × List String) :=\n  " + leanRungs(ladder) + "\n\n")
	o.WriteString("/-- SerializeIdenticalKey: (value type, names of the writers it calls), in order -/\ndef strictLadderW : List (String × List String) :=\n  " + leanRungs(strict) + "\n\n")
	o.WriteString("/-- SerializeIdenticalKey: (value type, writer calls of the case), in order -/\ndef strictLadder : List (String × String) :=\n  " + leanPairs(strict) + "\n\n")
	o.WriteString("/-- the bytes each writer puts in front of its payload -/\ndef keyTags : List (String × List Nat) :=\n  [" + strings.Join(tags, ", ") + "]\n\n")
	o.WriteString("/-- what each writer appends after the tag -/\ndef keyPayloads : List (String × String) :=\n  [" + strings.Join(payloads, ", ") + "]\n\n")
	o.WriteString("def keySeparator : Nat := " + sep + "\n\n")
	o.WriteString(fmt.Sprintf("/-- SerializeComparisonKeys: writers under --strict-equal / otherwise -/\ndef keyStrictSwitch : String := %q\n\n", strictSwitch))
	o.WriteString("def keyEscaped : List Nat := [" + strings.Join(escaped, ", ") + "]\n\ndef keyEscapeByte : Nat := " + escByte + "\n\n")
	o.WriteString(fmt.Sprintf("def floatKeyNormalisesZero : Bool := %v\n\nend Csvq.Gen\n", zero))
	fmt.Print(o.String())
}
