module keyfacts

go 1.18
