// dmlfacts: reads lib/query/query.go, lib/query/processor.go and lib/query/header.go of csvq and prints
// Csvq/Gen/DmlFacts.lean — the statement skeletons that Model/Dml.lean mirrors (properties C05, C08):
// for Insert / Update / Replace / Delete / CreateTable / AddColumns / DropColumns / RenameColumn /
// SetTableAttribute the ORDER of: taking the operation lock, loading (for update, with internal ids), taking
// copies, evaluating, writing into a view, replacing the cached / temporary table (publish), every return;
// for the cases of Processor.ExecuteStatement: the call, the condition under which the table is marked
// uncommitted, the affected-row count that is stored; and Header.Update (that it cannot fail without a field list).
//
// Structured effect lists: `if(cond){` … `}` `else{` … `}` `loop{` … `}` `switch{` `case{` … `}` `}` `return`,
// `defer:x`.  A call that is not in the reviewed table is printed as `call(fn)` — never dropped.
// Stdlib only.  Fails loudly (exit 1) on anything outside the translated subset.
package main

import (
	"fmt"
	"go/ast"
	"go/parser"
	"go/printer"
	"go/token"
	"os"
	"path/filepath"
	"strings"
)

var fset = token.NewFileSet()

func die(format string, a ...interface{}) {
	fmt.Fprintf(os.Stderr, "dmlfacts: "+format+"\n", a...)
	os.Exit(1)
}

func src(n ast.Node) string {
	var sb strings.Builder
	_ = printer.Fprint(&sb, fset, n)
	return sb.String()
}

func repo() string {
	if r := os.Getenv("VERIF_REPO"); r != "" {
		return r
	}
	return "/repo"
}

func parse(rel string) *ast.File {
	f, err := parser.ParseFile(fset, filepath.Join(repo(), rel), nil, 0)
	if err != nil {
		die("%v", err)
	}
	return f
}

func findFunc(f *ast.File, recv, name string) *ast.FuncDecl {
	for _, d := range f.Decls {
		fd, ok := d.(*ast.FuncDecl)
		if !ok || fd.Name.Name != name {
			continue
		}
		r := ""
		if fd.Recv != nil && len(fd.Recv.List) == 1 {
			r = strings.TrimPrefix(src(fd.Recv.List[0].Type), "*")
		}
		if r == recv {
			return fd
		}
	}
	die("function %s.%s not found", recv, name)
	return nil
}

func arg(c *ast.CallExpr, i int) string {
	if i < len(c.Args) {
		return strings.ReplaceAll(src(c.Args[i]), " ", "")
	}
	return "?"
}

// effect of a call; "" = reviewed as irrelevant for the skeleton; "call(fn)" = not reviewed
func effect(c *ast.CallExpr) string {
	fn := src(c.Fun)
	suf := func(s string) bool { return strings.HasSuffix(fn, s) }
	switch {
	case suf(".lockOperation"):
		return "lock"
	case fn == "unlock":
		return "unlock"
	case fn == "LoadView":
		return "load(forUpdate=" + arg(c, 3) + ",ids=" + arg(c, 4) + ")"
	case fn == "LoadViewFromTableIdentifier":
		return "load(forUpdate=" + arg(c, 3) + ",ids=" + arg(c, 4) + ")"
	case suf(".LoadInlineTable"):
		return "with_clause"
	case suf("CachedViews.Get"), suf(".GetTemporaryTable"):
		return "get_copy"
	case suf("CachedViews.GetWithInternalId"), suf(".GetTemporaryTableWithInternalId"):
		return "get_copy_with_ids"
	case fn == "cacheViewFromFile":
		return "cache_load"
	case suf("CachedViews.Dispose"):
		return "dispose_cached"
	case suf(".AddAlias"):
		return "add_alias"
	case suf(".Where"):
		return "where"
	case fn == "Evaluate", fn == "EvalRowValue":
		return "evaluate"
	case fn == "EvaluateSequentially":
		return "evaluate_each_record{"
	case fn == "Select":
		return "select"
	case suf(".InsertValues"):
		return "insert_values"
	case suf(".InsertFromQuery"):
		return "insert_query"
	case suf(".ReplaceValues"):
		return "replace_values"
	case suf(".ReplaceFromQuery"):
		return "replace_query"
	case suf(".RestoreHeaderReferences"):
		return "restore_header(" + recvOf(fn) + ")"
	case suf(".Header.Update"):
		return "header_update(" + strings.TrimSuffix(fn, ".Header.Update") + ")"
	case suf(".Fix"):
		return "fix(" + recvOf(fn) + ")"
	case suf(".ReplaceTemporaryTable"):
		return "publish_temp(" + arg(c, 0) + ")"
	case suf(".SetTemporaryTable"):
		return "publish_temp_innermost(" + arg(c, 0) + ")"
	case suf("CachedViews.Set"):
		return "publish_file(" + arg(c, 0) + ")"
	case suf("FileContainer.CreateHandlerForCreate"):
		return "create_handler"
	case suf("FileContainer.Close"):
		return "close_handler"
	case suf("UncommittedViews.SetForUpdatedView"):
		return "mark_updated(" + arg(c, 0) + ")"
	case suf("UncommittedViews.SetForCreatedView"):
		return "mark_created(" + arg(c, 0) + ")"
	case suf(".InternalRecordId"):
		return "internal_id"
	case suf(".FieldViewName"), suf(".FieldIndex"), suf(".FieldIndices"), suf(".SearchIndex"):
		return "field_lookup"
	case fn == "ParseTableName", suf(".GetAlias"):
		return "resolve_name"
	case fn == "NewFileInfoForCreate":
		return "new_fileinfo"
	case suf(".SetDelimiter"), suf(".SetDelimiterPositions"), suf(".SetFormat"), suf(".SetEncoding"), suf(".SetLineBreak"),
		suf(".SetJsonEscape"), suf(".SetNoHeader"), suf(".SetEncloseAll"), suf(".SetPrettyPrint"):
		return "set_attribute(" + recvOf(fn) + ")"
	case fn == "Insert", fn == "Update", fn == "Replace", fn == "Delete", fn == "CreateTable", fn == "AddColumns",
		fn == "DropColumns", fn == "RenameColumn", fn == "SetTableAttribute":
		return "run(" + fn + ")"
	case fn == "proc.Log", fn == "proc.LogNotice":
		return "log"
	case fn == "LoadViewFromTableIdentifierWithoutLock":
		return "call(" + fn + ")"
	}
	if harmless[fn] || strings.HasPrefix(fn, "New") && strings.HasSuffix(fn, "Error") {
		return ""
	}
	return "call(" + fn + ")"
}

func recvOf(fn string) string {
	if i := strings.LastIndex(fn, "."); i >= 0 {
		return fn[:i]
	}
	return fn
}

// reviewed as irrelevant for the order of lock / load / evaluate / write / publish / mark
var harmless = map[string]bool{
	"scope.CreateNode": true, "queryScope.CloseCurrentNode": true, "proc.ReferenceScope.CreateNode": true,
	"view.IsUpdatable": true, "view.Header.TableColumns": true, "view.Header.TableColumnNames": true,
	"view.FileInfo.IsInMemoryTable": true, "view.FileInfo.IsFile": true, "v.FileInfo.IsInMemoryTable": true, "v.FileInfo.IsFile": true,
	"view.FileInfo.IsTemporaryTable": true,
	"make": true, "len": true, "append": true, "strings.ToUpper": true, "uint": true, "int": true,
	"queryScope.TemporaryTableExists": true, "queryScope.CreateScopeForSequentialEvaluation": true,
	"NewUintPool": true, "NewCell": true, "NewHeader": true, "FormatTableName": true, "view.FieldLen": true, "view.RecordLen": true, "v.RecordLen": true,
	"ctx.Err": true, "ConvertContextError": true, "ConvertFileHandlerError": true, "appendCompositeError": true,
	"dropIndices.Exists": true, "dropIndices.Add": true, "dropIndices.Len": true, "parser.NewNullValue": true,
	"parser.TokenLiteral": true, "value.NewString": true, "value.ToString": true, "value.ToBoolean": true, "value.IsNull": true, "value.Discard": true,
	"scope.Tx.CreateDocumentWriter": true, "w.WriteColorWithoutLineBreak": true, "w.NewLine": true, "w.String": true, "writeTableAttribute": true,
	"fmt.Sprintf": true, "FormatCount": true, "time.Now": true, "proc.showExecutionTime": true, "err.Error": true, "e.Error": true,
	"updatesList[viewref][internalId].Exists": true, "updatesList[viewref][internalId].Add": true,
	"CreateFilePath": true, "InStrSliceWithCaseInsensitive": true, "createTableStatement.GetBaseExpr": true,
	"view.Header.TableColumnNames()": true, "s.(*value.String).Raw": true, "b.(*value.Boolean).Raw": true,
	"strings.EqualFold": true, "proc.ReferenceScope.Tx.Flags.Repository": true, "defer": true,
	"queryScope.Tx.Flags.ExportOptions.Copy": true, "h.Len": true, "fileIdentifier.GetBaseExpr": true,
}

type walker struct{ out []string }

func (w *walker) emit(s string) {
	if s != "" {
		w.out = append(w.out, s)
	}
}

func (w *walker) calls(n ast.Node) {
	ast.Inspect(n, func(x ast.Node) bool {
		switch c := x.(type) {
		case *ast.FuncLit:
			return false
		case *ast.CallExpr:
			for _, a := range c.Args {
				if fl, ok := a.(*ast.FuncLit); ok && src(c.Fun) == "EvaluateSequentially" {
					_ = fl
					continue
				}
				w.calls(a)
			}
			if fl, ok := c.Fun.(*ast.FuncLit); ok { // a closure called on the spot: its body runs here
				w.emit("closure{")
				w.stmts(fl.Body.List)
				w.emit("}")
				return false
			}
			if sel, ok := c.Fun.(*ast.SelectorExpr); ok { // method on the result of a call: f().g()
				w.calls(sel.X)
			}
			e := effect(c)
			w.emit(e)
			if e == "evaluate_each_record{" {
				for _, a := range c.Args {
					if fl, ok := a.(*ast.FuncLit); ok {
						w.stmts(fl.Body.List)
					}
				}
				w.emit("}")
			}
			return false
		}
		return true
	})
}

func condToken(e ast.Expr) string {
	s := strings.ReplaceAll(src(e), " ", "")
	switch {
	case strings.HasSuffix(s, "FileInfo.IsInMemoryTable()"):
		return "if(inMemory){"
	case strings.HasSuffix(s, "FileInfo.IsTemporaryTable()"):
		return "if(temporary){"
	case strings.HasSuffix(s, "FileInfo.IsFile()") && !strings.HasPrefix(s, "!"):
		return "if(isFile){"
	case s == "!view.FileInfo.IsFile()":
		return "if(notFile){"
	case s == "ctx.Err()!=nil":
		return "if(ctx){"
	case s == "useInternalId":
		return "if(ids){"
	case s == "forUpdate":
		return "if(forUpdate){"
	case s == "e==nil":
		return "if(ok){"
	case s == "0<cnt", s == "0<cnts[i]":
		return "if(count>0){"
	case s == "proc.storeResults":
		return "if(storeResults){"
	case strings.HasSuffix(s, "!=nil") && (strings.HasPrefix(s, "err") || s == "e!=nil"):
		return "if(err){"
	case s == "!view.IsUpdatable()":
		return "if(notUpdatable){"
	case s == "query.Query!=nil":
		return "if(hasQuery){"
	case s == "query.ValuesList!=nil":
		return "if(hasValues){"
	}
	return "if{"
}

func (w *walker) stmts(list []ast.Stmt) {
	for _, s := range list {
		w.stmt(s)
	}
}

func (w *walker) stmt(s ast.Stmt) {
	switch x := s.(type) {
	case *ast.IfStmt:
		if x.Init != nil {
			w.stmt(x.Init)
		}
		w.calls(x.Cond)
		w.emit(condToken(x.Cond))
		w.stmts(x.Body.List)
		w.emit("}")
		if x.Else != nil {
			w.emit("else{")
			switch e := x.Else.(type) {
			case *ast.BlockStmt:
				w.stmts(e.List)
			default:
				w.stmt(e)
			}
			w.emit("}")
		}
	case *ast.BlockStmt:
		w.stmts(x.List)
	case *ast.ForStmt:
		w.emit("loop{")
		w.stmts(x.Body.List)
		w.emit("}")
	case *ast.RangeStmt:
		w.calls(x.X)
		w.emit("loop(" + strings.ReplaceAll(src(x.X), " ", "") + "){")
		w.stmts(x.Body.List)
		w.emit("}")
	case *ast.SwitchStmt:
		if x.Init != nil {
			w.stmt(x.Init)
		}
		if x.Tag != nil {
			w.calls(x.Tag)
		}
		w.emit("switch{")
		for _, c := range x.Body.List {
			cc := c.(*ast.CaseClause)
			w.emit("case{")
			w.stmts(cc.Body)
			w.emit("}")
		}
		w.emit("}")
	case *ast.ReturnStmt:
		for _, r := range x.Results {
			w.calls(r)
		}
		w.emit("return")
	case *ast.DeferStmt:
		sub := &walker{}
		if fl, ok := x.Call.Fun.(*ast.FuncLit); ok {
			sub.stmts(fl.Body.List)
		} else {
			sub.calls(x.Call)
		}
		for _, t := range sub.out {
			w.emit("defer:" + t)
		}
	case *ast.AssignStmt:
		for _, r := range x.Rhs {
			if _, ok := r.(*ast.FuncLit); ok {
				die("%s: a closure is stored in a variable (its body would be analysed nowhere)", fset.Position(s.Pos()))
			}
			w.calls(r)
		}
		for _, l := range x.Lhs {
			ls := strings.ReplaceAll(src(l), " ", "")
			switch {
			case strings.Contains(ls, ".RecordSet["):
				// X.RecordSet[i][j] = cell replaces a cell of the (copied) record; a third index writes INTO the cell,
				// which the copy shares with the cached table
				if strings.Count(ls[strings.Index(ls, ".RecordSet["):], "[") >= 3 {
					w.emit("write_into_shared_cell(" + ls[:strings.Index(ls, ".RecordSet[")] + ")")
				} else {
					w.emit("write_cell(" + ls[:strings.Index(ls, ".RecordSet[")] + ")")
				}
			case strings.HasSuffix(ls, ".RecordSet"):
				w.emit("set_records(" + strings.TrimSuffix(ls, ".RecordSet") + ")")
			case strings.Contains(ls, ".Header[") && strings.HasSuffix(ls, ".Column"):
				w.emit("write_header(" + ls[:strings.Index(ls, ".Header[")] + ")")
			case strings.HasSuffix(ls, ".Header"):
				w.emit("set_header(" + strings.TrimSuffix(ls, ".Header") + ")")
			case strings.HasSuffix(ls, ".FileInfo"):
				w.emit("set_fileinfo(" + strings.TrimSuffix(ls, ".FileInfo") + ")")
			case strings.Contains(ls, ".FileInfo."):
				// a write INTO the FileInfo, which the working copy shares with the cached table: it must come
				// after the last step that can fail (C08-m16 put it before the DEFAULT expressions were evaluated)
				w.emit("write_fileinfo_field(" + ls[strings.Index(ls, ".FileInfo.")+len(".FileInfo."):] + ")")
			case strings.HasSuffix(ls, "Tx.AffectedRows"):
				w.emit("store_affected(" + strings.ReplaceAll(src(x.Rhs[0]), " ", "") + ")")
			case strings.HasSuffix(ls, ".selectFields"):
				w.emit("set_select_fields(" + strings.TrimSuffix(ls, ".selectFields") + ")")
			case ls == "updatedCount[viewref]":
				w.emit("count_record")
			case ls == "err" && len(x.Rhs) == 1 && src(x.Rhs[0]) == "e":
				w.emit("set_err")
			}
		}
	case *ast.IncDecStmt:
		if strings.ReplaceAll(src(x.X), " ", "") == "updatedCount[viewref]" {
			w.emit("count_record")
		}
	case *ast.ExprStmt:
		w.calls(x.X)
	case *ast.DeclStmt, *ast.BranchStmt, *ast.EmptyStmt:
	default:
		die("%s: statement kind %T is outside the translated subset", fset.Position(s.Pos()), s)
	}
}

func leanList(l []string) string {
	q := make([]string, len(l))
	for i, s := range l {
		q[i] = fmt.Sprintf("%q", s)
	}
	return "[" + strings.Join(q, ", ") + "]"
}

// the case clause of Processor.ExecuteStatement for a statement type
func procCase(fd *ast.FuncDecl, typ string) []ast.Stmt {
	var found []ast.Stmt
	n := 0
	ast.Inspect(fd.Body, func(x ast.Node) bool {
		ts, ok := x.(*ast.TypeSwitchStmt)
		if !ok {
			return true
		}
		for _, c := range ts.Body.List {
			cc := c.(*ast.CaseClause)
			for _, e := range cc.List {
				if src(e) == "parser."+typ {
					found = cc.Body
					n++
				}
			}
		}
		return false
	})
	if n != 1 {
		die("ExecuteStatement: %d case clauses for parser.%s", n, typ)
	}
	return found
}

// the affected-row counts a function returns on success: the expressions of its LAST return statement
func lastReturn(fd *ast.FuncDecl) string {
	last := fd.Body.List[len(fd.Body.List)-1]
	r, ok := last.(*ast.ReturnStmt)
	if !ok {
		die("%s: the function does not end with a return statement", fd.Name.Name)
	}
	var parts []string
	for _, e := range r.Results {
		parts = append(parts, strings.ReplaceAll(src(e), " ", ""))
	}
	return strings.Join(parts, ";")
}

// where a returned count variable gets its value: all right-hand sides assigned / appended to it
func countSources(fd *ast.FuncDecl, names ...string) []string {
	var out []string
	ast.Inspect(fd.Body, func(x ast.Node) bool {
		as, ok := x.(*ast.AssignStmt)
		if !ok {
			return true
		}
		for i, l := range as.Lhs {
			ls := src(l)
			for _, n := range names {
				if ls == n && len(as.Rhs) > 0 {
					r := as.Rhs[0]
					if len(as.Rhs) == len(as.Lhs) {
						r = as.Rhs[i]
					}
					out = append(out, n+":="+strings.ReplaceAll(src(r), " ", ""))
				}
			}
		}
		return true
	})
	return out
}

func main() {
	q := parse("lib/query/query.go")
	p := parse("lib/query/processor.go")
	h := parse("lib/query/header.go")

	var o strings.Builder
	o.WriteString("-- GENERATED by /verif/extract/dmlfacts from lib/query/query.go, processor.go, header.go — do not edit.\n\nnamespace Csvq.Gen\n\n")
	for _, name := range []string{"Insert", "Update", "Replace", "Delete", "CreateTable", "AddColumns", "DropColumns", "RenameColumn", "SetTableAttribute"} {
		fd := findFunc(q, "", name)
		w := &walker{}
		w.stmts(fd.Body.List)
		o.WriteString(fmt.Sprintf("/-- structured effects of `%s` (lib/query/query.go) -/\ndef fx%s : List String :=\n  %s\n\n", name, name, leanList(w.out)))
		o.WriteString(fmt.Sprintf("/-- what `%s` returns on success -/\ndef ret%s : String := %q\n\n", name, name, lastReturn(fd)))
	}
	o.WriteString("/-- where the returned counts come from -/\ndef countSources : List String :=\n  " + leanList(append(append(append(append(
		countSources(findFunc(q, "", "Insert"), "insertRecords"),
		countSources(findFunc(q, "", "Replace"), "replaceRecords")...),
		countSources(findFunc(q, "", "Update"), "updateRecords")...),
		countSources(findFunc(q, "", "Delete"), "deletedCounts")...),
		countSources(findFunc(q, "", "DropColumns"), "dropIndices")...)) + "\n\n")
	ex := findFunc(p, "Processor", "ExecuteStatement")
	for _, typ := range []string{"InsertQuery", "UpdateQuery", "ReplaceQuery", "DeleteQuery", "CreateTable", "AddColumns", "DropColumns", "RenameColumn", "SetTableAttribute"} {
		w := &walker{}
		w.stmts(procCase(ex, typ))
		o.WriteString(fmt.Sprintf("/-- the case `parser.%s` of Processor.ExecuteStatement -/\ndef fxProc%s : List String :=\n  %s\n\n", typ, typ, leanList(w.out)))
	}
	lw := &walker{}
	lw.stmts(findFunc(parse("lib/query/load_view.go"), "", "loadObjectFromFile").Body.List)
	o.WriteString("/-- `loadObjectFromFile` (lib/query/load_view.go): what happens between the cache and the statement -/\ndef fxLoadObjectFromFile : List String :=\n  " + leanList(lw.out) + "\n\n")
	hw := &walker{}
	hu := findFunc(h, "Header", "Update")
	hw.stmts(hu.Body.List)
	// the guard of the only fallible part of Header.Update
	guard := ""
	if is, ok := hu.Body.List[0].(*ast.IfStmt); ok {
		guard = strings.ReplaceAll(src(is.Cond), " ", "")
	}
	o.WriteString("/-- Header.Update (RestoreHeaderReferences = Header.Update(name, nil)) -/\ndef fxHeaderUpdate : List String :=\n  " + leanList(hw.out) + "\n\n")
	o.WriteString(fmt.Sprintf("def headerUpdateGuard : String := %q\n\n", guard))
	rh := findFunc(parse("lib/query/view.go"), "View", "RestoreHeaderReferences")
	o.WriteString(fmt.Sprintf("def restoreHeaderBody : String := %q\n\n", strings.Join(strings.Fields(src(rh.Body)), " ")))
	o.WriteString("end Csvq.Gen\n")
	fmt.Print(o.String())
}
