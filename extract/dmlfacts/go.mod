module dmlfacts

go 1.18
