module convfacts

go 1.18
