// convfacts: reads lib/value/conv.go, lib/value/type.go and the cast functions of lib/query/function.go of csvq and
// prints Csvq/Gen/ConvFacts.lean — every conversion function TRANSLATED into a Lean function on the model's `Val`:
//
//   value.ToInteger / ToIntegerStrictly / ToFloat / ToDatetime / ToBoolean / ToString      the type switch becomes a
//       match on the constructor, every case body statement by statement in source order, falling off a case leads to
//       the statement after the switch;
//   the Ternary() methods of String / Integer / Float / Boolean / Ternary / Datetime / Null → `ternary`;
//   query.String / Integer / Float / Boolean / Ternary / Datetime (one argument)             the casts.
//
// Calls into the standard library become the model's functions BY NAME:
//   strconv.ParseInt(option.TrimSpace(s), 10, 64) ↦ PF.strToIntStrictB     strconv.ParseFloat(option.TrimSpace(s), 64) ↦ PF.strToFloat
//   StrToTime(s, formats, location) ↦ PT.strToTime (session: no custom formats, UTC)  strconv.ParseBool ↦ parseBoolStrict
//   int64(f) ↦ goInt64 (truncToInt64, amd64: MinInt64 outside the range)               float64(i) ↦ FVal.ofInt
//   math.IsNaN / math.IsInf ↦ FVal.isNaN / isInf      Int64ToStr ↦ decText      Float64ToStr(f, false) ↦ FF.fmtF
//   t.Unix() ↦ ns / 10^9 (floor)   t.Nanosecond() ↦ ns % 10^9   time.Unix(sec, nsec) ↦ sec·10^9 + nsec   Format(RFC3339Nano) ↦ FT.fmtTime
// Four bodies that are not of the statement shapes above (value.Float64ToTime — `f < 0` ↦ FVal.flt f 0 —, value.TimeFromUnixTime, the Datetime
// case of query.Float, the closure `conv` of query.Datetime) are PINNED: their normalised source text must be the
// reviewed one, and the Lean text printed for them is fixed here.
// Stdlib only.  Fails loudly (exit 1) on anything outside these shapes.
package main

import (
	"fmt"
	"go/ast"
	"go/parser"
	"go/printer"
	"go/token"
	"os"
	"path/filepath"
	"strings"
)

var fset = token.NewFileSet()

func die(format string, a ...interface{}) {
	fmt.Fprintf(os.Stderr, "convfacts: "+format+"\n", a...)
	os.Exit(1)
}

func src(n ast.Node) string {
	var sb strings.Builder
	_ = printer.Fprint(&sb, fset, n)
	return strings.Join(strings.Fields(sb.String()), " ")
}

func fn(f *ast.File, name string) *ast.FuncDecl {
	for _, d := range f.Decls {
		if x, ok := d.(*ast.FuncDecl); ok && x.Name.Name == name && x.Recv == nil {
			return x
		}
	}
	die("%s not found", name)
	return nil
}

func method(f *ast.File, recv, name string) *ast.FuncDecl {
	for _, d := range f.Decls {
		if x, ok := d.(*ast.FuncDecl); ok && x.Name.Name == name && x.Recv != nil && len(x.Recv.List) == 1 && src(x.Recv.List[0].Type) == recv {
			return x
		}
	}
	die("method %s.%s not found", recv, name)
	return nil
}

var ctor = map[string]string{"Integer": ".int x", "Float": ".flt x", "String": ".str x", "Boolean": ".bool x", "Ternary": ".tern x", "Datetime": ".dt x", "Null": ".null"}

// translation context of one function
type ctx struct {
	name    string // Go function name (for messages)
	param   string // the Primary parameter as written in the source: p, or args[0]
	bind    string // the variable the type switch binds ("" if none)
	typ     string // the type of the current case
	trimmed string // variable holding option.TrimSpace(raw), if any
	pkg     string // "value." inside lib/query, "" inside lib/value
}

// raw: replace every spelling of "the raw value of the matched constructor" by RAW
func (c *ctx) norm(s string) string {
	s = strings.ReplaceAll(s, c.pkg, "")
	for _, t := range []string{"Integer", "Float", "String", "Boolean", "Ternary", "Datetime"} {
		s = strings.ReplaceAll(s, c.param+".(*"+t+").Raw()", "RAW")
	}
	if c.bind != "" {
		s = strings.ReplaceAll(s, c.bind+".Raw()", "RAW")
		s = strings.ReplaceAll(s, c.bind+".Ternary()", "RAWT")
		s = strings.ReplaceAll(s, c.bind+".Format(time.RFC3339Nano)", "RAWFMT")
	}
	return s
}

func (c *ctx) val(e ast.Expr) string {
	t := c.norm(src(e))
	switch t {
	case "NewNull()":
		return ".null"
	case "NewInteger(RAW)":
		return ".int x"
	case "NewInteger(int64(RAW))":
		return ".int (goInt64 x)"
	case "NewInteger(i)":
		return ".int i"
	case "NewInteger(int64(f))":
		return ".int (goInt64 f)"
	case "NewInteger(RAW.Unix())":
		return ".int (x / 1000000000)"
	case "NewFloat(float64(RAW))":
		return ".flt (FVal.ofInt x)"
	case "NewFloat(RAW)":
		return ".flt x"
	case "NewFloat(f)":
		return ".flt f"
	case "NewDatetime(RAW)":
		return ".dt x"
	case "NewDatetime(dt)":
		return ".dt dt"
	case "NewBoolean(RAW)":
		return ".bool x"
	case "NewBoolean(" + c.param + ".Ternary().ParseBool())":
		return ".bool (ternParseBool (ternary v))"
	case "NewString(RAW)":
		return ".str x"
	case "NewString(Int64ToStr(RAW))":
		return ".str (decText x)"
	case "NewString(Float64ToStr(RAW, false))":
		return ".str (FF.fmtF x)"
	case "NewString(strconv.FormatBool(RAW))":
		return ".str (if x then sTrue else sFalse)"
	case "NewString(RAWT.String())":
		return ".str (ternText x)"
	case "NewString(RAWFMT)":
		return ".str (FT.fmtTime x off)"
	case "NewTernary(" + c.param + ".Ternary())":
		return ".tern (ternary v)"
	case "ToString(" + c.param + ")":
		return "toString v"
	case "ToInteger(" + c.param + ")":
		return "toInteger v"
	case "ToFloat(" + c.param + ")":
		return "toFloat v"
	case "ToBoolean(" + c.param + ")":
		return "toBoolean v"
	}
	die("%s: value expression `%s` (normalised `%s`) not supported", c.name, src(e), t)
	return ""
}

func (c *ctx) cond(e ast.Expr) string {
	t := c.norm(src(e))
	switch t {
	case "math.IsNaN(RAW) || math.IsInf(RAW, 0)":
		return "(x.isNaN || x.isInf) = true"
	case c.param + ".Ternary() != ternary.UNKNOWN":
		return "ternary v ≠ .U"
	}
	die("%s: condition `%s` not supported", c.name, src(e))
	return ""
}

func (c *ctx) ret(st ast.Stmt) (string, bool) {
	r, ok := st.(*ast.ReturnStmt)
	if !ok {
		return "", false
	}
	if len(r.Results) == 2 {
		if src(r.Results[1]) != "nil" {
			die("%s: return with a non-nil error `%s`", c.name, src(r))
		}
	} else if len(r.Results) != 1 {
		die("%s: return `%s`", c.name, src(r))
	}
	return c.val(r.Results[0]), true
}

// stmts: the Lean expression of a statement list; `k` is where control goes when it falls off the end
func (c *ctx) stmts(l []ast.Stmt, k string, ind string) string {
	if len(l) == 0 {
		return k
	}
	st := l[0]
	if v, ok := c.ret(st); ok {
		if len(l) != 1 {
			die("%s: statements after a return", c.name)
		}
		return v
	}
	switch x := st.(type) {
	case *ast.AssignStmt:
		if c.norm(src(x)) == "s := option.TrimSpace(RAW)" && c.typ == "String" {
			c.trimmed = "s"
			return c.stmts(l[1:], k, ind)
		}
	case *ast.IfStmt:
		if x.Else != nil {
			die("%s: an else branch", c.name)
		}
		rest := c.stmts(l[1:], k, ind+"  ")
		body := c.stmts(x.Body.List, "", ind+"  ")
		if body == "" {
			die("%s: an if body that does not return", c.name)
		}
		if x.Init == nil {
			return fmt.Sprintf("if %s then %s\n%selse %s", c.cond(x.Cond), body, ind, rest)
		}
		init, cnd := c.norm(src(x.Init)), src(x.Cond)
		switch {
		case init == "i, e := strconv.ParseInt(s, 10, 64)" && cnd == "e == nil" && c.trimmed == "s":
			return fmt.Sprintf("match PF.strToIntStrictB x with\n%s| some i => %s\n%s| none => %s", ind, body, ind, rest)
		case init == "f, e := strconv.ParseFloat(s, 64)" && cnd == "e == nil" && c.trimmed == "s":
			return fmt.Sprintf("match PF.strToFloat x with\n%s| some f => %s\n%s| none => %s", ind, body, ind, rest)
		case init == "dt, ok := StrToTime(RAW, formats, location)" && cnd == "ok" && c.typ == "String":
			return fmt.Sprintf("match PT.strToTime x with\n%s| some dt => %s\n%s| none => %s", ind, body, ind, rest)
		}
	}
	die("%s: statement `%s` not supported", c.name, src(st))
	return ""
}

// typeSwitchFn: `switch [b :=] <param>.(type) { case …: … [default: …] }` followed by `after` statements
func typeSwitchFn(fd *ast.FuncDecl, param, pkg string, skipFirst int) string {
	c := &ctx{name: fd.Name.Name, param: param, pkg: pkg}
	l := fd.Body.List[skipFirst:]
	if len(l) < 1 {
		die("%s: empty body", c.name)
	}
	ts, ok := l[0].(*ast.TypeSwitchStmt)
	if !ok || ts.Init != nil {
		die("%s: first statement is not a type switch", c.name)
	}
	switch a := ts.Assign.(type) {
	case *ast.AssignStmt:
		c.bind = src(a.Lhs[0])
		if src(a.Rhs[0]) != param+".(type)" {
			die("%s: type switch over `%s`", c.name, src(a.Rhs[0]))
		}
	case *ast.ExprStmt:
		if src(a.X) != param+".(type)" {
			die("%s: type switch over `%s`", c.name, src(a.X))
		}
	}
	after := ".null"
	hasDefault := false
	if len(l) > 1 {
		after = c.stmts(l[1:], "", "  ")
		if after == "" {
			die("%s: the statements after the switch do not return", c.name)
		}
	}
	var sb strings.Builder
	sb.WriteString("  match v with\n")
	seen := map[string]bool{}
	def := ""
	for _, cl := range ts.Body.List {
		cc := cl.(*ast.CaseClause)
		if cc.List == nil {
			hasDefault = true
			c.typ, c.trimmed = "", ""
			def = c.stmts(cc.Body, after, "    ")
			continue
		}
		for _, te := range cc.List {
			t := strings.TrimPrefix(strings.TrimPrefix(src(te), "*"), strings.TrimSuffix(pkg, ".")+".")
			t = strings.TrimPrefix(t, "*")
			t = strings.TrimPrefix(t, strings.TrimSuffix(pkg, ".")+".")
			pat, ok := ctor[t]
			if !ok || seen[t] {
				die("%s: case type `%s`", c.name, src(te))
			}
			seen[t] = true
			c.typ, c.trimmed = t, ""
			fmt.Fprintf(&sb, "  | %s =>\n    %s\n", pat, c.stmts(cc.Body, after, "    "))
		}
	}
	if !hasDefault {
		def = after
	}
	if len(seen) < len(ctor) {
		fmt.Fprintf(&sb, "  | _ => %s\n", def)
	}
	return sb.String()
}

func pinned(fd *ast.FuncDecl, want string) {
	if got := src(fd.Body); got != want {
		die("%s: the body is no longer the reviewed one.\n  found:    %s\n  reviewed: %s", fd.Name.Name, got, want)
	}
}

func argCheck(fd *ast.FuncDecl) {
	if got := src(fd.Body.List[0]); got != "if len(args) != 1 { return nil, NewFunctionArgumentLengthError(fn, fn.Name, []int{1}) }" {
		die("%s: first statement `%s` is not the argument count check", fd.Name.Name, got)
	}
}

func main() {
	repo := os.Getenv("VERIF_REPO")
	if repo == "" {
		repo = "/repo"
	}
	parse := func(rel string) *ast.File {
		f, err := parser.ParseFile(fset, filepath.Join(repo, rel), nil, 0)
		if err != nil {
			die("%v", err)
		}
		return f
	}
	conv, typ, fun := parse("lib/value/conv.go"), parse("lib/value/type.go"), parse("lib/query/function.go")
	var b strings.Builder
	p := func(format string, a ...interface{}) { fmt.Fprintf(&b, format, a...) }
	p("/- GENERATED by extract/convfacts from lib/value/conv.go, lib/value/type.go, lib/query/function.go — do not edit. -/\n")
	p("import Csvq.Model.CastFull\nnamespace Csvq.Gen.Conv\nopen Csvq\n\n")
	p("/-- Go's `int64(f)` on amd64 -/\ndef goInt64 (f : FVal) : Int := match truncToInt64 f with | some i => i | none => minI64\n\n")
	p("/-- ternary.Value.ParseBool -/\ndef ternParseBool : Tern → Bool | .T => true | _ => false\n\n")
	p("/-- ternary.Value.String -/\ndef ternText : Tern → Bytes\n  | .T => [84, 82, 85, 69] | .F => [70, 65, 76, 83, 69] | .U => [85, 78, 75, 78, 79, 87, 78]\n\n")

	// ---- the Ternary() methods
	tern := map[string]string{}
	for _, t := range []string{"String", "Integer", "Float", "Boolean", "Ternary", "Datetime", "Null"} {
		body := src(method(typ, t, "Ternary").Body)
		switch {
		case t == "String" && body == "{ lit := option.TrimSpace(s.Raw()) if b, err := strconv.ParseBool(lit); err == nil { return ternary.ConvertFromBool(b) } return ternary.UNKNOWN }":
			tern[t] = "(match parseBoolStrict (PF.trimSpace x) with | some b => Tern.ofBool b | none => .U)"
		case t == "Integer" && body == "{ switch i.Raw() { case 0: return ternary.FALSE case 1: return ternary.TRUE default: return ternary.UNKNOWN } }":
			tern[t] = "if x = 0 then .F else if x = 1 then .T else .U"
		case t == "Float" && body == "{ switch f.Raw() { case 0: return ternary.FALSE case 1: return ternary.TRUE default: return ternary.UNKNOWN } }":
			// a switch on a float compares with ==: -0 matches 0, NaN matches nothing
			tern[t] = "if FVal.feq x (FVal.ofInt 0) then .F else if FVal.feq x (FVal.ofInt 1) then .T else .U"
		case t == "Boolean" && body == "{ return ternary.ConvertFromBool(b.Raw()) }":
			tern[t] = "Tern.ofBool x"
		case t == "Ternary" && body == "{ return t.value }":
			tern[t] = "x"
		case (t == "Datetime" || t == "Null") && body == "{ return ternary.UNKNOWN }":
			tern[t] = ".U"
		default:
			die("%s.Ternary: body `%s` not supported", t, body)
		}
	}
	p("/-- `Primary.Ternary()`, method by method (lib/value/type.go) -/\ndef ternary (v : Val) : Tern :=\n  match v with\n")
	for _, t := range []string{"String", "Integer", "Float", "Boolean", "Ternary", "Datetime", "Null"} {
		p("  | %s => %s\n", ctor[t], tern[t])
	}
	p("\n")

	// ---- the conversion functions of lib/value/conv.go
	for _, f := range []struct{ goName, leanName, doc string }{
		{"ToString", "toString", "value.ToString"},
		{"ToInteger", "toInteger", "value.ToInteger"},
		{"ToIntegerStrictly", "toIntegerStrictly", "value.ToIntegerStrictly"},
		{"ToFloat", "toFloat", "value.ToFloat"},
		{"ToDatetime", "toDatetime", "value.ToDatetime (session: no custom formats, UTC)"},
		{"ToBoolean", "toBoolean", "value.ToBoolean"},
	} {
		p("/-- `%s` -/\ndef %s (v : Val) : Val :=\n%s\n", f.doc, f.leanName, typeSwitchFn(fn(conv, f.goName), "p", "", 0))
	}

	// ---- pinned: Float64ToTime, TimeFromUnixTime
	pinned(fn(conv, "TimeFromUnixTime"), "{ return time.Unix(sec, nano).In(location) }")
	p("/-- `value.TimeFromUnixTime` (pinned): time.Unix(sec, nano), as nanoseconds -/\ndef timeFromUnixTime (sec nano : Int) : Int := sec * 1000000000 + nano\n\n")
	pinned(fn(conv, "Float64ToTime"), "{ s := Float64ToStr(f, false) ar := strings.Split(s, \".\") sec, _ := strconv.ParseInt(ar[0], 10, 64) nsec, _ := (func() (int64, error) { if len(ar) < 2 { return 0, nil } if 9 < len(ar[1]) { return strconv.ParseInt(ar[1][:9], 10, 64) } dec := ar[1] + strings.Repeat(\"0\", 9-len(ar[1])) return strconv.ParseInt(dec, 10, 64) })() if f < 0 { nsec = -nsec } return TimeFromUnixTime(sec, nsec, location) }")
	p("/-- `value.Float64ToTime` (pinned): the float's text split at the point, seconds and nine digits of nanoseconds\n    read with strconv.ParseInt (errors dropped), the nanoseconds negated for a negative float, handed to TimeFromUnixTime -/\n")
	p("def float64ToTime (f : FVal) : Int :=\n  let ar := splitPoint (FF.fmtF f)\n  let nsec : Int := (match ar.2 with\n     | none => 0\n     | some d => if 9 < d.length then parseIntLenient (d.take 9) else parseIntLenient (d ++ FF.zeros (9 - d.length)))\n  timeFromUnixTime (parseIntLenient ar.1) (if FVal.flt f (FVal.ofInt 0) then -nsec else nsec)\n\n")

	// ---- the casts of lib/query/function.go
	for _, f := range []struct{ goName, leanName, sig string }{
		{"String", "castString", "(v : Val) (off : Int)"},
		{"Integer", "castInteger", "(v : Val)"},
	} {
		fd := fn(fun, f.goName)
		argCheck(fd)
		p("/-- `query.%s` (one argument)%s -/\ndef %s %s : Val :=\n%s\n", f.goName, map[bool]string{true: "; `off` = the zone offset of a Datetime argument", false: ""}[f.goName == "String"], f.leanName, f.sig,
			typeSwitchFn(fd, "args[0]", "value.", 1))
	}
	{
		fd := fn(fun, "Float")
		argCheck(fd)
		want := "switch p := args[0].(type) { case *value.Datetime: t := p.Raw() f := float64(t.Unix()) if t.Nanosecond() > 0 { f = f + float64(t.Nanosecond())/1e9 } return value.NewFloat(f), nil default: return value.ToFloat(args[0]), nil }"
		if got := src(fd.Body.List[1]); got != want || len(fd.Body.List) != 2 {
			die("Float: the body is no longer the reviewed one: %s", got)
		}
		p("/-- `query.Float` (pinned Datetime case): float64(Unix seconds), plus float64(nanoseconds)/1e9 in float arithmetic when there are any -/\n")
		p("def castFloat (v : Val) : Val :=\n  match v with\n  | .dt x =>\n    if x %% 1000000000 > 0 then .flt (FVal.add (FVal.ofInt (x / 1000000000)) (FVal.div (FVal.ofInt (x %% 1000000000)) (FVal.ofInt 1000000000)))\n    else .flt (FVal.ofInt (x / 1000000000))\n  | _ => toFloat v\n\n")
	}
	for _, f := range []struct{ goName, leanName, want, lean string }{
		{"Boolean", "castBoolean", "return value.ToBoolean(args[0]), nil", "toBoolean v"},
		{"Ternary", "castTernary", "return value.NewTernary(args[0].Ternary()), nil", ".tern (ternary v)"},
	} {
		fd := fn(fun, f.goName)
		argCheck(fd)
		if len(fd.Body.List) != 2 || src(fd.Body.List[1]) != f.want {
			die("%s: body `%s`", f.goName, src(fd.Body))
		}
		p("/-- `query.%s` -/\ndef %s (v : Val) : Val := %s\n\n", f.goName, f.leanName, f.lean)
	}
	{
		fd := fn(fun, "Datetime")
		want := "conv := func(p value.Primary, location *time.Location) value.Primary { if dt := value.ToDatetime(p, flags.DatetimeFormat, location); !value.IsNull(dt) { return dt } if i := value.ToIntegerStrictly(p); !value.IsNull(i) { val := i.(*value.Integer).Raw() value.Discard(i) return value.NewDatetime(value.TimeFromUnixTime(val, 0, location)) } if f := value.ToFloat(p); !value.IsNull(f) { val := f.(*value.Float).Raw() value.Discard(f) if math.IsNaN(val) || math.IsInf(val, 0) { return value.NewNull() } return value.NewDatetime(value.Float64ToTime(val, location)) } return value.NewNull() }"
		if got := src(fd.Body.List[0]); got != want {
			die("Datetime: the closure `conv` is no longer the reviewed one:\n  %s", got)
		}
		p("/-- `query.Datetime`, its closure `conv` (pinned): ToDatetime, else ToIntegerStrictly as Unix seconds, else ToFloat through\n    Float64ToTime unless NaN / ±Inf, else NULL -/\n")
		p("def castDatetime (v : Val) : Val :=\n  match toDatetime v with\n  | .null =>\n    (match toIntegerStrictly v with\n     | .int i => .dt (timeFromUnixTime i 0)\n     | _ =>\n       match toFloat v with\n       | .flt f => if (f.isNaN || f.isInf) = true then .null else .dt (float64ToTime f)\n       | _ => .null)\n  | d => d\n\n")
	}
	p("end Csvq.Gen.Conv\n")
	fmt.Print(b.String())
}
