// run.go (`cliproto -run`): the functions of a run that ACQUIRE a file and register the deferred release themselves —
// action.Run (the --out file: file.Create … defer { remove when empty; close }) and query.LoadContentsFromFile (the
// --source / SOURCE file: CreateHandlerWithoutLock … defer Close) — and every FAN-OUT of lib/query (the statements
// from the first `go` of a function to the statement that joins the workers), as trees of Csvq.CliFrame.Node with
// their control flow: Csvq/Gen/RunFrame.lean.
//
//	.call "defer#k"   registration of the k-th deferred function literal of the function (bodies listed separately)
//	.call "failed"    first call of the branch `if err != nil { … }` that tests the error of the call made just before
//	.call "go"        a goroutine is started (its body is not part of this function's path)
//	.call "wait"      X.Wait() in THIS goroutine (a Wait inside a function literal joins nothing here)
//	loops are unrolled to 0, 1 and 2 rounds (break / continue: the rest of the round is kept — more paths, not fewer),
//	select and switch become chains of two-way branches.
//
// Stdlib only.  Fails loudly (exit 1) on anything it does not recognise.
package main

import (
	"fmt"
	"go/ast"
	"go/parser"
	"go/token"
	"os"
	"path/filepath"
	"sort"
	"strings"
)

type rTrans struct {
	fn       string
	deferred []string // bodies of the deferred function literals, in source order
	inFanout bool
}

// rCalls: the calls of an expression / simple statement in evaluation order; a call of a method named Wait is "wait"
func (t *rTrans) rCalls(n ast.Node) []string {
	var out []string
	var visit func(x ast.Node)
	visit = func(x ast.Node) {
		if x == nil {
			return
		}
		ast.Inspect(x, func(y ast.Node) bool {
			switch v := y.(type) {
			case *ast.FuncLit:
				return false
			case *ast.CallExpr:
				if _, ok := v.Fun.(*ast.FuncLit); ok {
					die("-run: function literal called on the spot in %s: %s", t.fn, src(v))
				}
				visit(v.Fun)
				for _, a := range v.Args {
					visit(a)
				}
				fn := src(v.Fun)
				switch {
				case never[fn]:
					out = append(out, "(.stop "+lit(fn)+")")
				case strings.HasSuffix(fn, ".Wait"):
					out = append(out, "(.call \"wait\")")
				default:
					out = append(out, "(.call "+lit(fn)+")")
				}
				return false
			}
			return true
		})
	}
	visit(n)
	return out
}

// errOf: the variables a statement assigns from a call (`x, err := f()` → err ↦ f)
func errOf(st ast.Stmt) map[string]bool {
	m := map[string]bool{}
	if a, ok := st.(*ast.AssignStmt); ok && len(a.Rhs) == 1 {
		if _, isCall := a.Rhs[0].(*ast.CallExpr); isCall {
			for _, l := range a.Lhs {
				m[src(l)] = true
			}
		}
	}
	return m
}

func nilTestOf(cond ast.Expr) string {
	b, ok := cond.(*ast.BinaryExpr)
	if !ok || b.Op != token.NEQ {
		return ""
	}
	if id, ok := b.Y.(*ast.Ident); !ok || id.Name != "nil" {
		return ""
	}
	if id, ok := b.X.(*ast.Ident); ok {
		return id.Name
	}
	return ""
}

func (t *rTrans) stmts(list []ast.Stmt) string {
	parts := make([]string, 0, len(list))
	prev := map[string]bool{}
	for _, st := range list {
		parts = append(parts, t.stmt(st, prev))
		prev = errOf(st)
	}
	return seq(parts)
}

func (t *rTrans) loop(body string) string {
	return "(.ite \"loop\" (.seq " + body + " (.ite \"loop\" " + body + " .skip)) .skip)"
}

func (t *rTrans) stmt(st ast.Stmt, prev map[string]bool) string {
	switch x := st.(type) {
	case nil:
		return ".skip"
	case *ast.EmptyStmt, *ast.BranchStmt:
		return ".skip"
	case *ast.LabeledStmt:
		return t.stmt(x.Stmt, prev)
	case *ast.ExprStmt, *ast.AssignStmt, *ast.DeclStmt, *ast.IncDecStmt, *ast.SendStmt:
		return seq(t.rCalls(x))
	case *ast.BlockStmt:
		return t.stmts(x.List)
	case *ast.ReturnStmt:
		return seq(append(t.rCalls(x), ".ret"))
	case *ast.GoStmt:
		// the arguments are evaluated here, the function runs elsewhere
		var parts []string
		for _, a := range x.Call.Args {
			parts = append(parts, t.rCalls(a)...)
		}
		return seq(append(parts, "(.call \"go\")"))
	case *ast.DeferStmt:
		fl, ok := x.Call.Fun.(*ast.FuncLit)
		if !ok {
			return "(.call " + lit("defer:"+src(x.Call.Fun)) + ")"
		}
		k := len(t.deferred)
		t.deferred = append(t.deferred, "") // reserve (nested defers are refused below)
		inner := &rTrans{fn: t.fn + " deferred function"}
		body := inner.stmts(fl.Body.List)
		if len(inner.deferred) > 0 {
			die("-run: defer inside a deferred function of %s", t.fn)
		}
		t.deferred[k] = body
		return fmt.Sprintf("(.call \"defer#%d\")", k)
	case *ast.IfStmt:
		var parts []string
		assigned := prev
		if x.Init != nil {
			parts = append(parts, t.stmt(x.Init, nil))
			assigned = errOf(x.Init)
		}
		parts = append(parts, t.rCalls(x.Cond)...)
		then := t.stmts(x.Body.List)
		if v := nilTestOf(x.Cond); v != "" && assigned[v] {
			then = seq([]string{"(.call \"failed\")", then})
		}
		els := ".skip"
		if x.Else != nil {
			els = t.stmt(x.Else, nil)
		}
		cond := src(x.Cond)
		if x.Init != nil {
			cond = src(x.Init) + "; " + cond
		}
		parts = append(parts, "(.ite "+lit(cond)+" "+then+" "+els+")")
		return seq(parts)
	case *ast.ForStmt:
		var parts []string
		if x.Init != nil {
			parts = append(parts, t.stmt(x.Init, nil))
		}
		parts = append(parts, t.rCalls(x.Cond)...)
		body := t.stmts(x.Body.List)
		if x.Post != nil {
			body = seq([]string{body, t.stmt(x.Post, nil)})
		}
		parts = append(parts, t.loop(body))
		return seq(parts)
	case *ast.RangeStmt:
		parts := t.rCalls(x.X)
		parts = append(parts, t.loop(t.stmts(x.Body.List)))
		return seq(parts)
	case *ast.SelectStmt:
		chain := ".skip"
		for i := len(x.Body.List) - 1; i >= 0; i-- {
			cc := x.Body.List[i].(*ast.CommClause)
			label := "default"
			var pre []string
			if cc.Comm != nil {
				label = src(cc.Comm)
				pre = t.rCalls(cc.Comm)
			}
			chain = "(.ite " + lit("select case "+label) + " " + seq(append(pre, t.stmts(cc.Body))) + " " + chain + ")"
		}
		return chain
	case *ast.SwitchStmt, *ast.TypeSwitchStmt:
		var parts []string
		var body *ast.BlockStmt
		tag := ""
		switch sw := x.(type) {
		case *ast.SwitchStmt:
			if sw.Init != nil {
				parts = append(parts, t.stmt(sw.Init, nil))
			}
			if sw.Tag != nil {
				parts = append(parts, t.rCalls(sw.Tag)...)
				tag = src(sw.Tag)
			}
			body = sw.Body
		case *ast.TypeSwitchStmt:
			if sw.Init != nil {
				parts = append(parts, t.stmt(sw.Init, nil))
			}
			parts = append(parts, t.rCalls(sw.Assign)...)
			tag = src(sw.Assign)
			body = sw.Body
		}
		chain := ".skip"
		var clauses []*ast.CaseClause
		for _, c := range body.List {
			cc := c.(*ast.CaseClause)
			if cc.List == nil {
				chain = t.stmts(cc.Body)
			} else {
				clauses = append(clauses, cc)
			}
		}
		for i := len(clauses) - 1; i >= 0; i-- {
			cc := clauses[i]
			labels := make([]string, len(cc.List))
			var lc []string
			for j, l := range cc.List {
				labels[j] = src(l)
				lc = append(lc, t.rCalls(l)...)
			}
			chain = seq(append(lc, "(.ite "+lit("switch "+tag+" case "+strings.Join(labels, ", "))+" "+t.stmts(cc.Body)+" "+chain+")"))
		}
		parts = append(parts, chain)
		return seq(parts)
	}
	die("-run: statement outside the supported subset in %s: %s", t.fn, src(st))
	return ""
}

func containsGo(n ast.Node) bool {
	found := false
	ast.Inspect(n, func(x ast.Node) bool {
		if _, ok := x.(*ast.FuncLit); ok {
			return false
		}
		if _, ok := x.(*ast.GoStmt); ok {
			found = true
		}
		return true
	})
	return found
}

func containsWait(n ast.Node) bool {
	found := false
	ast.Inspect(n, func(x ast.Node) bool {
		if _, ok := x.(*ast.FuncLit); ok {
			return false
		}
		if c, ok := x.(*ast.CallExpr); ok {
			if s, ok := c.Fun.(*ast.SelectorExpr); ok && s.Sel.Name == "Wait" {
				found = true
			}
		}
		return true
	})
	return found
}

func findDecl(f *ast.File, recv, name string) *ast.FuncDecl {
	for _, d := range f.Decls {
		fd, ok := d.(*ast.FuncDecl)
		if !ok || fd.Name.Name != name || fd.Body == nil {
			continue
		}
		r := ""
		if fd.Recv != nil && len(fd.Recv.List) == 1 {
			r = strings.TrimPrefix(src(fd.Recv.List[0].Type), "*")
		}
		if r == recv {
			return fd
		}
	}
	return nil
}

func runMain() {
	repo := os.Getenv("VERIF_REPO")
	if repo == "" {
		repo = "/repo"
	}
	parse := func(rel string) *ast.File {
		f, err := parser.ParseFile(fset, filepath.Join(repo, rel), nil, 0)
		if err != nil {
			die("%v", err)
		}
		return f
	}
	fmt.Println("/- GENERATED by extract/cliproto -run from lib/action/run.go, lib/query/built_in_command.go, lib/query/*.go — do not edit. -/")
	fmt.Println("import Csvq.Model.CliFrame")
	fmt.Println("namespace Csvq.Gen")
	fmt.Println()

	// ---- functions that acquire a file and defer its release ----
	type frame struct{ name, file, recv, fn string }
	fmt.Println("/-- functions that acquire a file and register its release themselves: ⟨name, body, deferred bodies in source order⟩ -/")
	fmt.Println("def resourceFrames : List (String × Csvq.CliFrame.Node × List Csvq.CliFrame.Node) := [")
	frames := []frame{
		{"action.Run", "lib/action/run.go", "", "Run"},
		{"query.LoadContentsFromFile", "lib/query/built_in_command.go", "", "LoadContentsFromFile"},
	}
	for i, fr := range frames {
		fd := findDecl(parse(fr.file), fr.recv, fr.fn)
		if fd == nil {
			die("-run: %s not found in %s", fr.name, fr.file)
		}
		t := &rTrans{fn: fr.name}
		body := t.stmts(fd.Body.List)
		sep := ","
		if i == len(frames)-1 {
			sep = ""
		}
		fmt.Printf("  (%s,\n   %s,\n   [%s])%s\n", lit(fr.name), body, strings.Join(t.deferred, ",\n    "), sep)
	}
	fmt.Println("]")
	fmt.Println()

	// ---- every fan-out of lib/query ----
	dir := filepath.Join(repo, "lib/query")
	ents, err := os.ReadDir(dir)
	if err != nil {
		die("%v", err)
	}
	var names []string
	for _, e := range ents {
		if strings.HasSuffix(e.Name(), ".go") && !strings.HasSuffix(e.Name(), "_test.go") {
			names = append(names, e.Name())
		}
	}
	sort.Strings(names)
	type fan struct{ name, tree string }
	var fans []fan
	for _, nme := range names {
		f := parse(filepath.Join("lib/query", nme))
		// declared functions and function literals alike: every statement list that holds a `go` statement
		var lists func(n ast.Node, owner string)
		lists = func(n ast.Node, owner string) {
			ast.Inspect(n, func(x ast.Node) bool {
				var body *ast.BlockStmt
				name := owner
				switch v := x.(type) {
				case *ast.FuncDecl:
					body = v.Body
					name = v.Name.Name
					if v.Recv != nil && len(v.Recv.List) == 1 {
						name = strings.TrimPrefix(src(v.Recv.List[0].Type), "*") + "." + name
					}
				case *ast.FuncLit:
					body = v.Body
					name = owner + ".func"
				default:
					return true
				}
				if body == nil {
					return false
				}
				first := -1
				for i, st := range body.List {
					if containsGo(st) {
						first = i
						break
					}
				}
				if first >= 0 {
					last := len(body.List) - 1
					for i := first; i < len(body.List); i++ {
						if containsWait(body.List[i]) {
							last = i
							break
						}
					}
					t := &rTrans{fn: name, inFanout: true}
					fans = append(fans, fan{name, t.stmts(body.List[first : last+1])})
				}
				// nested literals
				for _, st := range body.List {
					ast.Inspect(st, func(y ast.Node) bool {
						if fl, ok := y.(*ast.FuncLit); ok {
							lists(fl, name)
							return false
						}
						return true
					})
				}
				return false
			})
		}
		lists(f, nme)
	}
	fmt.Println("/-- every fan-out of lib/query: ⟨function, the statements from its first `go` to the statement that joins the")
	fmt.Println("    workers (to the end of the function when nothing joins them in this goroutine)⟩ -/")
	fmt.Println("def fanouts : List (String × Csvq.CliFrame.Node) := [")
	for i, fn := range fans {
		sep := ","
		if i == len(fans)-1 {
			sep = ""
		}
		fmt.Printf("  (%s, %s)%s\n", lit(fn.name), fn.tree, sep)
	}
	fmt.Println("]")
	fmt.Println()
	fmt.Println("end Csvq.Gen")
}
