// cliproto: reads lib/cli/app.go of csvq and prints Csvq/Gen/CliProto.lean — the statements of the closure
// returned by commandAction (the frame every csvq run executes in) in source order, with the calls made
// inside each deferred function / goroutine, and every call made anywhere in that closure; and the BODY of every
// deferred function literal as a tree WITH its control flow (conditions, returns, calls that never return), so that
// "the clean-up calls are reached on every path through the deferred function" is a theorem and not a reading.
// The theorems of Csvq/Props/C11.lean read off it that the clean-up (AutoRollback, then
// ReleaseResourcesWithErrors) is deferred before anything that can return, that the signal handler is
// installed by signal.Notify and never removed, and that the handler goroutine cancels the context.
// Stdlib only.  Fails loudly (exit 1) on anything it does not recognise.
package main

import (
	"fmt"
	"go/ast"
	"go/parser"
	"go/printer"
	"go/token"
	"os"
	"path/filepath"
	"strings"
)

var fset = token.NewFileSet()

func die(format string, a ...interface{}) {
	fmt.Fprintf(os.Stderr, "cliproto: "+format+"\n", a...)
	os.Exit(1)
}

func src(n ast.Node) string {
	var sb strings.Builder
	_ = printer.Fprint(&sb, fset, n)
	return sb.String()
}

// calls lists the callee texts of every call expression below n, in source order
func calls(n ast.Node) []string {
	var out []string
	ast.Inspect(n, func(x ast.Node) bool {
		if c, ok := x.(*ast.CallExpr); ok {
			if _, lit := c.Fun.(*ast.FuncLit); !lit {
				out = append(out, src(c.Fun))
			}
		}
		return true
	})
	return out
}

func hasReturn(n ast.Node) bool {
	found := false
	ast.Inspect(n, func(x ast.Node) bool {
		if _, ok := x.(*ast.FuncLit); ok {
			return false
		}
		if _, ok := x.(*ast.ReturnStmt); ok {
			found = true
		}
		return true
	})
	return found
}

func lit(s string) string {
	return "\"" + strings.ReplaceAll(strings.ReplaceAll(s, "\\", "\\\\"), "\"", "\\\"") + "\""
}

func list(xs []string) string {
	q := make([]string, len(xs))
	for i, x := range xs {
		q[i] = lit(x)
	}
	return "[" + strings.Join(q, ", ") + "]"
}

// ---- the body of a deferred function literal as a Csvq.CliFrame.Node term ----

// never: calls after which the function does not go on
var never = map[string]bool{
	"panic": true, "os.Exit": true, "runtime.Goexit": true, "log.Fatal": true, "log.Fatalf": true, "log.Fatalln": true,
	"log.Panic": true, "log.Panicf": true, "log.Panicln": true, "syscall.Exit": true,
}

// callNodes lists the calls an expression / simple statement makes, in evaluation order (arguments before the
// call itself); the body of a function literal that is only passed on is not executed here, one that is called
// on the spot is outside the supported subset
func callNodes(n ast.Node) []string {
	var out []string
	var visit func(x ast.Node)
	visit = func(x ast.Node) {
		if x == nil {
			return
		}
		ast.Inspect(x, func(y ast.Node) bool {
			switch v := y.(type) {
			case *ast.FuncLit:
				return false
			case *ast.CallExpr:
				if _, ok := v.Fun.(*ast.FuncLit); ok {
					die("function literal called on the spot inside a deferred function: %s", src(v))
				}
				visit(v.Fun)
				for _, a := range v.Args {
					visit(a)
				}
				fn := src(v.Fun)
				if never[fn] {
					out = append(out, "(.stop "+lit(fn)+")")
				} else {
					out = append(out, "(.call "+lit(fn)+")")
				}
				return false
			}
			return true
		})
	}
	visit(n)
	return out
}

func seq(parts []string) string {
	if len(parts) == 0 {
		return ".skip"
	}
	s := parts[len(parts)-1]
	for i := len(parts) - 2; i >= 0; i-- {
		s = "(.seq " + parts[i] + " " + s + ")"
	}
	return s
}

func nodeOfStmts(list []ast.Stmt) string {
	parts := make([]string, 0, len(list))
	for _, st := range list {
		parts = append(parts, nodeOfStmt(st))
	}
	return seq(parts)
}

func nodeOfStmt(st ast.Stmt) string {
	switch x := st.(type) {
	case nil:
		return ".skip"
	case *ast.ExprStmt, *ast.AssignStmt, *ast.DeclStmt, *ast.IncDecStmt, *ast.SendStmt, *ast.EmptyStmt:
		return seq(callNodes(x))
	case *ast.BlockStmt:
		return nodeOfStmts(x.List)
	case *ast.ReturnStmt:
		return seq(append(callNodes(x), ".ret"))
	case *ast.IfStmt:
		var parts []string
		if x.Init != nil {
			parts = append(parts, nodeOfStmt(x.Init))
		}
		parts = append(parts, callNodes(x.Cond)...)
		els := ".skip"
		if x.Else != nil {
			els = nodeOfStmt(x.Else)
		}
		cond := src(x.Cond)
		if x.Init != nil {
			cond = src(x.Init) + "; " + cond
		}
		parts = append(parts, "(.ite "+lit(cond)+" "+nodeOfStmts(x.Body.List)+" "+els+")")
		return seq(parts)
	case *ast.SwitchStmt, *ast.TypeSwitchStmt:
		var parts []string
		var body *ast.BlockStmt
		tag := ""
		switch sw := x.(type) {
		case *ast.SwitchStmt:
			if sw.Init != nil {
				parts = append(parts, nodeOfStmt(sw.Init))
			}
			if sw.Tag != nil {
				parts = append(parts, callNodes(sw.Tag)...)
				tag = src(sw.Tag)
			}
			body = sw.Body
		case *ast.TypeSwitchStmt:
			if sw.Init != nil {
				parts = append(parts, nodeOfStmt(sw.Init))
			}
			parts = append(parts, callNodes(sw.Assign)...)
			tag = src(sw.Assign)
			body = sw.Body
		}
		// the clauses as a chain of two-way branches, the default clause last
		chain, deflt := ".skip", ".skip"
		var clauses []*ast.CaseClause
		for _, c := range body.List {
			cc := c.(*ast.CaseClause)
			for _, s := range cc.Body {
				if b, ok := s.(*ast.BranchStmt); ok && b.Tok == token.FALLTHROUGH {
					die("fallthrough inside a deferred function: %s", src(x))
				}
			}
			if cc.List == nil {
				deflt = nodeOfStmts(cc.Body)
			} else {
				clauses = append(clauses, cc)
			}
		}
		chain = deflt
		for i := len(clauses) - 1; i >= 0; i-- {
			cc := clauses[i]
			labels := make([]string, len(cc.List))
			var lc []string
			for j, l := range cc.List {
				labels[j] = src(l)
				lc = append(lc, callNodes(l)...)
			}
			br := "(.ite " + lit("switch "+tag+" case "+strings.Join(labels, ", ")) + " " + nodeOfStmts(cc.Body) + " " + chain + ")"
			chain = seq(append(lc, br))
		}
		parts = append(parts, chain)
		return seq(parts)
	}
	// loops, select, go, defer, goto, labels: a deferred clean-up has no business with them — fail closed
	die("statement outside the supported subset inside a deferred function: %s", src(st))
	return ""
}

func main() {
	if len(os.Args) > 1 && os.Args[1] == "-run" {
		runMain() // run.go: action.Run / LoadContentsFromFile (acquire … defer release) and every fan-out → Gen/RunFrame.lean
		return
	}
	if len(os.Args) > 1 && os.Args[1] == "-startup" {
		startupMain() // startup.go: what runs before the signal handling exists → Gen/Startup.lean
		return
	}
	repo := os.Getenv("VERIF_REPO")
	if repo == "" {
		repo = "/repo"
	}
	f, err := parser.ParseFile(fset, filepath.Join(repo, "lib/cli/app.go"), nil, 0)
	if err != nil {
		die("%v", err)
	}
	var fd *ast.FuncDecl
	for _, d := range f.Decls {
		if x, ok := d.(*ast.FuncDecl); ok && x.Name.Name == "commandAction" && x.Recv == nil {
			fd = x
		}
	}
	if fd == nil {
		die("commandAction not found")
	}
	// the closure it returns
	var body *ast.BlockStmt
	for _, st := range fd.Body.List {
		if r, ok := st.(*ast.ReturnStmt); ok && len(r.Results) == 1 {
			if fl, ok := r.Results[0].(*ast.FuncLit); ok {
				body = fl.Body
			}
		}
	}
	if body == nil || len(fd.Body.List) != 1 {
		die("commandAction is no longer `return func(c *cli.Context) (err error) { … }`")
	}
	type stmt struct {
		kind  string // defer | go | call | assign | if-return | if | return | decl | other
		what  string
		calls []string
	}
	var stmts []stmt
	var deferredBodies []string
	for _, st := range body.List {
		switch x := st.(type) {
		case *ast.DeferStmt:
			if fl, ok := x.Call.Fun.(*ast.FuncLit); ok {
				stmts = append(stmts, stmt{"defer", "func", calls(fl.Body)})
				deferredBodies = append(deferredBodies, nodeOfStmts(fl.Body.List))
			} else {
				stmts = append(stmts, stmt{"defer", src(x.Call.Fun), nil})
			}
		case *ast.GoStmt:
			if fl, ok := x.Call.Fun.(*ast.FuncLit); ok {
				stmts = append(stmts, stmt{"go", "func", calls(fl.Body)})
			} else {
				stmts = append(stmts, stmt{"go", src(x.Call.Fun), nil})
			}
		case *ast.ExprStmt:
			if c, ok := x.X.(*ast.CallExpr); ok {
				stmts = append(stmts, stmt{"call", src(c.Fun), nil})
			} else {
				die("unrecognised expression statement: %s", src(x))
			}
		case *ast.AssignStmt:
			stmts = append(stmts, stmt{"assign", strings.Join(calls(x), ","), nil})
		case *ast.IfStmt:
			k := "if"
			if hasReturn(x) {
				k = "if-return"
			}
			stmts = append(stmts, stmt{k, strings.Join(calls(x), ","), nil})
		case *ast.ReturnStmt:
			stmts = append(stmts, stmt{"return", "", nil})
		case *ast.DeclStmt:
			stmts = append(stmts, stmt{"decl", "", nil})
		case *ast.SelectStmt:
			// only a select that cannot block (it has a default clause) and neither returns nor starts anything
			hasDefault := false
			for _, c := range x.Body.List {
				if cc, ok := c.(*ast.CommClause); ok && cc.Comm == nil {
					hasDefault = true
				}
			}
			bad := false
			ast.Inspect(x, func(n ast.Node) bool {
				switch n.(type) {
				case *ast.ReturnStmt, *ast.DeferStmt, *ast.GoStmt, *ast.FuncLit:
					bad = true
				}
				return true
			})
			if !hasDefault || bad {
				die("select statement that may block, returns or starts something in commandAction: %s", src(st))
			}
			stmts = append(stmts, stmt{"select-nonblocking", strings.Join(calls(x), ","), nil})
		default:
			die("unrecognised statement in commandAction: %s", src(st))
		}
	}
	fmt.Println("/- GENERATED by extract/cliproto from lib/cli/app.go — do not edit. -/")
	fmt.Println("import Csvq.Model.CliFrame")
	fmt.Println("namespace Csvq.Gen")
	fmt.Println()
	fmt.Println("/-- statements of the closure returned by commandAction, in source order: ⟨kind, what, calls inside a deferred / go function literal⟩ -/")
	fmt.Println("def commandActionStmts : List (String × String × List String) := [")
	for i, s := range stmts {
		sep := ","
		if i == len(stmts)-1 {
			sep = ""
		}
		fmt.Printf("  (%s, %s, %s)%s\n", lit(s.kind), lit(s.what), list(s.calls), sep)
	}
	fmt.Println("]")
	fmt.Println()
	fmt.Println("/-- every call made anywhere in that closure (nested function literals included) -/")
	fmt.Printf("def commandActionCalls : List String :=\n  %s\n", list(calls(body)))
	fmt.Println()
	fmt.Println("/-- the bodies of the function literals deferred in that closure, in source order, WITH their control flow -/")
	fmt.Println("def commandActionDeferredBodies : List Csvq.CliFrame.Node := [")
	for i, b := range deferredBodies {
		sep := ","
		if i == len(deferredBodies)-1 {
			sep = ""
		}
		fmt.Printf("  %s%s\n", b, sep)
	}
	fmt.Println("]")
	fmt.Println()
	fmt.Println("end Csvq.Gen")
}
