module cliproto

go 1.18
