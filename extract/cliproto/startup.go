// startup.go (`cliproto -startup`): everything a csvq run executes BEFORE its signal handling and its deferred
// clean-up exist — package initialisation, cli.Run up to app.Run, the hooks of the cli framework (app.Before), and
// the statements of the closure returned by commandAction up to the `go func() { … cancel() }()` that turns a signal
// into a cancelled context — as a regenerated list of the FILE-SYSTEM EFFECTS reachable from that prefix:
// Csvq/Gen/Startup.lean.
//
// The packages of the module are parsed and TYPE-CHECKED from source (one universe; imports from outside the module
// come from the compiler's export data), and from every root the static call graph is followed: a call, and any
// MENTION of a function (a function value handed on may be called), is an edge; a call through an interface of the
// module goes to the method of every type of the module that implements it.  Calls that leave the module are
// the leaves: they are classified by name (creates / writes / removes a file; opens one for reading, with which
// kind of lock; anything else).  Over-approximation: every branch is taken, every mentioned function is called.
// Stdlib only.  Fails loudly (exit 1) on anything it does not recognise.
package main

import (
	"bytes"
	"fmt"
	"go/ast"
	"go/build"
	"go/importer"
	"go/parser"
	"go/token"
	"go/types"
	"io"
	"os"
	"os/exec"
	"path/filepath"
	"sort"
	"strings"
)

const modPath = "github.com/mithrandie/csvq"

type sPkg struct {
	path  string
	dir   string
	files []*ast.File
	info  *types.Info
	types *types.Package
}

type sLoader struct {
	repo   string
	pkgs   map[string]*sPkg
	order  []string
	ext    map[string]bool
	gc     types.Importer
	export map[string]string
}

func (l *sLoader) parse(path string) {
	if _, ok := l.pkgs[path]; ok {
		return
	}
	dir := filepath.Join(l.repo, strings.TrimPrefix(strings.TrimPrefix(path, modPath), "/"))
	pkgs, err := parser.ParseDir(fset, dir, func(fi os.FileInfo) bool {
		if strings.HasSuffix(fi.Name(), "_test.go") {
			return false
		}
		ok, err := build.Default.MatchFile(dir, fi.Name())
		return err == nil && ok
	}, 0)
	if err != nil {
		die("parse %s: %v", dir, err)
	}
	if len(pkgs) != 1 {
		die("expected one package in %s, found %d", dir, len(pkgs))
	}
	p := &sPkg{path: path, dir: dir}
	l.pkgs[path] = p
	for _, ap := range pkgs {
		var names []string
		for fn := range ap.Files {
			names = append(names, fn)
		}
		sort.Strings(names)
		for _, fn := range names {
			p.files = append(p.files, ap.Files[fn])
		}
	}
	for _, f := range p.files {
		for _, im := range f.Imports {
			ip := strings.Trim(im.Path.Value, "\"")
			if ip == modPath || strings.HasPrefix(ip, modPath+"/") {
				l.parse(ip)
			} else {
				l.ext[ip] = true
			}
		}
	}
	l.order = append(l.order, path) // dependencies first
}

func (l *sLoader) Import(path string) (*types.Package, error) {
	if p, ok := l.pkgs[path]; ok {
		if p.types == nil {
			return nil, fmt.Errorf("import cycle or unchecked package %s", path)
		}
		return p.types, nil
	}
	return l.gc.Import(path)
}

func (l *sLoader) check() {
	var list []string
	for ip := range l.ext {
		if ip != "C" && ip != "unsafe" {
			list = append(list, ip)
		}
	}
	sort.Strings(list)
	cmd := exec.Command("go", append([]string{"list", "-export", "-deps", "-f", "{{.ImportPath}}={{.Export}}"}, list...)...)
	cmd.Dir = l.repo
	var stderr bytes.Buffer
	cmd.Stderr = &stderr
	out, err := cmd.Output()
	if err != nil {
		die("go list -export: %v\n%s", err, stderr.String())
	}
	for _, ln := range strings.Split(string(out), "\n") {
		if i := strings.Index(ln, "="); i > 0 && len(ln) > i+1 {
			l.export[ln[:i]] = ln[i+1:]
		}
	}
	l.gc = importer.ForCompiler(fset, "gc", func(path string) (io.ReadCloser, error) {
		f, ok := l.export[path]
		if !ok {
			return nil, fmt.Errorf("no export data for %s", path)
		}
		return os.Open(f)
	})
	for _, path := range l.order {
		p := l.pkgs[path]
		p.info = &types.Info{
			Uses:       map[*ast.Ident]types.Object{},
			Defs:       map[*ast.Ident]types.Object{},
			Types:      map[ast.Expr]types.TypeAndValue{},
			Selections: map[*ast.SelectorExpr]*types.Selection{},
		}
		var terrs []string
		conf := types.Config{Importer: l, Error: func(e error) { terrs = append(terrs, e.Error()) }}
		tp, _ := conf.Check(path, fset, p.files, p.info)
		if len(terrs) > 0 {
			die("type-checking %s failed:\n%s", path, strings.Join(terrs, "\n"))
		}
		p.types = tp
	}
}

func shortName(full string) string {
	return strings.ReplaceAll(strings.ReplaceAll(full, modPath+"/lib/", ""), modPath+"/", "")
}

func inModule(p *types.Package) bool {
	return p != nil && (p.Path() == modPath || strings.HasPrefix(p.Path(), modPath+"/"))
}

// ---- classification of the calls that leave the module ----

// kinds: "create" (can create / replace / write a file or directory entry), "remove", "open-read" (opens an existing
// file without changing the directory), "" (no effect on the directory)
func classifyExternal(full string) string {
	switch full {
	case "os.Create", "os.OpenFile", "os.WriteFile", "os.Mkdir", "os.MkdirAll", "os.MkdirTemp", "os.CreateTemp", "os.Rename",
		"os.Link", "os.Symlink", "os.Truncate", "os.Chmod", "os.Chown", "os.Chtimes", "os.NewFile",
		"io/ioutil.WriteFile", "io/ioutil.TempFile", "io/ioutil.TempDir",
		"github.com/mithrandie/go-file/v2.Create", "github.com/mithrandie/go-file/v2.OpenToUpdate",
		"github.com/mithrandie/go-file/v2.OpenToUpdateContext", "github.com/mithrandie/go-file/v2.TryOpenToUpdate",
		"syscall.Open", "syscall.Creat", "syscall.Mkdir", "syscall.Rename", "syscall.Link", "syscall.Symlink",
		"os/exec.Command", "os/exec.CommandContext", "os.StartProcess", "syscall.Exec", "syscall.ForkExec",
		"(*os.File).Truncate":
		return "create"
	case "os.Remove", "os.RemoveAll", "syscall.Unlink", "syscall.Rmdir":
		return "remove"
	case "os.Open", "os.ReadFile", "io/ioutil.ReadFile", "os.ReadDir", "io/ioutil.ReadDir",
		"github.com/mithrandie/go-file/v2.OpenToRead", "github.com/mithrandie/go-file/v2.OpenToReadContext",
		"github.com/mithrandie/go-file/v2.TryOpenToRead":
		return "open-read"
	}
	return ""
}

// packages outside the module and outside the standard library whose calls are followed no further; any OTHER such
// package reached from the prefix is listed by the extractor and refused by the theorem until it has been reviewed
func isStd(path string) bool {
	first := path
	if i := strings.Index(path, "/"); i >= 0 {
		first = path[:i]
	}
	return !strings.Contains(first, ".")
}

type sGraph struct {
	l       *sLoader
	decls   map[string]*ast.FuncDecl // FullName → declaration
	declPkg map[string]*sPkg
	named   []*types.Named // every named type of the module (for interface dispatch)
	edges   map[string][]string
	leaves  map[string][]string // function → external callees (full names)
	dyn     map[string][]string // function → calls through a function value (text)
	prune   func(ast.Node) bool // subtrees scan leaves out (set only while cli.Run is scanned)
}

func (g *sGraph) build() {
	g.decls, g.declPkg = map[string]*ast.FuncDecl{}, map[string]*sPkg{}
	g.edges, g.leaves, g.dyn = map[string][]string{}, map[string][]string{}, map[string][]string{}
	for _, path := range g.l.order {
		p := g.l.pkgs[path]
		sc := p.types.Scope()
		for _, nme := range sc.Names() {
			if tn, ok := sc.Lookup(nme).(*types.TypeName); ok {
				if nt, ok := tn.Type().(*types.Named); ok {
					g.named = append(g.named, nt)
				}
			}
		}
		inits := 0
		for _, f := range p.files {
			for _, d := range f.Decls {
				switch x := d.(type) {
				case *ast.FuncDecl:
					obj, _ := p.info.Defs[x.Name].(*types.Func)
					if obj == nil {
						continue
					}
					name := obj.FullName()
					if x.Name.Name == "init" && x.Recv == nil {
						inits++
						name = fmt.Sprintf("%s.init#%d", path, inits)
					}
					g.decls[name] = x
					g.declPkg[name] = p
				}
			}
		}
	}
}

// implementers: the methods of module types that a call of interface method m may reach
func (g *sGraph) implementers(m *types.Func) []string {
	sig := m.Type().(*types.Signature)
	recv := sig.Recv()
	if recv == nil {
		return nil
	}
	iface, ok := recv.Type().Underlying().(*types.Interface)
	if !ok {
		return nil
	}
	var out []string
	for _, nt := range g.named {
		if _, isIface := nt.Underlying().(*types.Interface); isIface {
			continue
		}
		for _, t := range []types.Type{nt, types.NewPointer(nt)} {
			if types.Implements(t, iface) {
				ms := types.NewMethodSet(t)
				if sel := ms.Lookup(m.Pkg(), m.Name()); sel != nil {
					if f, ok := sel.Obj().(*types.Func); ok {
						out = append(out, f.FullName())
					}
				}
				break
			}
		}
	}
	return out
}

// scan lists what node n of package p mentions / calls
func (g *sGraph) scan(p *sPkg, n ast.Node) (edges, leaves, dyn []string) {
	ast.Inspect(n, func(x ast.Node) bool {
		if g.prune != nil && x != nil && g.prune(x) {
			return false
		}
		switch v := x.(type) {
		case *ast.Ident:
			fn, ok := p.info.Uses[v].(*types.Func)
			if !ok {
				return true
			}
			fn = fn.Origin()
			if inModule(fn.Pkg()) {
				if sig := fn.Type().(*types.Signature); sig.Recv() != nil {
					if _, isIface := sig.Recv().Type().Underlying().(*types.Interface); isIface {
						edges = append(edges, g.implementers(fn)...)
						return true
					}
				}
				edges = append(edges, fn.FullName())
			} else if fn.Pkg() != nil {
				leaves = append(leaves, fn.FullName())
			}
		case *ast.CallExpr:
			// a call through a function value (variable, parameter, field, result of a call)
			fun := ast.Unparen(v.Fun)
			var obj types.Object
			switch f := fun.(type) {
			case *ast.Ident:
				obj = p.info.Uses[f]
			case *ast.SelectorExpr:
				obj = p.info.Uses[f.Sel]
			case *ast.FuncLit:
				return true // its body is scanned in place
			}
			switch obj.(type) {
			case *types.Func, *types.TypeName, *types.Builtin:
				return true
			}
			if tv, ok := p.info.Types[fun]; ok && tv.IsType() {
				return true // conversion
			}
			dyn = append(dyn, src(v.Fun))
		}
		return true
	})
	return
}

func (g *sGraph) scanDecl(name string) {
	if _, done := g.edges[name]; done {
		return
	}
	d := g.decls[name]
	if d == nil || d.Body == nil {
		g.edges[name] = []string{}
		return
	}
	switch name {
	case modPath + "/lib/cli.commandAction":
		// its closure is the frame: entered through the roots `frame#…` only
		g.edges[name] = []string{}
		return
	case modPath + "/lib/cli.Run":
		g.prune = pruneCommandAction
		defer func() { g.prune = nil }()
	}
	e, lv, dy := g.scan(g.declPkg[name], d.Body)
	g.edges[name], g.leaves[name], g.dyn[name] = e, lv, dy
}

var wrapped = 0

// pruneCommandAction: the calls `commandAction(func …)` of cli.Run build the actions of the commands, which the
// framework enters only through the frame, and the literal handed over runs as `fn` behind the handler
func pruneCommandAction(x ast.Node) bool {
	if c, ok := x.(*ast.CallExpr); ok {
		if id, ok := c.Fun.(*ast.Ident); ok && id.Name == "commandAction" {
			wrapped++
			return true
		}
	}
	return false
}

func uniqSorted(xs []string) []string {
	m := map[string]bool{}
	for _, x := range xs {
		m[x] = true
	}
	out := make([]string, 0, len(m))
	for x := range m {
		out = append(out, x)
	}
	sort.Strings(out)
	return out
}

func startupMain() {
	repo := os.Getenv("VERIF_REPO")
	if repo == "" {
		repo = "/repo"
	}
	l := &sLoader{repo: repo, pkgs: map[string]*sPkg{}, ext: map[string]bool{}, export: map[string]string{}}
	l.parse(modPath) // package main and everything it imports from the module
	l.check()
	g := &sGraph{l: l}
	g.build()

	// ---- the roots ----
	type root struct {
		name   string
		edges  []string
		leaves []string
		dyn    []string
	}
	var roots []root
	addRoot := func(name string, p *sPkg, nodes ...ast.Node) {
		r := root{name: name}
		for _, n := range nodes {
			e, lv, dy := g.scan(p, n)
			r.edges, r.leaves, r.dyn = append(r.edges, e...), append(r.leaves, lv...), append(r.dyn, dy...)
		}
		roots = append(roots, r)
	}
	// (1) package initialisation: every package-level variable initialiser and init function of the module
	for _, path := range l.order {
		p := l.pkgs[path]
		var nodes []ast.Node
		for _, f := range p.files {
			for _, d := range f.Decls {
				if gd, ok := d.(*ast.GenDecl); ok && gd.Tok == token.VAR {
					for _, s := range gd.Specs {
						for _, v := range s.(*ast.ValueSpec).Values {
							nodes = append(nodes, v)
						}
					}
				}
			}
		}
		r := root{name: "init:" + shortName(path)}
		for _, n := range nodes {
			// an initialiser RUNS the calls it makes; a function it only mentions (a table of built-in functions) is
			// stored, not run — those are reached, if at all, through the code that looks the table up
			ast.Inspect(n, func(x ast.Node) bool {
				if _, ok := x.(*ast.FuncLit); ok {
					return false
				}
				if c, ok := x.(*ast.CallExpr); ok {
					var id *ast.Ident
					switch f := ast.Unparen(c.Fun).(type) {
					case *ast.Ident:
						id = f
					case *ast.SelectorExpr:
						id = f.Sel
					}
					if id != nil {
						if fn, ok := p.info.Uses[id].(*types.Func); ok {
							if inModule(fn.Pkg()) {
								r.edges = append(r.edges, fn.Origin().FullName())
							} else if fn.Pkg() != nil {
								r.leaves = append(r.leaves, fn.FullName())
							}
						}
					}
				}
				return true
			})
		}
		for name := range g.decls {
			if strings.HasPrefix(name, path+".init#") {
				r.edges = append(r.edges, name)
			}
		}
		sort.Strings(r.edges)
		roots = append(roots, r)
	}
	// (2) main and cli.Run: all of it (app.Run is where the frame is entered; what follows it is the exit path)
	mainPkg := l.pkgs[modPath]
	cliPkg := l.pkgs[modPath+"/lib/cli"]
	if cliPkg == nil {
		die("package lib/cli is not imported by main")
	}
	var runDecl, caDecl *ast.FuncDecl
	for _, f := range cliPkg.files {
		for _, d := range f.Decls {
			if fd, ok := d.(*ast.FuncDecl); ok && fd.Recv == nil {
				switch fd.Name.Name {
				case "Run":
					runDecl = fd
				case "commandAction":
					caDecl = fd
				}
			}
		}
	}
	if runDecl == nil || caDecl == nil {
		die("cli.Run / commandAction not found")
	}
	for _, f := range mainPkg.files {
		for _, d := range f.Decls {
			if fd, ok := d.(*ast.FuncDecl); ok && fd.Name.Name == "main" {
				addRoot("main", mainPkg, fd.Body)
			}
		}
	}
	// cli.Run WITHOUT the calls `commandAction(func …)`: they build the actions of the commands, which the framework
	// enters only through the frame (root 3), and the literal handed over runs as `fn` behind the handler
	// (gen_handler_before_any_command).  Everything else — app.Before, app.ExitErrHandler, any other literal — is
	// part of the prefix.
	hooks := []string{}
	{
		ast.Inspect(runDecl.Body, func(x ast.Node) bool {
			if a, ok := x.(*ast.AssignStmt); ok {
				for _, lh := range a.Lhs {
					switch s := src(lh); s {
					case "app.Before", "app.After", "app.CommandNotFound", "app.InvalidFlagAccessHandler", "app.BashComplete":
						hooks = append(hooks, s)
					}
				}
			}
			if kv, ok := x.(*ast.KeyValueExpr); ok {
				if id, ok := kv.Key.(*ast.Ident); ok && (id.Name == "Before" || id.Name == "After" || id.Name == "BashComplete") {
					hooks = append(hooks, "command."+id.Name)
				}
			}
			return true
		})
		g.prune = pruneCommandAction
		addRoot("cli.Run", cliPkg, runDecl.Body)
		g.prune = nil
		if wrapped == 0 {
			die("cli.Run no longer wraps its actions in commandAction")
		}
	}
	// (3) the statements of the frame up to and including the goroutine that cancels the context on a signal
	var body *ast.BlockStmt
	for _, st := range caDecl.Body.List {
		if rt, ok := st.(*ast.ReturnStmt); ok && len(rt.Results) == 1 {
			if fl, ok := rt.Results[0].(*ast.FuncLit); ok {
				body = fl.Body
			}
		}
	}
	if body == nil {
		die("commandAction is no longer `return func(c *cli.Context) (err error) { … }`")
	}
	handlerAt := -1
	for i, st := range body.List {
		if gs, ok := st.(*ast.GoStmt); ok {
			if fl, ok := gs.Call.Fun.(*ast.FuncLit); ok {
				for _, c := range calls(fl.Body) {
					if c == "cancel" {
						handlerAt = i
					}
				}
			}
		}
		if handlerAt >= 0 {
			break
		}
	}
	if handlerAt < 0 {
		die("no `go func() { … cancel() }()` in the frame")
	}
	var frameRoots, followed []string
	for i, st := range body.List[:handlerAt] {
		if _, ok := st.(*ast.DeferStmt); ok {
			// a deferred call runs at the END of the frame, not in the prefix
			frameRoots = append(frameRoots, fmt.Sprintf("(%d, \"defer\")", i))
			continue
		}
		what := strings.Join(calls(st), ",")
		if es, ok := st.(*ast.ExprStmt); ok {
			if c, ok := es.X.(*ast.CallExpr); ok {
				what = src(c.Fun) // as Gen/CliProto names a call statement
			}
		}
		frameRoots = append(frameRoots, fmt.Sprintf("(%d, %s)", i, lit(what)))
		followed = append(followed, fmt.Sprintf("(%d, %s)", i, lit(what)))
		addRoot(fmt.Sprintf("frame#%d:%s", i, what), cliPkg, st)
	}

	// ---- reachability ----
	type hit struct{ fn, callee, kind string }
	parent := map[string]string{}
	rootOf := map[string]string{}
	var queue []string
	var hits []hit
	var dynCalls []string
	extPkgs := map[string]bool{}
	leaf := func(from string, lv []string) {
		for _, c := range lv {
			if k := classifyExternal(c); k != "" {
				hits = append(hits, hit{from, c, k})
			}
		}
	}
	for _, r := range roots {
		leaf(r.name, r.leaves)
		for _, d := range r.dyn {
			dynCalls = append(dynCalls, shortName(r.name)+": "+d)
		}
		for _, e := range r.edges {
			if _, seen := parent[e]; !seen {
				parent[e], rootOf[e] = r.name, r.name
				queue = append(queue, e)
			}
		}
	}
	for len(queue) > 0 {
		f := queue[0]
		queue = queue[1:]
		g.scanDecl(f)
		leaf(f, g.leaves[f])
		for _, d := range g.dyn[f] {
			dynCalls = append(dynCalls, shortName(f)+": "+d)
		}
		for _, e := range g.edges[f] {
			if _, seen := parent[e]; !seen {
				parent[e], rootOf[e] = f, rootOf[f]
				queue = append(queue, e)
			}
		}
	}
	// external packages reached (outside the standard library)
	note := func(lv []string) {
		for _, c := range lv {
			// FullName: pkgpath.Func or (*pkgpath.T).M or (pkgpath.T).M
			s := strings.TrimLeft(c, "(*")
			if i := strings.LastIndex(s, "."); i > 0 {
				s = s[:i]
			}
			if j := strings.Index(s, ")"); j >= 0 {
				s = s[:j]
			}
			if k := strings.LastIndex(s, "."); k > 0 && strings.Contains(c, ").") {
				s = s[:k]
			}
			if !isStd(s) {
				extPkgs[s] = true
			}
		}
	}
	for _, r := range roots {
		note(r.leaves)
	}
	for f := range parent {
		note(g.leaves[f])
	}
	var goFile []string
	for _, r := range roots {
		for _, c := range r.leaves {
			if strings.Contains(c, "github.com/mithrandie/go-file/") {
				goFile = append(goFile, c)
			}
		}
	}
	for f := range parent {
		for _, c := range g.leaves[f] {
			if strings.Contains(c, "github.com/mithrandie/go-file/") {
				goFile = append(goFile, c)
			}
		}
	}
	chain := func(f string) []string {
		var out []string
		for f != "" {
			out = append([]string{shortName(f)}, out...)
			f = parent[f]
		}
		return out
	}

	// ---- the handlers opened in the prefix: Container.CreateHandler… / NewHandler… calls reached ----
	openKind := map[string]string{
		"(*" + modPath + "/lib/file.Container).CreateHandlerWithoutLock": "without-lock",
		"(*" + modPath + "/lib/file.Container).CreateHandlerForRead":     "for-read",
		"(*" + modPath + "/lib/file.Container).CreateHandlerForUpdate":   "for-update",
		"(*" + modPath + "/lib/file.Container).CreateHandlerForCreate":   "for-create",
		modPath + "/lib/file.NewHandlerWithoutLock":                      "without-lock",
		modPath + "/lib/file.NewHandlerForRead":                          "for-read",
		modPath + "/lib/file.NewHandlerForUpdate":                        "for-update",
		modPath + "/lib/file.NewHandlerForCreate":                        "for-create",
	}
	type open struct{ in, kind, what string }
	var opens []open
	seenOpen := map[string]bool{}
	var reached []string
	for f := range parent {
		reached = append(reached, f)
	}
	sort.Strings(reached)
	for _, f := range reached {
		if strings.Contains(f, "/lib/file.") || strings.Contains(f, "/lib/file)") {
			continue // inside lib/file the constructors call each other: the callers outside are what opens a file
		}
		for _, e := range g.edges[f] {
			if k, ok := openKind[e]; ok {
				key := f + "|" + e
				if !seenOpen[key] {
					seenOpen[key] = true
					opens = append(opens, open{shortName(f), k, shortName(e)})
				}
			}
		}
	}

	// ---- output ----
	fmt.Println("/- GENERATED by extract/cliproto -startup from the packages of csvq (type-checked call graph) — do not edit. -/")
	fmt.Println("namespace Csvq.Gen")
	fmt.Println()
	fmt.Println("/-- the statements of the frame (closure returned by commandAction) that run before the goroutine which turns a")
	fmt.Println("    signal into a cancelled context has been started, in source order: ⟨index, calls⟩ (`defer`: runs at the END) -/")
	fmt.Printf("def startupFrameRoots : List (Nat × String) :=\n  [%s]\n\n", strings.Join(frameRoots, ", "))
	fmt.Println("/-- those of them whose calls were followed as roots of the call graph (all but the `defer`s) -/")
	fmt.Printf("def startupFollowedFrameStmts : List (Nat × String) :=\n  [%s]\n\n", strings.Join(followed, ", "))
	fmt.Println("/-- index of that `go` statement in the frame -/")
	fmt.Printf("def startupHandlerAt : Nat := %d\n\n", handlerAt)
	var rootNames []string
	for _, r := range roots {
		rootNames = append(rootNames, r.name)
	}
	fmt.Println("/-- every root of the prefix: package initialisation, main, cli.Run, the statements of the frame -/")
	fmt.Printf("def startupRoots : List String :=\n  %s\n\n", list(rootNames))
	fmt.Println("/-- hooks of the cli framework that cli.Run sets (functions the framework calls around the action) -/")
	fmt.Printf("def startupHooks : List String :=\n  %s\n\n", list(uniqSorted(hooks)))
	fmt.Println("/-- number of functions of the module reachable from the prefix -/")
	fmt.Printf("def startupReachedCount : Nat := %d\n\n", len(reached))
	fmt.Println("/-- file handlers opened from the prefix: ⟨function that opens, kind of handler, constructor⟩ -/")
	fmt.Println("def startupOpens : List (String × String × String) := [")
	for i, o := range opens {
		sep := ","
		if i == len(opens)-1 {
			sep = ""
		}
		fmt.Printf("  (%s, %s, %s)%s\n", lit(o.in), lit(o.kind), lit(o.what), sep)
	}
	fmt.Println("]")
	fmt.Println()
	fmt.Println("/-- calls leaving the module that touch the directory, reachable from the prefix:")
	fmt.Println("    ⟨kind (create / remove / open-read), callee, call chain from the root⟩ -/")
	fmt.Println("def startupFsCalls : List (String × String × List String) := [")
	sort.Slice(hits, func(i, j int) bool {
		if hits[i].kind != hits[j].kind {
			return hits[i].kind < hits[j].kind
		}
		if hits[i].callee != hits[j].callee {
			return hits[i].callee < hits[j].callee
		}
		return hits[i].fn < hits[j].fn
	})
	for i, h := range hits {
		sep := ","
		if i == len(hits)-1 {
			sep = ""
		}
		fmt.Printf("  (%s, %s, %s)%s\n", lit(h.kind), lit(shortName(h.callee)), list(chain(h.fn)), sep)
	}
	fmt.Println("]")
	fmt.Println()
	fmt.Println("/-- calls through a function VALUE reachable from the prefix (the value was mentioned somewhere: mentions are edges) -/")
	fmt.Printf("def startupDynamicCalls : List String :=\n  %s\n\n", list(uniqSorted(dynCalls)))
	var eps []string
	for p := range extPkgs {
		eps = append(eps, p)
	}
	sort.Strings(eps)
	fmt.Println("/-- packages outside the module and outside the standard library called from the prefix -/")
	fmt.Printf("def startupExternalPackages : List String :=\n  %s\n\n", list(eps))
	fmt.Println("/-- the functions of the locking library (go-file) called from the prefix -/")
	fmt.Printf("def startupGoFileCalls : List String :=\n  %s\n\n", list(uniqSorted(goFile)))
	fmt.Println("end Csvq.Gen")
}

